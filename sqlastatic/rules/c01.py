"""C01 -- Rendered SQL preserves the meaning of the expression tree (grouping / negation tables)."""

from __future__ import annotations

import ast
import re
from typing import Dict, List, Optional, Tuple

from ..astutil import call_name, calls_in, dotted, unparse, walk_local, walk_stmts, returns_of, name_stores
from ..errors import AnalysisError
from ..evalx import Sym, Unknown, has_unknown, require_known
from ..oracles import load
from ..report import Registry, sub, chain
from ._helpers_rob_c1 import (
    MiniInterp, Unsupported, bind_call_args, feasible_reachable, inline_locals, returned_values,
)

R = Registry(
    "C01",
    title="Rendered SQL preserves the meaning of the expression tree",
    decides=(
        "(a) the grouping decision is_precedent()/_PRECEDENCE/_associative/_natural_self_precedent never omits "
        "parentheses where the standard-SQL order or a backend's operator grammar (SQLite, PostgreSQL, MySQL, "
        "SQL Server, Oracle) would re-associate the rendered infix tokens; (b) every declared negation of a "
        "comparison operator is its logical complement and negation is an involution; (c) only associative "
        "operators are flattened; (d) every operator-expression constructor applies self_group(against=its "
        "operator) to its operands, an ungrouped operand list is built only where every compiler renders it "
        "inside function-call parentheses, every self_group() of an operator-bearing class returns self only "
        "where is_precedent() is false or the rendering is delimited in every compiler, and delegating "
        "self_group()s forward `against`; (e) the generic operator->token table names the right token."
    ),
    not_decided=(
        "value-level agreement of whole rendered statements with a backend; dialect arithmetic rewrites; "
        "typing of CASE/CAST/scalar subqueries; operators rendered through function-call syntax."
    ),
)

OPS = "sql/operators.py"
DC = "sql/default_comparator.py"
CMP = "sql/compiler.py"
EL = "sql/elements.py"

DIALECTS = {
    "sqlite": "dialects/sqlite/base.py::SQLiteCompiler",
    "postgresql": "dialects/postgresql/base.py::PGCompiler",
    "mysql": "dialects/mysql/base.py::MySQLCompiler",
    "mssql": "dialects/mssql/base.py::MSSQLCompiler",
    "oracle": "dialects/oracle/base.py::OracleCompiler",
}

UNARY = {"neg", "inv", "bitwise_not_op"}
# value-computing operators that take part in the grouping relation (DESIGN C01 "Scope of R1")
IN_SCOPE = {
    "mul", "truediv", "floordiv", "mod", "add", "sub", "neg", "concat_op",
    "bitwise_xor_op", "bitwise_or_op", "bitwise_and_op", "bitwise_not_op", "bitwise_lshift_op",
    "bitwise_rshift_op", "match_op", "not_match_op", "regexp_match_op", "not_regexp_match_op",
    "ilike_op", "not_ilike_op", "like_op", "not_like_op", "in_op", "not_in_op", "is_", "is_not", "eq", "ne",
    "is_distinct_from", "is_not_distinct_from", "gt", "lt", "ge", "le", "between_op", "not_between_op",
    "inv", "and_", "or_", "collate",
}
# `collate` as the OUTER operator: `(a || b).collate(x)` renders `a || b COLLATE x`; explicit collations
# propagate to the enclosing expression under every backend's collation-derivation rules, so no failing
# input exists (verified on SQLite) -- excluded with this reason.
OUTER_EXEMPT = {"collate": "explicit COLLATE propagates to the enclosing expression; grouping is immaterial"}

L, Rt, Q = "\x00L", "\x00R", "\x00?"
# C01 quantifies over "every dialect that has an executable backend (SQLite, PostgreSQL, MariaDB)"
PROPERTY_DIALECTS = {"standard", "sqlite", "postgresql", "mysql"}
# rows whose declared negation cannot be reached with that operator through any public API path
R2_EXCEPTIONS = {
    "not_regexp_match_op": "operators.not_regexp_match_op() is implemented as ~a.regexp_match(b); the lookup row is "
                           "reachable only by calling Comparator.operate() with the negated operator explicitly",
}


def _short(v):
    return v.short if isinstance(v, Sym) else v


# ---------------------------------------------------------------------- table extraction
def _tables(ctx):
    m = ctx.index.module(OPS)
    prec = require_known(ctx.ev.module_value(m, "_PRECEDENCE"), "_PRECEDENCE")
    ctx.require(isinstance(prec, dict) and len(prec) >= 40, "_PRECEDENCE is not a dict literal of >= 40 rows")
    P = {}
    for k, v in prec.items():
        ctx.require(isinstance(k, Sym) and isinstance(v, int), f"_PRECEDENCE row {k!r}: {v!r} not (operator, int)")
        P[k.short] = v
    assoc = {_short(x) for x in require_known(ctx.ev.module_value(m, "_associative"), "_associative")}
    nsp = {_short(x) for x in require_known(ctx.ev.module_value(m, "_natural_self_precedent"), "_natural_self_precedent")}
    return m, P, assoc, nsp


def _grouping_predicate(ctx):
    """Evaluate is_precedent() itself: returns grouped(inner, outer) -> bool for operator short names, computed
    by interpreting the function body (and the module predicates it calls) on the evaluated module tables for
    that concrete operator pair.  Nothing is assumed about the shape of the function: elif chains, early
    returns, named locals for the two lookups, an inverted comparison or an extracted module helper all
    evaluate to the same truth table; a construct the interpreter does not know is an analysis error."""
    f = ctx.func(f"{OPS}::is_precedent")
    ctx.require(len([p for p in f.params]) >= 2, "is_precedent signature changed")
    m = f.module
    interp = MiniInterp(ctx, m)
    prec = require_known(ctx.ev.module_value(m, "_PRECEDENCE"), "_PRECEDENCE")
    syms = {k.short: k for k in prec if isinstance(k, Sym)}
    memo = {}

    def grouped(p: str, q: str) -> bool:
        if (p, q) not in memo:
            try:
                v = interp.call(f, [syms[p], syms[q]])
            except Unsupported as e:
                raise AnalysisError(f"is_precedent({p}, {q}) cannot be evaluated: {e} (unknown idiom)")
            ctx.require(isinstance(v, bool), f"is_precedent({p}, {q}) evaluates to {v!r}, not a bool")
            memo[(p, q)] = v
        return memo[(p, q)]

    return grouped


# ---------------------------------------------------------------------- rendering classification
_ALT_CAP = 12


def _product(parts: List[List[str]]) -> List[str]:
    out = [""]
    for alts in parts:
        out = [a + b for a in out for b in alts]
        if len(out) > _ALT_CAP:
            return [Q]
    return out


def _uniq(xs: List[str]) -> List[str]:
    seen, out = set(), []
    for x in xs:
        if x not in seen:
            seen.add(x)
            out.append(x)
    return out


def _template(ctx, f, binary_param: str, depth=0) -> List[str]:
    """Render templates of a visit_<op>_binary/unary method: every alternative string the method can return,
    where the processed left operand is \\x00L, the right operand \\x00R, anything else \\x00? (conditional
    expressions and several `return`s give several alternatives)."""
    out = []
    cls = f.cls

    def ev(e) -> List[str]:
        if isinstance(e, ast.Constant) and isinstance(e.value, str):
            return [e.value]
        if isinstance(e, ast.BinOp) and isinstance(e.op, ast.Add):
            return _product([ev(e.left), ev(e.right)])
        if isinstance(e, ast.BinOp) and isinstance(e.op, ast.Mod) and isinstance(e.left, ast.Constant) and isinstance(e.left.value, str):
            args = e.right.elts if isinstance(e.right, ast.Tuple) else [e.right]
            parts = re.split(r"%\(?\w*\)?[srd]", e.left.value)
            if len(parts) - 1 != len(args):
                return [Q]
            seq = [[parts[0]]]
            for a, p in zip(args, parts[1:]):
                seq.append(ev(a))
                seq.append([p])
            return [s.replace("%%", "%") for s in _product(seq)]
        if isinstance(e, ast.JoinedStr):
            seq = []
            for v in e.values:
                seq.append([v.value] if isinstance(v, ast.Constant) else ev(v.value))
            return _product(seq)
        if isinstance(e, ast.IfExp):
            return _uniq(ev(e.body) + ev(e.orelse))
        if isinstance(e, ast.Call):
            nm = call_name(e) or ""
            short = nm.rsplit(".", 1)[-1]
            if short in ("_generate_generic_binary",) and len(e.args) >= 2:
                return [L + tok + Rt for tok in ev(e.args[1])]
            if short in ("_generate_generic_unary_operator",) and len(e.args) >= 2:
                return [tok + L for tok in ev(e.args[1])]
            if short.startswith("visit_") and cls is not None and depth < 4:
                tgt = ctx.index.resolve_method(cls, short)
                if tgt is not None and tgt.node is not f.node:
                    sub_t = _template(ctx, tgt, tgt.params[1] if len(tgt.params) > 1 else binary_param, depth + 1)
                    if sub_t:
                        return _uniq(sub_t) if len(sub_t) <= _ALT_CAP else [Q]
            txt = unparse(e)
            has_l = re.search(rf"\b{binary_param}\.(left|element)\b", txt) is not None
            has_r = re.search(rf"\b{binary_param}\.right\b", txt) is not None
            if has_l and not has_r:
                return [L]
            if has_r and not has_l:
                return [Rt]
            return [Q]
        if isinstance(e, ast.Name):
            # a local bound once to a template-able expression
            binds = [v for n, v, st in name_stores(f.node) if n == e.id and v is not None]
            if len(binds) == 1 and depth < 4:
                return ev(binds[0])
            return [Q]
        return [Q]

    for r in returns_of(f.node):
        if r.value is None:
            continue
        out.extend(ev(r.value))
    return _uniq(out)


_MARK = re.compile("(\x00[LR?])")
_FUNC_HEAD = re.compile(r"^([A-Za-z_][\w.]*)\s*\(")
# keywords that can precede `(` without being a function name
_PREFIX_KEYWORDS = {"NOT", "AND", "OR", "IN", "BETWEEN", "LIKE", "IS"}
_CONST_TAIL = re.compile(r"^(\S+(?: \S+)*?) (\d+(?:\.\d+)?|'[^']*'|NULL|TRUE|FALSE)$", re.I)


def _outer_tokens(t: str, only: Optional[str] = None):
    """Operator tokens textually adjacent to an operand marker (what an ungrouped operand would be parsed
    against): (before, after) = tokens standing to the LEFT of an operand / to the RIGHT of an operand.
    None when an operand touches an unknown fragment directly."""
    parts = _MARK.split(t)  # text, marker, text, marker, ... text
    texts, marks = parts[0::2], parts[1::2]
    before, after = [], []
    for i, tx in enumerate(texts):
        left_m = marks[i - 1] if i > 0 else None
        right_m = marks[i] if i < len(marks) else None
        if left_m and right_m and not tx.strip() and Q in (left_m, right_m) and {left_m, right_m} != {Q}:
            return None  # operand glued to an unknown fragment
        lo = left_m if left_m != Q and only in (None, left_m) else None
        ro = right_m if right_m != Q and only in (None, right_m) else None
        if left_m and right_m and not re.search(r"[(),]", tx):
            tok = " ".join(tx.upper().split())
            if tok and lo:
                after.append(tok)
            if tok and ro:
                before.append(tok)
            continue
        if lo:  # text to the right of an operand, up to a delimiter
            seg = re.split(r"[(),]", tx, maxsplit=1)[0].strip()
            if seg:
                after.append(seg.upper().split()[0])
        if ro:  # text to the left of an operand, back to a delimiter
            seg = re.split(r"[(),]", tx)[-1].strip()
            if seg:
                before.append(seg.upper().split()[-1])
    return before, after


def _top_level_items(t: str):
    """Depth-0 structure of a template: list of ('atom', kind) / ('text', s); a balanced `(...)` or
    `name(...)` is one atom of kind 'G'.  None if parentheses are unbalanced."""
    items, buf, i, n = [], "", 0, len(t)

    def flush():
        nonlocal buf
        if buf.strip():
            items.append(("text", " ".join(buf.upper().split())))
        buf = ""

    while i < n:
        ch = t[i]
        if ch == "\x00":
            flush()
            items.append(("atom", t[i:i + 2]))
            i += 2
        elif ch == "(":
            # function head directly before?
            m = re.search(r"([A-Za-z_][\w.]*)\s*$", buf)
            if m and m.group(1).upper() not in _PREFIX_KEYWORDS:
                buf = buf[:m.start()]
            flush()
            depth, j = 0, i
            while j < n:
                if t[j] == "(":
                    depth += 1
                elif t[j] == ")":
                    depth -= 1
                    if depth == 0:
                        break
                j += 1
            if j >= n:
                return None
            items.append(("atom", "G"))
            i = j + 1
        elif ch == ")":
            return None
        else:
            buf += ch
            i += 1
    flush()
    return items


def _analyse_template(t: str):
    """-> (inner, outer_tokens): inner = ('op', (tokens...)) -- infix / prefix operator tokens at the top
    level of the rendering; ('self', ()) -- delimited by its own parentheses / function call;
    ('transparent', ()) -- the operand itself; ('unknown', ())."""
    t = t.strip()
    outer = _outer_tokens(t)
    items = _top_level_items(t)
    if items is None or not items:
        return ("unknown", ()), outer
    kinds = [k for k, _ in items]
    # constant right operand: `L = 1`
    if kinds[-1] == "text" and len(items) >= 2 and kinds[-2] == "atom":
        m = _CONST_TAIL.match(items[-1][1])
        if m:
            items = items[:-1] + [("text", m.group(1)), ("atom", "C")]
            kinds = [k for k, _ in items]
    if "," in "".join(v for k, v in items if k == "text"):
        return ("unknown", ()), outer
    if kinds == ["atom"]:
        a = items[0][1]
        if a == "G":
            return ("self", ()), outer
        if a in (L, Rt):
            return ("transparent", ()), outer
        return ("unknown", ()), outer
    # atom (text atom)+ : infix chain
    if len(items) >= 3 and len(items) % 2 == 1 and all(
            k == ("atom" if i % 2 == 0 else "text") for i, k in enumerate(kinds)):
        if items[0][1] == Q:
            return ("unknown", ()), outer
        return ("op", tuple(v for k, v in items if k == "text")), outer
    # text atom : prefix operator
    if kinds == ["text", "atom"] and items[1][1] != Q:
        return ("op", ("\x01" + items[0][1],)), outer
    return ("unknown", ()), outer


def _classify(templates: List[str]):
    """Combine the alternatives: inner = ('op', tokens) if every alternative is an operator form or
    self-delimiting (the bare operator forms decide), ('self', ()) if all are delimited, else unknown."""
    toks, kinds, before, after, unknown_outer = [], set(), [], [], False
    for t in templates:
        inner, outer = _analyse_template(t)
        kinds.add(inner[0])
        toks.extend(inner[1])
        if outer is None:
            unknown_outer = True
        else:
            before.extend(outer[0])
            after.extend(outer[1])
    if not kinds or "unknown" in kinds:
        inner = ("unknown", ())
    elif "op" in kinds:
        inner = ("op", tuple(_uniq(toks)))
    elif kinds == {"self"}:
        inner = ("self", ())
    elif kinds <= {"self", "transparent"}:
        inner = ("transparent", ())
    else:
        inner = ("unknown", ())
    return inner, (None if unknown_outer else (sorted(set(before)), sorted(set(after))))


def _token_aliases() -> Dict[str, str]:
    return {k.upper(): v.upper() for k, v in load("sql_operator_token_aliases.json")["same_production_as"].items()}


def _norm_token(tok: str, unary: bool = False) -> str:
    prefix = tok.startswith("\x01")
    t = " ".join(tok.lstrip("\x01").strip().upper().split())
    if t == "%%":
        t = "%"
    if (unary or prefix) and t in ("-", "~", "+"):
        return "u" + t
    return _token_aliases().get(t, t)


def _sets_eager_grouping(f) -> bool:
    for st in walk_stmts(f.node.body):
        if isinstance(st, ast.Assign) and isinstance(st.targets[0], ast.Subscript):
            tg = st.targets[0]
            if isinstance(tg.slice, ast.Constant) and tg.slice.value == "eager_grouping" and \
                    isinstance(st.value, ast.Constant) and st.value.value is True:
                return True
    return False


def _render_one(ctx, cls, op: str, gen, unary: bool):
    """(inner=(kind, tokens), outer_tokens|None, via) of operator `op` for compiler class `cls`."""
    cands = [f"visit_{op}_unary_operator", f"visit_{op}_unary_modifier"] if unary else [f"visit_{op}_binary"]
    f = None
    for mname in cands:
        f = ctx.index.resolve_method(cls, mname)
        if f is not None:
            break
    if f is not None:
        ctx.functions_analysed.add(f.key)
        if _sets_eager_grouping(f):
            return ("self", ()), ([], []), f.key + " (eager_grouping: every nested operator expression is parenthesised)"
        bp = f.params[1] if len(f.params) > 1 else "binary"
        inner, outer = _classify(_template(ctx, f, bp))
        if inner[0] == "op":
            inner = ("op", tuple(_uniq([_norm_token(t, unary) for t in inner[1]])))
        if outer is not None:
            outer = tuple(sorted({_norm_token(t, unary) for t in side}) for side in outer)
        return inner, outer, f.key
    if op in gen and isinstance(gen[op], str):
        tok = _norm_token(gen[op], unary)
        return ("op", (tok,)), (([tok], []) if unary else ([tok], [tok])), "OPERATORS"
    return ("unknown", ()), None, "no OPERATORS row and no visit method"


def _generic_operators(ctx):
    cm = ctx.index.module(CMP)
    generic = require_known(ctx.ev.module_value(cm, "OPERATORS"), "OPERATORS")
    return {_short(k): v for k, v in generic.items()}


def _renderings(ctx, compiler_key: str, P: Dict[str, int]):
    """op short name -> (inner=(kind, tokens), outer_tokens|None, via) for one compiler class."""
    cls = ctx.index.cls(compiler_key)
    gen = _generic_operators(ctx)
    out = {}
    for op in sorted(P):
        if op not in IN_SCOPE:
            continue
        out[op] = _render_one(ctx, cls, op, gen, op in UNARY)
    return out


def _levels(grammar: List[List[str]]) -> Dict[str, int]:
    lv = {}
    for i, row in enumerate(grammar):
        for t in row:
            lv[t.upper()] = i
    return lv


@R.rule("C01-R1", floor=1100, template="T-TABLE",
        desc="for every (inner, outer) operator pair that is_precedent() leaves ungrouped, the inner operator's "
             "rendered token binds strictly tighter than the outer's in the standard-SQL order and in each "
             "backend grammar")
def r1(ctx):
    m, P, assoc, nsp = _tables(ctx)
    is_grouped = _grouping_predicate(ctx)
    grammar = load("sql_operator_grammar.json")
    targets = [("standard", f"{CMP}::SQLCompiler")] + sorted(DIALECTS.items())
    ops = sorted(o for o in P if o in IN_SCOPE)
    ctx.require(len(ops) >= 30, f"only {len(ops)} in-scope operators have a precedence")
    undecided = 0
    outside = 0
    for dname, ckey in targets:
        rend = _renderings(ctx, ckey, P)
        lv = _levels(grammar[dname])
        for q in ops:  # outer
            if q in OUTER_EXEMPT:
                continue
            _, outer_q, via_q = rend[q]
            for p in ops:  # inner
                if p == q or is_grouped(p, q):
                    continue  # same-operator flattening is judged by C01-R3 (associativity)
                inner_p, _, via_p = rend[p]
                key = f"{dname}:{q}<-{p}"
                if inner_p[0] == "self":
                    ctx.ok(key, f"inner rendering is self-delimiting ({via_p})", nontrivial=False)
                    continue
                if outer_q is not None and not outer_q[0] and not outer_q[1]:
                    ctx.ok(key, f"outer rendering delimits its operands ({via_q})", nontrivial=False)
                    continue
                if inner_p[0] != "op" or outer_q is None:
                    undecided += 1
                    continue
                known_inner = [t for t in inner_p[1] if t in lv]
                # a token standing BEFORE an ungrouped operand captures it unless the operand binds strictly
                # tighter; a token standing AFTER it (same level associates left to right) unless it binds
                # at least as tight
                kb = [t for t in outer_q[0] if t in lv]
                ka = [t for t in outer_q[1] if t in lv]
                known_outer = sorted(set(kb + ka))
                if not known_outer or not known_inner or inner_p[1][0] not in lv:
                    undecided += 1
                    continue
                tp = max(known_inner, key=lambda t: lv[t])  # loosest inner token
                bad = [t for t in kb if not lv[tp] < lv[t]] + [t for t in ka if not lv[tp] <= lv[t]]
                worst = min(bad or known_outer, key=lambda t: lv[t])  # tightest (offending) outer token
                good = not bad
                if dname not in PROPERTY_DIALECTS:
                    # backends outside the property's quantifier: reported for information only
                    if not good:
                        outside += 1
                        ctx.note(f"{key}: `{tp}` (level {lv[tp]}) ungrouped next to `{worst}` (level {lv[worst]}) -- backend not in C01's quantifier")
                    continue
                ctx.check(
                    good, key,
                    f"{dname}: inner `{tp}` ({p}, precedence {P[p]}) is left ungrouped next to outer `{worst}` ({q}, "
                    f"precedence {P[q]}) but binds at level {lv[tp]} vs {lv[worst]} in the backend grammar "
                    f"(lower = tighter): the backend re-associates the rendered SQL",
                    f"`{tp}` level {lv[tp]} tighter than {known_outer}",
                    f"{m.path}:{m.assign_stmts['_PRECEDENCE'][0].lineno}",
                )
    ctx.note(f"{undecided} ungrouped pairs not decided (token absent from the backend oracle or rendering not infix); "
             f"{outside} re-associating pairs on backends outside the property's quantifier (mssql, oracle)")


@R.rule("C01-R2", floor=25, template="T-TABLE",
        desc="every declared negation is the logical complement (oracle) and negation is an involution")
def r2(ctx):
    comp = load("negation_complements.json")["complement"]
    m = ctx.index.module(DC)
    lookup = ctx.ev.module_value(m, "operator_lookup")
    ctx.require(isinstance(lookup, dict) and len(lookup) >= 50, "operator_lookup is not a dict literal of >= 50 rows")
    declared: Dict[str, str] = {}
    stmt = m.assign_stmts["operator_lookup"][0]
    loc = f"{m.path}:{stmt.lineno}"

    def eval_negate(expr, opname, rowkw):
        """Evaluate the `negate=`/`negate_op=` argument expression of an impl for op=opname."""
        if isinstance(expr, ast.IfExp):
            t = expr.test
            if isinstance(t, ast.Compare) and len(t.ops) == 1 and isinstance(t.ops[0], (ast.Is, ast.Eq)) and isinstance(t.left, ast.Name):
                other = dotted(t.comparators[0]) or ""
                return eval_negate(expr.body if other.rsplit(".", 1)[-1] == opname else expr.orelse, opname, rowkw)
            return None
        d = dotted(expr)
        if d is None:
            return None
        if d.startswith("operators."):
            return d.split(".", 1)[1]
        if d in ("negate_op", "negate") and rowkw is not None:
            return rowkw
        return None

    for name, row in lookup.items():
        if not (isinstance(row, tuple) and len(row) == 2 and isinstance(row[0], Sym)):
            ctx.error(f"operator_lookup[{name!r}] is not (impl, kwargs): {row!r}")
        impl, kw = row
        rowneg = None
        if isinstance(kw, dict) and "negate_op" in kw:
            ctx.require(isinstance(kw["negate_op"], Sym), f"operator_lookup[{name!r}] negate_op not an operator")
            rowneg = kw["negate_op"].short
        neg = rowneg
        if neg is None:
            # negation chosen inside the impl function
            fi = m.functions.get(impl.short)
            if fi is not None:
                ctx.functions_analysed.add(fi.key)
                for c in calls_in(fi.node):
                    for k in c.keywords:
                        if k.arg in ("negate", "negate_op"):
                            v = eval_negate(k.value, name, None)
                            if v is not None:
                                neg = v
        if neg is None:
            continue
        if name in R2_EXCEPTIONS:
            ctx.note(f"operator_lookup[{name}] exempt: {R2_EXCEPTIONS[name]}")
            continue
        declared[name] = neg
        key = f"{DC}::operator_lookup[{name}]"
        if name not in comp:
            ctx.error(f"operator {name} declares negation {neg} but has no entry in oracle negation_complements.json")
        ctx.check(neg == comp[name], key,
                  f"negation of `{name}` is declared as `{neg}`, its logical complement is `{comp[name]}` "
                  f"(NOT (a {name} b) would render as a {neg} b)",
                  f"{name} -> {neg}", loc)
    # literal (op, negate) pairs in constructor calls anywhere in default_comparator
    for fi in m.functions.values():
        for c in calls_in(fi.node):
            nm = (call_name(c) or "").rsplit(".", 1)[-1]
            if nm not in ("_construct_for_op", "BinaryExpression"):
                continue
            kwneg = [k.value for k in c.keywords if k.arg == "negate"]
            if not kwneg or len(c.args) < 3:
                continue
            opd, ngd = dotted(c.args[2]) or "", dotted(kwneg[0]) or ""
            if opd.startswith("operators.") and ngd.startswith("operators."):
                o, n = opd.split(".", 1)[1], ngd.split(".", 1)[1]
                key = f"{fi.key}:{o}"
                ctx.require(o in comp, f"operator {o} missing from negation oracle")
                ctx.check(n == comp[o], key, f"`{o}` constructed with negate=`{n}`, complement is `{comp[o]}`",
                          f"{o} -> {n}", f"{m.path}:{c.lineno}")
    # involution over the declared table
    for o, n in sorted(declared.items()):
        if n in declared:
            ctx.check(declared[n] == o, f"{DC}::involution[{o}]",
                      f"negate(negate({o})) = {declared[n]} != {o}", f"{o} <-> {n}", loc)
    # BinaryExpression._negate swaps operator and negate
    f = ctx.func(f"{EL}::BinaryExpression._negate")
    good = False
    for c in calls_in(f.node):
        if (call_name(c) or "") == "BinaryExpression" and len(c.args) >= 3:
            kw = {k.arg: unparse(k.value) for k in c.keywords}
            good = unparse(c.args[2]) == "self.negate" and kw.get("negate") == "self.operator" and unparse(c.args[0]) == "self.left"
    ctx.check(good, f.key, "BinaryExpression._negate does not build (left, right', self.negate, negate=self.operator)",
              "operator/negate swapped", f.loc)


ASSOCIATIVE_IN_SQL = {"and_", "or_", "add", "mul", "concat_op"}
SELF_DELIMITING = {"getitem", "json_getitem_op", "json_path_getitem_op"}


@R.rule("C01-R3", floor=8, template="T-TABLE",
        desc="_associative contains only operators that are associative in SQL; non-associative members of "
             "_natural_self_precedent are bracket/arrow rendered")
def r3(ctx):
    m, P, assoc, nsp = _tables(ctx)
    loc = f"{m.path}:{m.assign_stmts['_associative'][0].lineno}"
    for o in sorted(assoc):
        ctx.check(o in ASSOCIATIVE_IN_SQL, f"{OPS}::_associative[{o}]",
                  f"`{o}` is flattened as associative ((a {o} b) {o} c rendered like a {o} (b {o} c)) but is not "
                  f"associative in SQL", "associative in SQL", loc)
    for o in sorted(nsp - assoc):
        ctx.check(o in SELF_DELIMITING, f"{OPS}::_natural_self_precedent[{o}]",
                  f"`{o}` is exempt from self-grouping but is neither associative nor self-delimiting",
                  "bracket/arrow rendered", loc)
    for o in ("sub", "truediv", "floordiv", "mod", "pow_"):
        ctx.check(o not in assoc and o not in nsp, f"{OPS}::non-associative[{o}]",
                  f"non-associative operator `{o}` is in _associative/_natural_self_precedent", "absent", loc)
    # is_associative / is_natural_self_precedent consult exactly these tables
    for fn, tbl in (("is_associative", "_associative"), ("is_natural_self_precedent", "_natural_self_precedent")):
        f = ctx.func(f"{OPS}::{fn}")
        names = {n.id for n in ast.walk(f.node) if isinstance(n, ast.Name)}
        ctx.check(tbl in names, f.key, f"{fn} does not consult {tbl}", f"reads {tbl}", f.loc)


def _self_group_against(call: ast.Call) -> Optional[str]:
    if not (isinstance(call.func, ast.Attribute) and call.func.attr == "self_group"):
        return None
    for k in call.keywords:
        if k.arg == "against":
            return unparse(k.value)
    if call.args:
        return unparse(call.args[0])
    return "<none>"


ALL_COMPILERS = dict(DIALECTS, standard=f"{CMP}::SQLCompiler", generic_str=f"{CMP}::StrSQLCompiler")

# operator-bearing expression classes: their rendering has the operator token at its top level
OPERATOR_BASES = (f"{EL}::OperatorExpression", f"{EL}::UnaryExpression", f"{EL}::ClauseList")

# `return self` paths of a self_group() that are reachable although is_precedent(self.operator, against)
# holds, and that are right for a reason the rule cannot read from the rendering templates.
# {function key: (guard atom that must dominate the return, reason)}
SELF_RETURN_EXCEPTIONS = {
    f"{EL}::BooleanClauseList.self_group":
        (("self.clauses", False), "an AND/OR list without members renders as the empty string"),
    "dialects/postgresql/array.py::array.self_group":
        (None, "ARRAY[...] literal: delimited by its brackets (an empty literal carries the tightest-binding "
               "`::type` suffix)"),
}


def _tri_and(vals):
    if any(v is False for v in vals):
        return False
    return True if all(v is True for v in vals) else None


def _eval_under_precedent(e: ast.expr, ctx=None, cls=None, fnode=None, against: str = "against", depth: int = 0):
    """Three-valued truth of a guard under the hypothesis H: the instance has an operator, takes part in
    grouping (`self.group`), and is_precedent(self.operator, against) is true.  None = not determined.
    Follows a local bound once and a helper method of the class that receives `against`."""
    rec = lambda x: _eval_under_precedent(x, ctx, cls, fnode, against, depth)  # noqa: E731
    if isinstance(e, ast.UnaryOp) and isinstance(e.op, ast.Not):
        v = rec(e.operand)
        return None if v is None else not v
    if isinstance(e, ast.BoolOp):
        vals = [rec(v) for v in e.values]
        if isinstance(e.op, ast.And):
            return _tri_and(vals)
        neg = _tri_and([None if v is None else not v for v in vals])
        return None if neg is None else not neg
    if isinstance(e, ast.Call) and (call_name(e) or "").rsplit(".", 1)[-1] == "is_precedent":
        if [unparse(a) for a in e.args] == ["self.operator", against] and not e.keywords:
            return True
        return None
    if unparse(e) in ("self.group", "self.operator"):
        return True
    if isinstance(e, ast.Name) and fnode is not None and depth < 3:
        binds = [v for n, v, st in name_stores(fnode) if n == e.id and v is not None]
        if len(binds) == 1:
            return _eval_under_precedent(binds[0], ctx, cls, fnode, against, depth + 1)
        return None
    if (isinstance(e, ast.Call) and isinstance(e.func, ast.Attribute) and unparse(e.func.value) == "self"
            and ctx is not None and cls is not None and depth < 3):
        tgt = ctx.index.resolve_method(cls, e.func.attr)
        if tgt is None:
            return None
        params = [p for p in tgt.params if p != "self"]
        inner_against = None
        for i, a in enumerate(e.args):
            if unparse(a) == against and i < len(params):
                inner_against = params[i]
        for k in e.keywords:
            if k.arg and unparse(k.value) == against:
                inner_against = k.arg
        if inner_against is None:
            return None
        rets = [r for r in returns_of(tgt.node) if r.value is not None]
        vals = {_eval_under_precedent(r.value, ctx, cls, tgt.node, inner_against, depth + 1) for r in rets}
        if len(rets) == 1 and len(vals) == 1:
            ctx.functions_analysed.add(tgt.key)
            return vals.pop()
        return None
    return None


def _guarded_operators(guards) -> Optional[List[str]]:
    """Operators X for which a dominating guard demands `self.operator is operators.X` (or `in (...)`)."""
    from ..astutil import test_atoms
    for t, pol in guards:
        for sub_t in ([t] if not (isinstance(t, ast.BoolOp) and isinstance(t.op, ast.And) and pol) else t.values):
            if isinstance(sub_t, ast.Compare) and len(sub_t.ops) == 1 and unparse(sub_t.left) == "self.operator":
                op, rhs = sub_t.ops[0], sub_t.comparators[0]
                if isinstance(op, (ast.Is, ast.Eq)) and pol:
                    d = dotted(rhs) or ""
                    return [d.rsplit(".", 1)[-1]]
                if isinstance(op, ast.In) and pol and isinstance(rhs, (ast.Tuple, ast.List, ast.Set)):
                    return [(dotted(x) or "?").rsplit(".", 1)[-1] for x in rhs.elts]
    return None


def _op_visit(ctx, cls, op: str):
    for mname in (f"visit_{op}_binary", f"visit_{op}_unary_operator", f"visit_{op}_unary_modifier"):
        f = ctx.index.resolve_method(cls, mname)
        if f is not None:
            return f
    return None


def _bare_renderings(ctx, op: str) -> Tuple[List[str], int]:
    """Compilers in which operator `op` is rendered with an operator token at the top level (not delimited
    by a function call / parentheses of its own); second value = number of compilers decided."""
    gen = _generic_operators(ctx)
    bare, decided = [], 0
    for name, ckey in sorted(ALL_COMPILERS.items(), key=lambda kv: (kv[0] != 'standard', kv[0])):
        cls = ctx.index.cls(ckey)
        f = _op_visit(ctx, cls, op)
        if f is None:
            if isinstance(gen.get(op), str):
                decided += 1
                bare.append(f"{name}: generic `{gen[op].strip()}` token")
            continue
        ctx.functions_analysed.add(f.key)
        if _sets_eager_grouping(f):
            decided += 1
            continue
        bp = f.params[1] if len(f.params) > 1 else "binary"
        ts = _template(ctx, f, bp)
        for t in ts:
            inner, _ = _analyse_template(t)
            if inner[0] in ("op", "transparent"):
                shown = t.replace(L, "<left>").replace(Rt, "<right>").replace(Q, "<..>")
                bare.append(f"{name}: {f.qualname} can return `{shown.strip()}`")
                break
        if ts:
            decided += 1
    return bare, decided


def _own_visit_delimited(ctx, cls) -> Optional[bool]:
    """True if the class names its own visit method (`__visit_name__` in its own body) and that method's
    rendering is delimited in every compiler that has it; None if the class has no visit name of its own."""
    vn = None
    for node in cls.assigns.get("__visit_name__", []):
        if isinstance(node, ast.Constant) and isinstance(node.value, str):
            vn = node.value
    if vn is None:
        return None
    seen = False
    for name, ckey in sorted(ALL_COMPILERS.items(), key=lambda kv: (kv[0] != 'standard', kv[0])):
        f = ctx.index.resolve_method(ctx.index.cls(ckey), f"visit_{vn}")
        if f is None:
            continue
        ctx.functions_analysed.add(f.key)
        ts = _template(ctx, f, f.params[1] if len(f.params) > 1 else "element")
        if not ts:
            continue
        seen = True
        if any(_analyse_template(t)[0][0] != "self" for t in ts):
            return False
    return seen


def _right_operand_exposure(ctx, op: str) -> Tuple[List[str], int]:
    """Where the rendering of binary operator `op` leaves its RIGHT operand next to an operator token."""
    gen = _generic_operators(ctx)
    exposed, decided = [], 0
    for name, ckey in sorted(ALL_COMPILERS.items(), key=lambda kv: (kv[0] != 'standard', kv[0])):
        cls = ctx.index.cls(ckey)
        f = ctx.index.resolve_method(cls, f"visit_{op}_binary")
        if f is None:
            if isinstance(gen.get(op), str):
                decided += 1
                exposed.append(f"{name}: generic `{gen[op].strip()}` token")
            continue
        ctx.functions_analysed.add(f.key)
        if _sets_eager_grouping(f):
            continue
        for t in _template(ctx, f, f.params[1] if len(f.params) > 1 else "binary"):
            if Rt not in t:
                continue
            o = _outer_tokens(t, only=Rt)
            decided += 1
            if o is None or o[0] or o[1]:
                shown = t.replace(L, "<left>").replace(Rt, "<right>").replace(Q, "<..>")
                exposed.append(f"{name}: {f.qualname} renders `{shown.strip()}`")
                break
    return exposed, decided


@R.rule("C01-R4", floor=16, template="T-FLOW",
        desc="operator-expression constructors apply self_group(against=<their operator>) to every operand "
             "(ungrouped lists only where the rendering delimits them); every self_group() of an operator-bearing "
             "class returns self only where is_precedent() is false or the rendering is delimited, and "
             "delegating self_group()s forward `against`")
def r4(ctx):
    # BinaryExpression.__init__: left and right
    f = ctx.func(f"{EL}::BinaryExpression.__init__")
    opparam = "operator"
    ctx.require(opparam in f.params, "BinaryExpression.__init__ has no `operator` parameter")
    for side in ("left", "right"):
        good = False
        for st in walk_stmts(f.node.body):
            if isinstance(st, ast.Assign) and any(unparse(t) == f"self.{side}" for t in st.targets):
                v = st.value
                good = (
                    isinstance(v, ast.Call) and _self_group_against(v) == opparam
                    and unparse(v.func.value) == side
                )
        ctx.check(good, f"{f.key}:{side}", f"self.{side} is not stored as {side}.self_group(against=operator)",
                  "self_group(against=operator)", f.loc)
    # UnaryExpression.__init__
    f = ctx.func(f"{EL}::UnaryExpression.__init__")
    good = False
    for st in walk_stmts(f.node.body):
        if isinstance(st, ast.Assign) and any(unparse(t) == "self.element" for t in st.targets):
            v = st.value
            if isinstance(v, ast.Call):
                ag = _self_group_against(v) or ""
                good = unparse(v.func.value) == "element" and "operator" in ag
    ctx.check(good, f"{f.key}:element", "self.element is not element.self_group(against=<operator or modifier>)",
              "self_group(against=self.operator or self.modifier)", f.loc)
    # ExpressionClauseList._construct_for_list
    f = ctx.func(f"{EL}::ExpressionClauseList._construct_for_list")
    stores = [st for st in walk_stmts(f.node.body) if isinstance(st, ast.Assign) and any(unparse(t) == "self.clauses" for t in st.targets)]
    ctx.require(stores, "_construct_for_list no longer assigns self.clauses")
    pm = f.module.parents()
    from ..astutil import lexical_guards, guard_atoms
    grouped_ok, ungrouped_guarded = False, True
    for st in stores:
        calls = [c for c in calls_in(st.value) if _self_group_against(c) is not None]
        atoms = guard_atoms(lexical_guards(pm, st, stop=f.node))
        if calls:
            grouped_ok = all(_self_group_against(c) == "operator" for c in calls) and isinstance(
                st.value, (ast.Call, ast.GeneratorExp, ast.ListComp, ast.Tuple))
        else:
            if ("group", False) not in atoms:
                ungrouped_guarded = False
    ctx.check(grouped_ok and ungrouped_guarded, f"{f.key}:clauses",
              "clauses are stored without self_group(against=operator) outside the explicit group=False arm",
              "each clause self_group(against=operator) unless group=False", f.loc)
    # who passes group=False: the members of such a list are stored bare, so either the enclosing operator's
    # rendering must delimit the list (function-call parentheses and a comma separator) in every compiler,
    # or the caller must itself apply self_group(against=<enclosing operator>) to each member
    dcm = ctx.index.module(DC)
    lookup = ctx.ev.module_value(dcm, "operator_lookup")
    ctx.require(isinstance(lookup, dict), "operator_lookup is not a dict literal")
    impl_ops: Dict[str, List[str]] = {}
    for name, row in lookup.items():
        if isinstance(row, tuple) and row and isinstance(row[0], Sym):
            impl_ops.setdefault(row[0].short, []).append(name)
    gen_ops = _generic_operators(ctx)
    for mod in ctx.index.all_modules():
        if "_construct_for_list" not in mod.source:
            continue
        pmm = mod.parents()
        for fi in ctx.index.all_functions(mod):
            for c in calls_in(fi.node, into_nested=True):
                if not (call_name(c) or "").endswith("_construct_for_list"):
                    continue
                kw = {k.arg: unparse(k.value) for k in c.keywords}
                if kw.get("group") != "False":
                    continue
                key = f"{fi.key}:group=False"
                loc = f"{mod.path}:{c.lineno}"
                ctx.require(len(c.args) >= 3, f"{fi.key}: ungrouped _construct_for_list call without members")
                sep_op = (dotted(c.args[0]) or unparse(c.args[0])).rsplit(".", 1)[-1]
                members = c.args[2:]
                parent = pmm.get(c)
                exposed, decided = [], 0
                if (isinstance(parent, ast.Call) and (call_name(parent) or "").endswith("BinaryExpression")
                        and len(parent.args) >= 3 and parent.args[1] is c):
                    encl = unparse(parent.args[2])
                    ops = impl_ops.get(fi.name, []) if encl in fi.params else [encl.rsplit(".", 1)[-1]]
                    ctx.require(ops, f"{fi.key}: cannot tell which operators reach it (not an operator_lookup impl)")
                    for o in ops:
                        e, d = _right_operand_exposure(ctx, o)
                        exposed += [f"{o}: {x}" for x in e]
                        decided += d
                    ctx.require(decided > 0, f"{fi.key}: no compiler rendering of {ops} could be read")
                    where = f"as the right operand of {ops}"
                else:
                    # the list is an expression of its own: its members stand next to its own separator
                    encl, ops = unparse(c.args[0]), [sep_op]
                    where = "as an expression of its own"
                sep = gen_ops.get(sep_op)
                sep_is_delimiter = isinstance(sep, str) and sep.strip() == ","
                explicitly_grouped = all(
                    isinstance(mb, ast.Call) and _self_group_against(mb) == encl for mb in members)  # (*args: no)
                if explicitly_grouped:
                    ctx.ok(key, f"each member is passed through self_group(against={encl}) by the caller")
                elif not exposed and sep_is_delimiter:
                    ctx.ok(key, f"{ops}: the list is rendered inside the parentheses of a function call, comma "
                                f"separated ({decided} renderings read)")
                else:
                    why = exposed[0] if exposed else f"the list separator `{sep}` is not a delimiter"
                    ctx.violation(
                        key,
                        f"builds an UNGROUPED `{sep_op}` list {where} whose members are never "
                        f"passed through self_group(): {why}, so a member that is itself an operator expression "
                        f"(`x BETWEEN a AND b = c`) is re-associated by the backend; the members need "
                        f"self_group(against={encl})", loc)
    # BooleanClauseList._process_clauses_for_boolean
    f = ctx.func(f"{EL}::BooleanClauseList._process_clauses_for_boolean")
    rets = returns_of(f.node)
    good = False
    for r in rets:
        for c in calls_in(r.value):
            ag = _self_group_against(c)
            if ag and ag != "<none>":
                binds = [unparse(v) for n, v, st in name_stores(f.node) if n == ag and v is not None]
                good = "operator" in binds
    ctx.check(good, f"{f.key}:clauses", "boolean clause lists do not self_group(against=operator) their members",
              "self_group(against=operator) when more than one clause", f.loc)
    # self_group() of every operator-bearing expression class (T-SIBLING over the family): under the
    # hypothesis that is_precedent(self.operator, against) holds, a path that returns `self` must be unreachable,
    # or restricted to operators whose rendering is delimited in every compiler, or the class's own visit
    # method is delimited, or listed in SELF_RETURN_EXCEPTIONS; any self_group() that hands over to another
    # self_group() must forward `against`
    from ..astutil import guard_atoms as _ga
    bases = [ctx.index.cls(k) for k in OPERATOR_BASES]
    fam = []
    for cls in ctx.index.all_classes():
        if "/testing/" in cls.module.relpath or cls.module.relpath.startswith("testing/"):
            continue
        f = cls.methods.get("self_group")
        if f is None or f.type_only or f.is_overload:
            continue
        fam.append((cls, f, any(cls is b or ctx.index.is_subclass(cls, b) for b in bases)))
    ctx.require(sum(1 for x in fam if x[2]) >= 5, "fewer than 5 operator-bearing classes define self_group()")
    for cls, f, bearing in fam:
        ctx.functions_analysed.add(f.key)
        agp = "against" if "against" in f.params else None
        # forwarding
        for c in calls_in(f.node):
            if isinstance(c.func, ast.Attribute) and c.func.attr == "self_group" and agp:
                ctx.check(_self_group_against(c) == agp, f"{f.key}:forwards-against",
                          f"delegates to `{unparse(c.func)}` without forwarding `against`: the inner expression is "
                          f"grouped for no operator at all", "against forwarded", f.loc)
            elif agp and any(isinstance(a, ast.Attribute) and a.attr == "self_group" for a in c.args):
                ctx.check(any(k.arg == "against" and unparse(k.value) == agp for k in c.keywords) or
                          any(unparse(a) == agp for a in c.args),
                          f"{f.key}:forwards-against",
                          "passes an inner self_group on without forwarding `against`", "against forwarded", f.loc)
        if not bearing:
            continue
        ctx.require(agp is not None, f"{f.key}: no `against` parameter")
        g = ctx.cfg(f)
        problems, details = [], []
        rets = returns_of(f.node)
        ctx.require(rets, f"{f.key}: no return statement")
        for r in rets:
            v = r.value
            txt = unparse(v) if v is not None else "None"
            if isinstance(v, ast.Call):
                nm = (call_name(v) or "")
                if nm.rsplit(".", 1)[-1] == "Grouping":
                    continue
                if isinstance(v.func, ast.Attribute) and v.func.attr == "self_group":
                    continue  # judged by the forwarding check; the target is a member of the family
            ctx.require(txt == "self", f"{f.key}: returns `{txt}`, neither self, Grouping(self) nor a delegation")
            for nid in g.nodes_for(r):
                guards = g.edge_guards(nid)
                if any((lambda val: val is not None and val != pol)(_eval_under_precedent(t, ctx, cls, f.node, agp)) for t, pol in guards):
                    details.append("returns self only where is_precedent(self.operator, against) is false")
                    continue
                atoms = _ga(guards)
                xs = _guarded_operators(guards)
                if xs:
                    bad = []
                    for x in xs:
                        bare, decided = _bare_renderings(ctx, x)
                        ctx.require(decided > 0, f"{f.key}: no rendering of operator {x} could be read")
                        if bare:
                            bad.append(f"{x} ({bare[0]})")
                    if bad:
                        problems.append(
                            f"returns self without consulting precedence when self.operator is {xs}, but that "
                            f"operator is not rendered delimited everywhere: {'; '.join(bad)}")
                    else:
                        details.append(f"returns self for {xs}: rendered delimited in every compiler")
                    continue
                exc = SELF_RETURN_EXCEPTIONS.get(f.key)
                if exc is not None and (exc[0] is None or exc[0] in atoms):
                    details.append(f"exception: {exc[1]}")
                    continue
                own = _own_visit_delimited(ctx, cls)
                if own:
                    details.append("its own visit method renders it delimited in every compiler")
                    continue
                cond = " and ".join(f"{'' if p else 'not '}({a})" for a, p in atoms) or "unconditionally"
                problems.append(
                    f"returns self {cond} even when is_precedent(self.operator, against) holds, and the class is "
                    f"rendered through the generic operator path (operator token at the top level): it is left "
                    f"unparenthesised inside a tighter or equally binding operator")
        ctx.check(not problems, f.key, f"{cls.name}.self_group: " + " | ".join(problems),
                  "; ".join(sorted(set(details))) or "always groups or delegates", f.loc)


@R.rule("C01-R5", floor=35, template="T-SIBLING",
        desc="the generic OPERATORS table maps each operator to the token its name stands for")
def r5(ctx):
    cls_tokens = load("negation_complements.json")["operator_token_class"]
    cm = ctx.index.module(CMP)
    generic = require_known(ctx.ev.module_value(cm, "OPERATORS"), "OPERATORS")
    loc = f"{cm.path}:{cm.assign_stmts['OPERATORS'][0].lineno}"
    for k, v in generic.items():
        op = _short(k)
        key = f"{CMP}::OPERATORS[{op}]"
        if op not in cls_tokens:
            ctx.error(f"OPERATORS row for `{op}` has no expected token in the oracle (add it to operator_token_class)")
        want = cls_tokens[op]
        want = want if isinstance(want, list) else [want]
        got = " ".join(str(v).strip().upper().split())
        ctx.check(got in want, key, f"operator `{op}` renders as `{got}`, expected one of {want}", got, loc)


# ---------------------------------------------------------------------- self-test battery
R.mutant("precedence-concat-above-add", OPS, sub("    concat_op: 5,\n", "    concat_op: 9,\n"), "C01-R1")
R.mutant("precedence-and-below-or", OPS, sub("    and_: 3,\n", "    and_: 1,\n"), "C01-R1")
R.mutant("precedence-mul-equals-add-low", OPS, sub("    add: 7,\n    sub: 7,\n", "    add: 9,\n    sub: 9,\n"), "C01-R1")
R.mutant("is_precedent-strict", OPS, sub("            <= _PRECEDENCE.get(\n                against", "            < _PRECEDENCE.get(\n                against"), "C01-R1")
R.mutant("negate-lt-gt", DC, sub('util.immutabledict({"negate_op": operators.ge}),', 'util.immutabledict({"negate_op": operators.gt}),'), "C01-R2")
R.mutant("negate-in-in", DC, sub('util.immutabledict({"negate_op": operators.not_in_op}),', 'util.immutabledict({"negate_op": operators.in_op}),'), "C01-R2")
R.mutant("between-negate-swapped", DC, sub("            operators.not_between_op\n            if op is operators.between_op\n            else operators.between_op",
                                           "            operators.between_op\n            if op is operators.between_op\n            else operators.not_between_op"), "C01-R2")
R.mutant("binary-negate-not-swapped", EL, sub("                self.negate,\n                negate=self.operator,", "                self.negate,\n                negate=self.negate,"), "C01-R2")
R.mutant("sub-associative", OPS, sub("_associative = _commutative.union([concat_op, and_, or_]).difference([eq, ne])",
                                     "_associative = _commutative.union([concat_op, and_, or_, sub]).difference([eq, ne])"), "C01-R3")
R.mutant("truediv-self-precedent", OPS, sub("    [getitem, json_getitem_op, json_path_getitem_op]\n", "    [getitem, json_getitem_op, json_path_getitem_op, truediv]\n"), "C01-R3")
R.mutant("binary-init-no-group-right", EL, sub("        self.right = right.self_group(against=operator)\n", "        self.right = right\n"), "C01-R4")
R.mutant("clauselist-no-group", EL, sub("            self.clauses = tuple(\n                c.self_group(against=operator) for c in clauses\n            )",
                                        "            self.clauses = tuple(clauses)"), "C01-R4")
R.mutant("self-group-inverted", EL, sub("        if self.operator and operators.is_precedent(self.operator, against):\n            return Grouping(self)\n        else:\n            return self",
                                        "        if self.operator and not operators.is_precedent(self.operator, against):\n            return Grouping(self)\n        else:\n            return self"), "C01-R4")
R.mutant("operators-le-lt", CMP, sub('    operators.le: " <= ",', '    operators.le: " < ",'), "C01-R5")
R.mutant("operators-isnot-is", CMP, sub('    operators.is_not: " IS NOT ",', '    operators.is_not: " IS ",'), "C01-R5")
R.mutant("benign-precedence-new-row", OPS, sub("    _asbool: -10,\n}", "    _asbool: -10,\n    matmul: 8,\n}"), None)
R.mutant("benign-rename-is_precedent-local", OPS, sub("def is_precedent(\n    operator: OperatorType, against: Optional[OperatorType]\n) -> bool:\n    if operator is against",
                                                     "def is_precedent(\n    operator: OperatorType, against: Optional[OperatorType]\n) -> bool:\n    _dbg = None\n    if operator is against"), None)
R.mutant("benign-binary-init-reorder", EL, sub("        self.left = left.self_group(against=operator)\n        self.right = right.self_group(against=operator)\n",
                                               "        self.right = right.self_group(against=operator)\n        self.left = left.self_group(against=operator)\n"), None)

# ---- strengthening round (seeds C01/1, C01/2 and the seed agents' observations)
# seed C01/1: the LIKE family moved above the comparison tier (R1 now reads `x LIKE y [ESCAPE e]` templates)
R.mutant("seed1-like-above-comparisons", OPS, sub("    ilike_op: 5,\n    not_ilike_op: 5,\n    like_op: 5,\n    not_like_op: 5,\n",
                                                  "    ilike_op: 6,\n    not_ilike_op: 6,\n    like_op: 6,\n    not_like_op: 6,\n"), "C01-R1")
R.mutant("between-above-comparisons", OPS, sub("    between_op: 5,\n    not_between_op: 5,\n", "    between_op: 6,\n    not_between_op: 6,\n"), "C01-R1")
R.mutant("mod-below-add", OPS, sub("    mod: 8,\n", "    mod: 7,\n"), "C01-R1")
R.mutant("benign-precedence-rows-reordered", OPS, sub("    like_op: 5,\n    not_like_op: 5,\n    in_op: 5,\n    not_in_op: 5,\n",
                                                      "    in_op: 5,\n    not_in_op: 5,\n    like_op: 5,\n    not_like_op: 5,\n"), None)
R.mutant("benign-like-escape-suffix-local", CMP, sub(
    """        return "%s LIKE %s" % (
            binary.left._compiler_dispatch(self, **kw),
            binary.right._compiler_dispatch(self, **kw),
        ) + (
            " ESCAPE " + self.render_literal_value(escape, sqltypes.STRINGTYPE)
            if escape is not None
            else ""
        )
""", """        suffix = (
            " ESCAPE " + self.render_literal_value(escape, sqltypes.STRINGTYPE)
            if escape is not None
            else ""
        )
        lhs = binary.left._compiler_dispatch(self, **kw)
        return "%s LIKE %s" % (
            lhs,
            binary.right._compiler_dispatch(self, **kw),
        ) + suffix
"""), None)
# seed C01/2: a self_group() override that bypasses precedence for an operator that is not always delimited
_BIN_NEGATE = "    def _negate(self):\n        if self.negate is not None:\n            return BinaryExpression(\n"
R.mutant("seed2-binary-self-group-floordiv", EL, sub(_BIN_NEGATE, """    def self_group(self, against=None):
        if against is not None and self.operator is operators.floordiv:
            return self
        return super().self_group(against=against)

""" + _BIN_NEGATE), "C01-R4")
R.mutant("binary-self-group-helper-bypass", EL, sub(_BIN_NEGATE, """    def _renders_delimited(self):
        return self.operator in (operators.floordiv, operators.truediv)

    def self_group(self, against=None):
        if self._renders_delimited():
            return self
        return super().self_group(against=against)

""" + _BIN_NEGATE), "C01-R4")
R.mutant("booleanclauselist-empty-test-flipped", EL, sub("        if not self.clauses:\n            return self\n        else:\n            return super().self_group(against=against)",
                                                         "        if self.clauses:\n            return self\n        else:\n            return super().self_group(against=against)"), "C01-R4")
R.mutant("typecoerce-drops-against", EL, sub("        grouped = self.clause.self_group(against=against)\n", "        grouped = self.clause.self_group()\n"), "C01-R4")
R.mutant("label-drops-against", EL, sub("        return self._apply_to_inner(self._element.self_group, against=against)\n",
                                        "        return self._apply_to_inner(self._element.self_group)\n"), "C01-R4")
R.mutant("flattened-list-ungrouped", EL, sub("                    *(left_flattened + right_flattened),\n                )",
                                             "                    *(left_flattened + right_flattened),\n                    group=False,\n                )"), "C01-R4")
R.mutant("benign-binary-self-group-delegates", EL, sub(_BIN_NEGATE, """    def self_group(self, against=None):
        return super().self_group(against=against)

""" + _BIN_NEGATE), None)
R.mutant("benign-binary-self-group-delimited-operator", EL, sub(_BIN_NEGATE, """    def self_group(self, against=None):
        if self.operator is operators.not_in_op:
            return self
        return super().self_group(against=against)

""" + _BIN_NEGATE), None)
R.mutant("benign-unary-self-group-early-return", EL, sub(
    "        if self.operator and operators.is_precedent(self.operator, against):\n            return Grouping(self)\n        else:\n            return self",
    "        if not (self.operator and operators.is_precedent(self.operator, against)):\n            return self\n        return Grouping(self)"), None)
R.mutant("benign-clauselist-self-group-helper", EL, sub(
    "        if self.group and operators.is_precedent(self.operator, against):\n            return Grouping(self)\n        else:\n            return self\n\n\nclass OperatorExpression",
    "        needs = self._needs_parens(against)\n        if needs:\n            return Grouping(self)\n        else:\n            return self\n\n"
    "    def _needs_parens(self, op):\n        return self.group and operators.is_precedent(self.operator, op)\n\n\nclass OperatorExpression"), None)
# the repairs of the two findings of this round must be silent
R.mutant("benign-fix-between-members-grouped", DC, sub(
    "                cleft,\n                expr=expr,\n                operator=operators.and_,\n            ),\n"
    "            coercions.expect(\n                roles.BinaryElementRole,\n                cright,\n                expr=expr,\n                operator=operators.and_,\n            ),\n",
    "                cleft,\n                expr=expr,\n                operator=operators.and_,\n            ).self_group(against=op),\n"
    "            coercions.expect(\n                roles.BinaryElementRole,\n                cright,\n                expr=expr,\n                operator=operators.and_,\n            ).self_group(against=op),\n"), None)
R.mutant("benign-fix-asboolean-consults-precedence", EL, sub(
    "    def self_group(self, against: Optional[OperatorType] = None) -> Self:\n        return self\n\n    def _negate(self):\n        if isinstance(self.element, (True_, False_)):",
    "    def self_group(self, against=None):\n        if against is not None and operators.is_precedent(self.operator, against):\n            return Grouping(self)\n        return self\n\n    def _negate(self):\n        if isinstance(self.element, (True_, False_)):"), None)
