"""C01 -- Rendered SQL preserves the meaning of the expression tree (grouping / negation tables)."""

from __future__ import annotations

import ast
import re
from typing import Dict, List, Optional, Tuple

from ..astutil import call_name, calls_in, dotted, unparse, walk_local, walk_stmts, returns_of, name_stores
from ..errors import AnalysisError
from ..evalx import Sym, Unknown, has_unknown, require_known
from ..oracles import load
from ..report import Registry, sub, chain
from ._helpers_rob_c1 import (
    MiniInterp, Unsupported, bind_call_args, feasible_reachable, inline_locals, returned_values,
)

R = Registry(
    "C01",
    title="Rendered SQL preserves the meaning of the expression tree",
    decides=(
        "(a) the grouping decision is_precedent()/_PRECEDENCE/_associative/_natural_self_precedent never omits "
        "parentheses where the standard-SQL order or a backend's operator grammar (SQLite, PostgreSQL, MySQL, "
        "SQL Server, Oracle) would re-associate the rendered infix tokens; (b) every declared negation of a "
        "comparison operator is its logical complement and negation is an involution; (c) only associative "
        "operators are flattened; (d) every operator-expression constructor applies self_group(against=its "
        "operator) to its operands, an ungrouped operand list is built only where every compiler renders it "
        "inside function-call parentheses, every self_group() of an operator-bearing class returns self only "
        "where is_precedent() is false or the rendering is delimited in every compiler, and delegating "
        "self_group()s forward `against`; (e) the generic operator->token table names the right token."
    ),
    not_decided=(
        "value-level agreement of whole rendered statements with a backend; dialect arithmetic rewrites; "
        "typing of CASE/CAST/scalar subqueries; operators rendered through function-call syntax."
    ),
)

OPS = "sql/operators.py"
DC = "sql/default_comparator.py"
CMP = "sql/compiler.py"
EL = "sql/elements.py"

DIALECTS = {
    "sqlite": "dialects/sqlite/base.py::SQLiteCompiler",
    "postgresql": "dialects/postgresql/base.py::PGCompiler",
    "mysql": "dialects/mysql/base.py::MySQLCompiler",
    "mssql": "dialects/mssql/base.py::MSSQLCompiler",
    "oracle": "dialects/oracle/base.py::OracleCompiler",
}

UNARY = {"neg", "inv", "bitwise_not_op"}
# value-computing operators that take part in the grouping relation (DESIGN C01 "Scope of R1")
IN_SCOPE = {
    "mul", "truediv", "floordiv", "mod", "add", "sub", "neg", "concat_op",
    "bitwise_xor_op", "bitwise_or_op", "bitwise_and_op", "bitwise_not_op", "bitwise_lshift_op",
    "bitwise_rshift_op", "match_op", "not_match_op", "regexp_match_op", "not_regexp_match_op",
    "ilike_op", "not_ilike_op", "like_op", "not_like_op", "in_op", "not_in_op", "is_", "is_not", "eq", "ne",
    "is_distinct_from", "is_not_distinct_from", "gt", "lt", "ge", "le", "between_op", "not_between_op",
    "inv", "and_", "or_", "collate",
}
# `collate` as the OUTER operator: `(a || b).collate(x)` renders `a || b COLLATE x`; explicit collations
# propagate to the enclosing expression under every backend's collation-derivation rules, so no failing
# input exists (verified on SQLite) -- excluded with this reason.
OUTER_EXEMPT = {"collate": "explicit COLLATE propagates to the enclosing expression; grouping is immaterial"}

L, Rt, Q = "\x00L", "\x00R", "\x00?"
# C01 quantifies over "every dialect that has an executable backend (SQLite, PostgreSQL, MariaDB)"
PROPERTY_DIALECTS = {"standard", "sqlite", "postgresql", "mysql"}
# rows whose declared negation cannot be reached with that operator through any public API path
R2_EXCEPTIONS = {
    "not_regexp_match_op": "operators.not_regexp_match_op() is implemented as ~a.regexp_match(b); the lookup row is "
                           "reachable only by calling Comparator.operate() with the negated operator explicitly",
}


def _short(v):
    return v.short if isinstance(v, Sym) else v


# ---------------------------------------------------------------------- table extraction
def _tables(ctx):
    m = ctx.index.module(OPS)
    prec = require_known(ctx.ev.module_value(m, "_PRECEDENCE"), "_PRECEDENCE")
    ctx.require(isinstance(prec, dict) and len(prec) >= 40, "_PRECEDENCE is not a dict literal of >= 40 rows")
    P = {}
    for k, v in prec.items():
        ctx.require(isinstance(k, Sym) and isinstance(v, int), f"_PRECEDENCE row {k!r}: {v!r} not (operator, int)")
        P[k.short] = v
    assoc = {_short(x) for x in require_known(ctx.ev.module_value(m, "_associative"), "_associative")}
    nsp = {_short(x) for x in require_known(ctx.ev.module_value(m, "_natural_self_precedent"), "_natural_self_precedent")}
    return m, P, assoc, nsp


def _grouping_predicate(ctx):
    """Evaluate is_precedent() itself: returns grouped(inner, outer) -> bool for operator short names, computed
    by interpreting the function body (and the module predicates it calls) on the evaluated module tables for
    that concrete operator pair.  Nothing is assumed about the shape of the function: elif chains, early
    returns, named locals for the two lookups, an inverted comparison or an extracted module helper all
    evaluate to the same truth table; a construct the interpreter does not know is an analysis error."""
    f = ctx.func(f"{OPS}::is_precedent")
    ctx.require(len([p for p in f.params]) >= 2, "is_precedent signature changed")
    m = f.module
    interp = MiniInterp(ctx, m)
    prec = require_known(ctx.ev.module_value(m, "_PRECEDENCE"), "_PRECEDENCE")
    syms = {k.short: k for k in prec if isinstance(k, Sym)}
    memo = {}

    def grouped(p: str, q: str) -> bool:
        if (p, q) not in memo:
            try:
                v = interp.call(f, [syms[p], syms[q]])
            except Unsupported as e:
                raise AnalysisError(f"is_precedent({p}, {q}) cannot be evaluated: {e} (unknown idiom)")
            ctx.require(isinstance(v, bool), f"is_precedent({p}, {q}) evaluates to {v!r}, not a bool")
            memo[(p, q)] = v
        return memo[(p, q)]

    return grouped


# ---------------------------------------------------------------------- rendering classification
_ALT_CAP = 12


def _product(parts: List[List[str]]) -> List[str]:
    out = [""]
    for alts in parts:
        out = [a + b for a in out for b in alts]
        if len(out) > _ALT_CAP:
            return [Q]
    return out


def _uniq(xs: List[str]) -> List[str]:
    seen, out = set(), []
    for x in xs:
        if x not in seen:
            seen.add(x)
            out.append(x)
    return out


def _template(ctx, f, binary_param: str, depth=0) -> List[str]:
    """Render templates of a visit_<op>_binary/unary method: every alternative string the method can return,
    where the processed left operand is \\x00L, the right operand \\x00R, anything else \\x00? (conditional
    expressions and several `return`s give several alternatives)."""
    out = []
    cls = f.cls

    def ev(e) -> List[str]:
        if isinstance(e, ast.Constant) and isinstance(e.value, str):
            return [e.value]
        if isinstance(e, ast.BinOp) and isinstance(e.op, ast.Add):
            return _product([ev(e.left), ev(e.right)])
        if isinstance(e, ast.BinOp) and isinstance(e.op, ast.Mod) and isinstance(e.left, ast.Constant) and isinstance(e.left.value, str):
            args = e.right.elts if isinstance(e.right, ast.Tuple) else [e.right]
            parts = re.split(r"%\(?\w*\)?[srd]", e.left.value)
            if len(parts) - 1 != len(args):
                return [Q]
            seq = [[parts[0]]]
            for a, p in zip(args, parts[1:]):
                seq.append(ev(a))
                seq.append([p])
            return [s.replace("%%", "%") for s in _product(seq)]
        if isinstance(e, ast.JoinedStr):
            seq = []
            for v in e.values:
                seq.append([v.value] if isinstance(v, ast.Constant) else ev(v.value))
            return _product(seq)
        if isinstance(e, ast.IfExp):
            return _uniq(ev(e.body) + ev(e.orelse))
        if isinstance(e, ast.Call):
            nm = call_name(e) or ""
            short = nm.rsplit(".", 1)[-1]
            if short in ("_generate_generic_binary",) and len(e.args) >= 2:
                return [L + tok + Rt for tok in ev(e.args[1])]
            if short in ("_generate_generic_unary_operator",) and len(e.args) >= 2:
                return [tok + L for tok in ev(e.args[1])]
            if short.startswith("visit_") and cls is not None and depth < 4:
                tgt = ctx.index.resolve_method(cls, short)
                if tgt is not None and tgt.node is not f.node:
                    sub_t = _template(ctx, tgt, tgt.params[1] if len(tgt.params) > 1 else binary_param, depth + 1)
                    if sub_t:
                        return _uniq(sub_t) if len(sub_t) <= _ALT_CAP else [Q]
            txt = unparse(e)
            has_l = re.search(rf"\b{binary_param}\.(left|element)\b", txt) is not None
            has_r = re.search(rf"\b{binary_param}\.right\b", txt) is not None
            if has_l and not has_r:
                return [L]
            if has_r and not has_l:
                return [Rt]
            return [Q]
        if isinstance(e, ast.Name):
            # a local bound once to a template-able expression
            binds = [v for n, v, st in name_stores(f.node) if n == e.id and v is not None]
            if len(binds) == 1 and depth < 4:
                return ev(binds[0])
            return [Q]
        return [Q]

    for r in returns_of(f.node):
        if r.value is None:
            continue
        out.extend(ev(r.value))
    return _uniq(out)


_MARK = re.compile("(\x00[LR?])")
_FUNC_HEAD = re.compile(r"^([A-Za-z_][\w.]*)\s*\(")
# keywords that can precede `(` without being a function name
_PREFIX_KEYWORDS = {"NOT", "AND", "OR", "IN", "BETWEEN", "LIKE", "IS"}
_CONST_TAIL = re.compile(r"^(\S+(?: \S+)*?) (\d+(?:\.\d+)?|'[^']*'|NULL|TRUE|FALSE)$", re.I)


def _outer_tokens(t: str, only: Optional[str] = None):
    """Operator tokens textually adjacent to an operand marker (what an ungrouped operand would be parsed
    against): (before, after) = tokens standing to the LEFT of an operand / to the RIGHT of an operand.
    None when an operand touches an unknown fragment directly."""
    parts = _MARK.split(t)  # text, marker, text, marker, ... text
    texts, marks = parts[0::2], parts[1::2]
    before, after = [], []
    for i, tx in enumerate(texts):
        left_m = marks[i - 1] if i > 0 else None
        right_m = marks[i] if i < len(marks) else None
        if left_m and right_m and not tx.strip() and Q in (left_m, right_m) and {left_m, right_m} != {Q}:
            return None  # operand glued to an unknown fragment
        lo = left_m if left_m != Q and only in (None, left_m) else None
        ro = right_m if right_m != Q and only in (None, right_m) else None
        if left_m and right_m and not re.search(r"[(),]", tx):
            tok = " ".join(tx.upper().split())
            if tok and lo:
                after.append(tok)
            if tok and ro:
                before.append(tok)
            continue
        if lo:  # text to the right of an operand, up to a delimiter
            seg = re.split(r"[(),]", tx, maxsplit=1)[0].strip()
            if seg:
                after.append(seg.upper().split()[0])
        if ro:  # text to the left of an operand, back to a delimiter
            seg = re.split(r"[(),]", tx)[-1].strip()
            if seg:
                before.append(seg.upper().split()[-1])
    return before, after


def _top_level_items(t: str):
    """Depth-0 structure of a template: list of ('atom', kind) / ('text', s); a balanced `(...)` or
    `name(...)` is one atom of kind 'G'.  None if parentheses are unbalanced."""
    items, buf, i, n = [], "", 0, len(t)

    def flush():
        nonlocal buf
        if buf.strip():
            items.append(("text", " ".join(buf.upper().split())))
        buf = ""

    while i < n:
        ch = t[i]
        if ch == "\x00":
            flush()
            items.append(("atom", t[i:i + 2]))
            i += 2
        elif ch == "(":
            # function head directly before?
            m = re.search(r"([A-Za-z_][\w.]*)\s*$", buf)
            if m and m.group(1).upper() not in _PREFIX_KEYWORDS:
                buf = buf[:m.start()]
            flush()
            depth, j = 0, i
            while j < n:
                if t[j] == "(":
                    depth += 1
                elif t[j] == ")":
                    depth -= 1
                    if depth == 0:
                        break
                j += 1
            if j >= n:
                return None
            items.append(("atom", "G"))
            i = j + 1
        elif ch == ")":
            return None
        else:
            buf += ch
            i += 1
    flush()
    return items


def _analyse_template(t: str):
    """-> (inner, outer_tokens): inner = ('op', (tokens...)) -- infix / prefix operator tokens at the top
    level of the rendering; ('self', ()) -- delimited by its own parentheses / function call;
    ('transparent', ()) -- the operand itself; ('unknown', ())."""
    t = t.strip()
    outer = _outer_tokens(t)
    items = _top_level_items(t)
    if items is None or not items:
        return ("unknown", ()), outer
    kinds = [k for k, _ in items]
    # constant right operand: `L = 1`
    if kinds[-1] == "text" and len(items) >= 2 and kinds[-2] == "atom":
        m = _CONST_TAIL.match(items[-1][1])
        if m:
            items = items[:-1] + [("text", m.group(1)), ("atom", "C")]
            kinds = [k for k, _ in items]
    if "," in "".join(v for k, v in items if k == "text"):
        return ("unknown", ()), outer
    if kinds == ["atom"]:
        a = items[0][1]
        if a == "G":
            return ("self", ()), outer
        if a in (L, Rt):
            return ("transparent", ()), outer
        return ("unknown", ()), outer
    # atom (text atom)+ : infix chain
    if len(items) >= 3 and len(items) % 2 == 1 and all(
            k == ("atom" if i % 2 == 0 else "text") for i, k in enumerate(kinds)):
        if items[0][1] == Q:
            return ("unknown", ()), outer
        return ("op", tuple(v for k, v in items if k == "text")), outer
    # text atom : prefix operator
    if kinds == ["text", "atom"] and items[1][1] != Q:
        return ("op", ("\x01" + items[0][1],)), outer
    return ("unknown", ()), outer


def _classify(templates: List[str]):
    """Combine the alternatives: inner = ('op', tokens) if every alternative is an operator form or
    self-delimiting (the bare operator forms decide), ('self', ()) if all are delimited, else unknown."""
    toks, kinds, before, after, unknown_outer = [], set(), [], [], False
    for t in templates:
        inner, outer = _analyse_template(t)
        kinds.add(inner[0])
        toks.extend(inner[1])
        if outer is None:
            unknown_outer = True
        else:
            before.extend(outer[0])
            after.extend(outer[1])
    if not kinds or "unknown" in kinds:
        inner = ("unknown", ())
    elif "op" in kinds:
        inner = ("op", tuple(_uniq(toks)))
    elif kinds == {"self"}:
        inner = ("self", ())
    elif kinds <= {"self", "transparent"}:
        inner = ("transparent", ())
    else:
        inner = ("unknown", ())
    return inner, (None if unknown_outer else (sorted(set(before)), sorted(set(after))))


def _token_aliases() -> Dict[str, str]:
    return {k.upper(): v.upper() for k, v in load("sql_operator_token_aliases.json")["same_production_as"].items()}


def _norm_token(tok: str, unary: bool = False) -> str:
    prefix = tok.startswith("\x01")
    t = " ".join(tok.lstrip("\x01").strip().upper().split())
    if t == "%%":
        t = "%"
    if (unary or prefix) and t in ("-", "~", "+"):
        return "u" + t
    return _token_aliases().get(t, t)


def _sets_eager_grouping(f) -> bool:
    for st in walk_stmts(f.node.body):
        if isinstance(st, ast.Assign) and isinstance(st.targets[0], ast.Subscript):
            tg = st.targets[0]
            if isinstance(tg.slice, ast.Constant) and tg.slice.value == "eager_grouping" and \
                    isinstance(st.value, ast.Constant) and st.value.value is True:
                return True
    return False


def _render_one(ctx, cls, op: str, gen, unary: bool):
    """(inner=(kind, tokens), outer_tokens|None, via) of operator `op` for compiler class `cls`."""
    cands = [f"visit_{op}_unary_operator", f"visit_{op}_unary_modifier"] if unary else [f"visit_{op}_binary"]
    f = None
    for mname in cands:
        f = ctx.index.resolve_method(cls, mname)
        if f is not None:
            break
    if f is not None:
        ctx.functions_analysed.add(f.key)
        if _sets_eager_grouping(f):
            return ("self", ()), ([], []), f.key + " (eager_grouping: every nested operator expression is parenthesised)"
        bp = f.params[1] if len(f.params) > 1 else "binary"
        inner, outer = _classify(_template(ctx, f, bp))
        if inner[0] == "op":
            inner = ("op", tuple(_uniq([_norm_token(t, unary) for t in inner[1]])))
        if outer is not None:
            outer = tuple(sorted({_norm_token(t, unary) for t in side}) for side in outer)
        return inner, outer, f.key
    if op in gen and isinstance(gen[op], str):
        tok = _norm_token(gen[op], unary)
        return ("op", (tok,)), (([tok], []) if unary else ([tok], [tok])), "OPERATORS"
    return ("unknown", ()), None, "no OPERATORS row and no visit method"


def _generic_operators(ctx):
    cm = ctx.index.module(CMP)
    generic = require_known(ctx.ev.module_value(cm, "OPERATORS"), "OPERATORS")
    return {_short(k): v for k, v in generic.items()}


def _renderings(ctx, compiler_key: str, P: Dict[str, int]):
    """op short name -> (inner=(kind, tokens), outer_tokens|None, via) for one compiler class."""
    cls = ctx.index.cls(compiler_key)
    gen = _generic_operators(ctx)
    out = {}
    for op in sorted(P):
        if op not in IN_SCOPE:
            continue
        out[op] = _render_one(ctx, cls, op, gen, op in UNARY)
    return out


def _levels(grammar: List[List[str]]) -> Dict[str, int]:
    lv = {}
    for i, row in enumerate(grammar):
        for t in row:
            lv[t.upper()] = i
    return lv


@R.rule("C01-R1", floor=1100, template="T-TABLE",
        desc="for every (inner, outer) operator pair that is_precedent() leaves ungrouped, the inner operator's "
             "rendered token binds strictly tighter than the outer's in the standard-SQL order and in each "
             "backend grammar")
def r1(ctx):
    m, P, assoc, nsp = _tables(ctx)
    is_grouped = _grouping_predicate(ctx)
    grammar = load("sql_operator_grammar.json")
    targets = [("standard", f"{CMP}::SQLCompiler")] + sorted(DIALECTS.items())
    ops = sorted(o for o in P if o in IN_SCOPE)
    ctx.require(len(ops) >= 30, f"only {len(ops)} in-scope operators have a precedence")
    undecided = 0
    outside = 0
    for dname, ckey in targets:
        rend = _renderings(ctx, ckey, P)
        lv = _levels(grammar[dname])
        for q in ops:  # outer
            if q in OUTER_EXEMPT:
                continue
            _, outer_q, via_q = rend[q]
            for p in ops:  # inner
                if p == q or is_grouped(p, q):
                    continue  # same-operator flattening is judged by C01-R3 (associativity)
                inner_p, _, via_p = rend[p]
                key = f"{dname}:{q}<-{p}"
                if inner_p[0] == "self":
                    ctx.ok(key, f"inner rendering is self-delimiting ({via_p})", nontrivial=False)
                    continue
                if outer_q is not None and not outer_q[0] and not outer_q[1]:
                    ctx.ok(key, f"outer rendering delimits its operands ({via_q})", nontrivial=False)
                    continue
                if inner_p[0] != "op" or outer_q is None:
                    undecided += 1
                    continue
                known_inner = [t for t in inner_p[1] if t in lv]
                # a token standing BEFORE an ungrouped operand captures it unless the operand binds strictly
                # tighter; a token standing AFTER it (same level associates left to right) unless it binds
                # at least as tight
                kb = [t for t in outer_q[0] if t in lv]
                ka = [t for t in outer_q[1] if t in lv]
                known_outer = sorted(set(kb + ka))
                if not known_outer or not known_inner or inner_p[1][0] not in lv:
                    undecided += 1
                    continue
                tp = max(known_inner, key=lambda t: lv[t])  # loosest inner token
                bad = [t for t in kb if not lv[tp] < lv[t]] + [t for t in ka if not lv[tp] <= lv[t]]
                worst = min(bad or known_outer, key=lambda t: lv[t])  # tightest (offending) outer token
                good = not bad
                if dname not in PROPERTY_DIALECTS:
                    # backends outside the property's quantifier: reported for information only
                    if not good:
                        outside += 1
                        ctx.note(f"{key}: `{tp}` (level {lv[tp]}) ungrouped next to `{worst}` (level {lv[worst]}) -- backend not in C01's quantifier")
                    continue
                ctx.check(
                    good, key,
                    f"{dname}: inner `{tp}` ({p}, precedence {P[p]}) is left ungrouped next to outer `{worst}` ({q}, "
                    f"precedence {P[q]}) but binds at level {lv[tp]} vs {lv[worst]} in the backend grammar "
                    f"(lower = tighter): the backend re-associates the rendered SQL",
                    f"`{tp}` level {lv[tp]} tighter than {known_outer}",
                    f"{m.path}:{m.assign_stmts['_PRECEDENCE'][0].lineno}",
                )
    ctx.note(f"{undecided} ungrouped pairs not decided (token absent from the backend oracle or rendering not infix); "
             f"{outside} re-associating pairs on backends outside the property's quantifier (mssql, oracle)")


@R.rule("C01-R2", floor=25, template="T-TABLE",
        desc="every declared negation is the logical complement (oracle) and negation is an involution")
def r2(ctx):
    comp = load("negation_complements.json")["complement"]
    m = ctx.index.module(DC)
    lookup = ctx.ev.module_value(m, "operator_lookup")
    ctx.require(isinstance(lookup, dict) and len(lookup) >= 50, "operator_lookup is not a dict literal of >= 50 rows")
    declared: Dict[str, str] = {}
    stmt = m.assign_stmts["operator_lookup"][0]
    loc = f"{m.path}:{stmt.lineno}"

    def eval_negate(expr, opname, rowkw):
        """Evaluate the `negate=`/`negate_op=` argument expression of an impl for op=opname."""
        if isinstance(expr, ast.IfExp):
            t = expr.test
            if isinstance(t, ast.Compare) and len(t.ops) == 1 and isinstance(t.ops[0], (ast.Is, ast.Eq)) and isinstance(t.left, ast.Name):
                other = dotted(t.comparators[0]) or ""
                return eval_negate(expr.body if other.rsplit(".", 1)[-1] == opname else expr.orelse, opname, rowkw)
            return None
        d = dotted(expr)
        if d is None:
            return None
        if d.startswith("operators."):
            return d.split(".", 1)[1]
        if d in ("negate_op", "negate") and rowkw is not None:
            return rowkw
        return None

    for name, row in lookup.items():
        if not (isinstance(row, tuple) and len(row) == 2 and isinstance(row[0], Sym)):
            ctx.error(f"operator_lookup[{name!r}] is not (impl, kwargs): {row!r}")
        impl, kw = row
        rowneg = None
        if isinstance(kw, dict) and "negate_op" in kw:
            ctx.require(isinstance(kw["negate_op"], Sym), f"operator_lookup[{name!r}] negate_op not an operator")
            rowneg = kw["negate_op"].short
        neg = rowneg
        if neg is None:
            # negation chosen inside the impl function
            fi = m.functions.get(impl.short)
            if fi is not None:
                ctx.functions_analysed.add(fi.key)
                for c in calls_in(fi.node):
                    for k in c.keywords:
                        if k.arg in ("negate", "negate_op"):
                            v = eval_negate(k.value, name, None)
                            if v is not None:
                                neg = v
        if neg is None:
            continue
        if name in R2_EXCEPTIONS:
            ctx.note(f"operator_lookup[{name}] exempt: {R2_EXCEPTIONS[name]}")
            continue
        declared[name] = neg
        key = f"{DC}::operator_lookup[{name}]"
        if name not in comp:
            ctx.error(f"operator {name} declares negation {neg} but has no entry in oracle negation_complements.json")
        ctx.check(neg == comp[name], key,
                  f"negation of `{name}` is declared as `{neg}`, its logical complement is `{comp[name]}` "
                  f"(NOT (a {name} b) would render as a {neg} b)",
                  f"{name} -> {neg}", loc)
    # literal (op, negate) pairs in constructor calls anywhere in default_comparator
    for fi in m.functions.values():
        for c in calls_in(fi.node):
            nm = (call_name(c) or "").rsplit(".", 1)[-1]
            if nm not in ("_construct_for_op", "BinaryExpression"):
                continue
            kwneg = [k.value for k in c.keywords if k.arg == "negate"]
            if not kwneg or len(c.args) < 3:
                continue
            opd, ngd = dotted(c.args[2]) or "", dotted(kwneg[0]) or ""
            if opd.startswith("operators.") and ngd.startswith("operators."):
                o, n = opd.split(".", 1)[1], ngd.split(".", 1)[1]
                key = f"{fi.key}:{o}"
                ctx.require(o in comp, f"operator {o} missing from negation oracle")
                ctx.check(n == comp[o], key, f"`{o}` constructed with negate=`{n}`, complement is `{comp[o]}`",
                          f"{o} -> {n}", f"{m.path}:{c.lineno}")
    # involution over the declared table
    for o, n in sorted(declared.items()):
        if n in declared:
            ctx.check(declared[n] == o, f"{DC}::involution[{o}]",
                      f"negate(negate({o})) = {declared[n]} != {o}", f"{o} <-> {n}", loc)
    # BinaryExpression._negate swaps operator and negate: every BinaryExpression it can return (locals inlined,
    # a `return self.<helper>(...)` followed) is built as (self.left, right', self.negate, negate=self.operator)
    f = ctx.func(f"{EL}::BinaryExpression._negate")
    init = ctx.func(f"{EL}::BinaryExpression.__init__")
    iparams = [p for p in init.params if p != "self"]
    ctx.require({"left", "operator", "negate"} <= set(iparams), "BinaryExpression.__init__ lost left/operator/negate")
    ctors = [v for v in returned_values(ctx.index, f.cls, f.node, depth=2)
             if isinstance(v, ast.Call) and (call_name(v) or "") == "BinaryExpression"]
    problems = []
    if not ctors:
        problems.append("no path returns a BinaryExpression")
    for c in ctors:
        b = bind_call_args(c, iparams)
        ctx.require(b is not None, "BinaryExpression._negate builds its result with */** arguments (unknown idiom)")
        got = {k: unparse(v) for k, v in b.items()}
        for prm, want in (("left", "self.left"), ("operator", "self.negate"), ("negate", "self.operator")):
            if got.get(prm) != want:
                problems.append(f"{prm}={got.get(prm)} (expected {want})")
    ctx.check(not problems, f.key, "BinaryExpression._negate does not build (left, right', self.negate, negate=self.operator): "
              + "; ".join(problems), "operator/negate swapped", f.loc)


ASSOCIATIVE_IN_SQL = {"and_", "or_", "add", "mul", "concat_op"}
SELF_DELIMITING = {"getitem", "json_getitem_op", "json_path_getitem_op"}


@R.rule("C01-R3", floor=8, template="T-TABLE",
        desc="_associative contains only operators that are associative in SQL; non-associative members of "
             "_natural_self_precedent are bracket/arrow rendered")
def r3(ctx):
    m, P, assoc, nsp = _tables(ctx)
    loc = f"{m.path}:{m.assign_stmts['_associative'][0].lineno}"
    for o in sorted(assoc):
        ctx.check(o in ASSOCIATIVE_IN_SQL, f"{OPS}::_associative[{o}]",
                  f"`{o}` is flattened as associative ((a {o} b) {o} c rendered like a {o} (b {o} c)) but is not "
                  f"associative in SQL", "associative in SQL", loc)
    for o in sorted(nsp - assoc):
        ctx.check(o in SELF_DELIMITING, f"{OPS}::_natural_self_precedent[{o}]",
                  f"`{o}` is exempt from self-grouping but is neither associative nor self-delimiting",
                  "bracket/arrow rendered", loc)
    for o in ("sub", "truediv", "floordiv", "mod", "pow_"):
        ctx.check(o not in assoc and o not in nsp, f"{OPS}::non-associative[{o}]",
                  f"non-associative operator `{o}` is in _associative/_natural_self_precedent", "absent", loc)
    # is_associative / is_natural_self_precedent consult exactly these tables
    for fn, tbl in (("is_associative", "_associative"), ("is_natural_self_precedent", "_natural_self_precedent")):
        f = ctx.func(f"{OPS}::{fn}")
        names = {n.id for n in ast.walk(f.node) if isinstance(n, ast.Name)}
        ctx.check(tbl in names, f.key, f"{fn} does not consult {tbl}", f"reads {tbl}", f.loc)


def _self_group_against(call: ast.Call, fnode=None) -> Optional[str]:
    """Text of the `against` argument of an `x.self_group(...)` call (locals of `fnode` bound once inlined)."""
    if not (isinstance(call.func, ast.Attribute) and call.func.attr == "self_group"):
        return None
    txt = (lambda e: unparse(inline_locals(fnode, e))) if fnode is not None else unparse
    for k in call.keywords:
        if k.arg == "against":
            return txt(k.value)
    if call.args:
        return txt(call.args[0])
    return "<none>"


def _attr_store_values(fnode, target: str) -> List[ast.expr]:
    """Values stored to attribute `target` (e.g. `self.left`) anywhere in `fnode`, locals bound once inlined;
    `self.a, self.b = x, y` is read element-wise."""
    out = []
    for st in walk_stmts(fnode.body):
        if isinstance(st, ast.AnnAssign) and st.value is not None and unparse(st.target) == target:
            out.append(inline_locals(fnode, st.value))
        if not isinstance(st, ast.Assign):
            continue
        for t in st.targets:
            if unparse(t) == target:
                out.append(inline_locals(fnode, st.value))
            elif isinstance(t, (ast.Tuple, ast.List)) and isinstance(st.value, (ast.Tuple, ast.List)) \
                    and len(t.elts) == len(st.value.elts):
                for te, ve in zip(t.elts, st.value.elts):
                    if unparse(te) == target:
                        out.append(inline_locals(fnode, ve))
    return out


ALL_COMPILERS = dict(DIALECTS, standard=f"{CMP}::SQLCompiler", generic_str=f"{CMP}::StrSQLCompiler")

# operator-bearing expression classes: their rendering has the operator token at its top level
OPERATOR_BASES = (f"{EL}::OperatorExpression", f"{EL}::UnaryExpression", f"{EL}::ClauseList")

# `return self` paths of a self_group() that are reachable although is_precedent(self.operator, against)
# holds, and that are right for a reason the rule cannot read from the rendering templates.
# {function key: (guard atom that must dominate the return, reason)}
SELF_RETURN_EXCEPTIONS = {
    f"{EL}::BooleanClauseList.self_group":
        (("self.clauses", False), "an AND/OR list without members renders as the empty string"),
    "dialects/postgresql/array.py::array.self_group":
        (None, "ARRAY[...] literal: delimited by its brackets (an empty literal carries the tightest-binding "
               "`::type` suffix)"),
}


def _tri_and(vals):
    if any(v is False for v in vals):
        return False
    return True if all(v is True for v in vals) else None


def _eval_under_precedent(e: ast.expr, ctx=None, cls=None, fnode=None, against: str = "against", depth: int = 0):
    """Three-valued truth of a guard under the hypothesis H: the instance has an operator, takes part in
    grouping (`self.group`), and is_precedent(self.operator, against) is true.  None = not determined.
    Locals bound once are inlined first (`operator = self.operator`, `needs = self.group and ...`); a helper
    method of the class that receives `against` is followed."""
    if fnode is not None:
        e = inline_locals(fnode, e)
    return _eval_h(e, ctx, cls, against, depth)


def _eval_h(e, ctx, cls, against, depth):
    rec = lambda x: _eval_h(x, ctx, cls, against, depth)  # noqa: E731
    if isinstance(e, ast.UnaryOp) and isinstance(e.op, ast.Not):
        v = rec(e.operand)
        return None if v is None else not v
    if isinstance(e, ast.BoolOp):
        vals = [rec(v) for v in e.values]
        if isinstance(e.op, ast.And):
            return _tri_and(vals)
        neg = _tri_and([None if v is None else not v for v in vals])
        return None if neg is None else not neg
    if isinstance(e, ast.IfExp):
        t = rec(e.test)
        if t is None:
            a, b = rec(e.body), rec(e.orelse)
            return a if a == b else None
        return rec(e.body if t else e.orelse)
    if isinstance(e, ast.Constant) and isinstance(e.value, bool):
        return e.value
    if isinstance(e, ast.Call) and (call_name(e) or "") == "bool" and len(e.args) == 1 and not e.keywords:
        return rec(e.args[0])
    if isinstance(e, ast.Compare) and len(e.ops) == 1 and isinstance(e.ops[0], (ast.Is, ast.IsNot, ast.Eq, ast.NotEq)):
        l, r = e.left, e.comparators[0]
        if isinstance(l, ast.Constant):
            l, r = r, l
        if isinstance(r, ast.Constant) and r.value is None and unparse(l) == "self.operator":
            return isinstance(e.ops[0], (ast.IsNot, ast.NotEq))  # H: the instance has an operator
        return None
    if isinstance(e, ast.Call) and (call_name(e) or "").rsplit(".", 1)[-1] == "is_precedent":
        b = bind_call_args(e, ["operator", "against"])
        if b is not None and {k: unparse(v) for k, v in b.items()} == {"operator": "self.operator", "against": against}:
            return True
        return None
    if unparse(e) in ("self.group", "self.operator"):
        return True
    if (isinstance(e, ast.Call) and isinstance(e.func, ast.Attribute) and unparse(e.func.value) == "self"
            and ctx is not None and cls is not None and depth < 3):
        tgt = ctx.index.resolve_method(cls, e.func.attr)
        if tgt is None:
            return None
        params = [p for p in tgt.params if p != "self"]
        inner_against = None
        for i, a in enumerate(e.args):
            if unparse(a) == against and i < len(params):
                inner_against = params[i]
        for k in e.keywords:
            if k.arg and unparse(k.value) == against:
                inner_against = k.arg
        if inner_against is None:
            return None
        rets = [r for r in returns_of(tgt.node) if r.value is not None]
        if not rets:
            return None
        # every return of the helper that is feasible under H must agree
        g = ctx.cfg(tgt)
        tri = lambda t: _eval_under_precedent(t, ctx, cls, tgt.node, inner_against, depth + 1)  # noqa: E731
        live = feasible_reachable(g, tri)
        vals = set()
        for r in rets:
            if not any(n in live for n in g.nodes_for(r)):
                continue
            vals.add(_eval_under_precedent(r.value, ctx, cls, tgt.node, inner_against, depth + 1))
        if len(vals) == 1:
            ctx.functions_analysed.add(tgt.key)
            return vals.pop()
        return None
    return None


def _split_atoms(test: ast.expr, pol: bool = True):
    """Conjunctive atoms [(expr, polarity)] of a branch outcome (`not`, `and` when taken, `or` when refused)."""
    if isinstance(test, ast.UnaryOp) and isinstance(test.op, ast.Not):
        return _split_atoms(test.operand, not pol)
    if isinstance(test, ast.BoolOp) and ((isinstance(test.op, ast.And) and pol) or (isinstance(test.op, ast.Or) and not pol)):
        out = []
        for v in test.values:
            out.extend(_split_atoms(v, pol))
        return out
    return [(test, pol)]


def _guarded_operators(guards) -> Optional[List[str]]:
    """Operators X for which a dominating branch outcome demands `self.operator is operators.X` (or `in (...)`),
    however it is spelled (`is` taken / `is not` refused, inside `and` / De Morgan)."""
    for t, pol in guards:
        for a, p2 in _split_atoms(t, pol):
            if isinstance(a, ast.Compare) and len(a.ops) == 1 and unparse(a.left) == "self.operator":
                op, rhs = a.ops[0], a.comparators[0]
                if (isinstance(op, (ast.Is, ast.Eq)) and p2) or (isinstance(op, (ast.IsNot, ast.NotEq)) and not p2):
                    d = dotted(rhs) or ""
                    return [d.rsplit(".", 1)[-1]]
                if ((isinstance(op, ast.In) and p2) or (isinstance(op, ast.NotIn) and not p2)) \
                        and isinstance(rhs, (ast.Tuple, ast.List, ast.Set)):
                    return [(dotted(x) or "?").rsplit(".", 1)[-1] for x in rhs.elts]
    return None


def _op_visit(ctx, cls, op: str):
    for mname in (f"visit_{op}_binary", f"visit_{op}_unary_operator", f"visit_{op}_unary_modifier"):
        f = ctx.index.resolve_method(cls, mname)
        if f is not None:
            return f
    return None


def _bare_renderings(ctx, op: str) -> Tuple[List[str], int]:
    """Compilers in which operator `op` is rendered with an operator token at the top level (not delimited
    by a function call / parentheses of its own); second value = number of compilers decided."""
    gen = _generic_operators(ctx)
    bare, decided = [], 0
    for name, ckey in sorted(ALL_COMPILERS.items(), key=lambda kv: (kv[0] != 'standard', kv[0])):
        cls = ctx.index.cls(ckey)
        f = _op_visit(ctx, cls, op)
        if f is None:
            if isinstance(gen.get(op), str):
                decided += 1
                bare.append(f"{name}: generic `{gen[op].strip()}` token")
            continue
        ctx.functions_analysed.add(f.key)
        if _sets_eager_grouping(f):
            decided += 1
            continue
        bp = f.params[1] if len(f.params) > 1 else "binary"
        ts = _template(ctx, f, bp)
        for t in ts:
            inner, _ = _analyse_template(t)
            if inner[0] in ("op", "transparent"):
                shown = t.replace(L, "<left>").replace(Rt, "<right>").replace(Q, "<..>")
                bare.append(f"{name}: {f.qualname} can return `{shown.strip()}`")
                break
        if ts:
            decided += 1
    return bare, decided


def _own_visit_delimited(ctx, cls) -> Optional[bool]:
    """True if the class names its own visit method (`__visit_name__` in its own body) and that method's
    rendering is delimited in every compiler that has it; None if the class has no visit name of its own."""
    vn = None
    for node in cls.assigns.get("__visit_name__", []):
        if isinstance(node, ast.Constant) and isinstance(node.value, str):
            vn = node.value
    if vn is None:
        return None
    seen = False
    for name, ckey in sorted(ALL_COMPILERS.items(), key=lambda kv: (kv[0] != 'standard', kv[0])):
        f = ctx.index.resolve_method(ctx.index.cls(ckey), f"visit_{vn}")
        if f is None:
            continue
        ctx.functions_analysed.add(f.key)
        ts = _template(ctx, f, f.params[1] if len(f.params) > 1 else "element")
        if not ts:
            continue
        seen = True
        if any(_analyse_template(t)[0][0] != "self" for t in ts):
            return False
    return seen


def _right_operand_exposure(ctx, op: str) -> Tuple[List[str], int]:
    """Where the rendering of binary operator `op` leaves its RIGHT operand next to an operator token."""
    gen = _generic_operators(ctx)
    exposed, decided = [], 0
    for name, ckey in sorted(ALL_COMPILERS.items(), key=lambda kv: (kv[0] != 'standard', kv[0])):
        cls = ctx.index.cls(ckey)
        f = ctx.index.resolve_method(cls, f"visit_{op}_binary")
        if f is None:
            if isinstance(gen.get(op), str):
                decided += 1
                exposed.append(f"{name}: generic `{gen[op].strip()}` token")
            continue
        ctx.functions_analysed.add(f.key)
        if _sets_eager_grouping(f):
            continue
        for t in _template(ctx, f, f.params[1] if len(f.params) > 1 else "binary"):
            if Rt not in t:
                continue
            o = _outer_tokens(t, only=Rt)
            decided += 1
            if o is None or o[0] or o[1]:
                shown = t.replace(L, "<left>").replace(Rt, "<right>").replace(Q, "<..>")
                exposed.append(f"{name}: {f.qualname} renders `{shown.strip()}`")
                break
    return exposed, decided


@R.rule("C01-R4", floor=16, template="T-FLOW",
        desc="operator-expression constructors apply self_group(against=<their operator>) to every operand "
             "(ungrouped lists only where the rendering delimits them); every self_group() of an operator-bearing "
             "class returns self only where is_precedent() is false or the rendering is delimited, and "
             "delegating self_group()s forward `against`")
def r4(ctx):
    # BinaryExpression.__init__: left and right
    f = ctx.func(f"{EL}::BinaryExpression.__init__")
    opparam = "operator"
    ctx.require(opparam in f.params, "BinaryExpression.__init__ has no `operator` parameter")
    for side in ("left", "right"):
        vals = _attr_store_values(f.node, f"self.{side}")
        good = bool(vals) and all(
            isinstance(v, ast.Call) and _self_group_against(v, f.node) == opparam and unparse(v.func.value) == side
            for v in vals)
        ctx.check(good, f"{f.key}:{side}", f"self.{side} is not stored as {side}.self_group(against=operator)",
                  "self_group(against=operator)", f.loc)
    # UnaryExpression.__init__
    f = ctx.func(f"{EL}::UnaryExpression.__init__")
    vals = _attr_store_values(f.node, "self.element")
    good = bool(vals)
    for v in vals:
        ag = (_self_group_against(v, f.node) or "") if isinstance(v, ast.Call) else ""
        good = good and isinstance(v, ast.Call) and isinstance(v.func, ast.Attribute) \
            and unparse(v.func.value) == "element" and "operator" in ag
    ctx.check(good, f"{f.key}:element", "self.element is not element.self_group(against=<operator or modifier>)",
              "self_group(against=self.operator or self.modifier)", f.loc)
    # ExpressionClauseList._construct_for_list
    f = ctx.func(f"{EL}::ExpressionClauseList._construct_for_list")
    stores = [st for st in walk_stmts(f.node.body) if isinstance(st, ast.Assign) and any(unparse(t) == "self.clauses" for t in st.targets)]
    ctx.require(stores, "_construct_for_list no longer assigns self.clauses")
    ctx.functions_analysed.add(f.key)
    # hypothesis `group` is true: no bare (un-self_grouped) member list may reach self.clauses.  Branch outcomes
    # that `group` refutes are not followed, so `if group: .. else: ..`, its inversion, an early return for the
    # bare arm and a local that is conditionally re-bound all read the same.
    ctx.require("group" in f.params, "_construct_for_list has no `group` parameter")
    g = ctx.cfg(f)

    def tri_group(t):
        if isinstance(t, ast.UnaryOp) and isinstance(t.op, ast.Not):
            v = tri_group(t.operand)
            return None if v is None else not v
        if isinstance(t, ast.BoolOp):
            vals = [tri_group(v) for v in t.values]
            if isinstance(t.op, ast.And):
                return _tri_and(vals)
            neg = _tri_and([None if v is None else not v for v in vals])
            return None if neg is None else not neg
        if isinstance(t, ast.Name) and t.id == "group":
            return True
        if isinstance(t, ast.Compare) and len(t.ops) == 1 and unparse(t.left) == "group" \
                and isinstance(t.comparators[0], ast.Constant) and isinstance(t.comparators[0].value, bool):
            eq = isinstance(t.ops[0], (ast.Is, ast.Eq))
            if eq or isinstance(t.ops[0], (ast.IsNot, ast.NotEq)):
                return (t.comparators[0].value is True) == eq
        return None

    tri = lambda t: tri_group(inline_locals(f.node, t))  # noqa: E731
    live = feasible_reachable(g, tri)

    def is_grouped(val):
        calls = [c for c in calls_in(val) if _self_group_against(c) is not None]
        return bool(calls) and all(_self_group_against(c, f.node) == "operator" for c in calls) and isinstance(
            val, (ast.Call, ast.GeneratorExp, ast.ListComp, ast.Tuple))

    grouped_ok, ungrouped_guarded = False, True
    for st in stores:
        val = inline_locals(f.node, st.value)
        st_nodes = set(g.nodes_for(st))
        if is_grouped(val):
            grouped_ok = True
        elif isinstance(val, ast.Name) and val.id not in f.params:
            # a local bound more than once: each binding is a definition that may flow into the store
            binds = [(v, b) for n, v, b in name_stores(f.node) if n == val.id]
            ctx.require(binds and all(v is not None for v, b in binds), f"{f.key}: `{val.id}` stored to self.clauses is bound in a way not understood")
            all_nodes = {nid for v, b in binds for nid in g.nodes_for(b)}
            for v, b in binds:
                if is_grouped(inline_locals(f.node, v)):
                    grouped_ok = True
                    continue
                mine = set(g.nodes_for(b))
                # the bare definition survives to the store (no other definition in between) although group is true
                flows = feasible_reachable(g, tri, starts=[n for n in mine if n in live], avoid=all_nodes - mine)
                if st_nodes & flows:
                    ungrouped_guarded = False
        elif st_nodes & live:
            ungrouped_guarded = False
    ctx.check(grouped_ok and ungrouped_guarded, f"{f.key}:clauses",
              "clauses are stored without self_group(against=operator) outside the explicit group=False arm",
              "each clause self_group(against=operator) unless group=False", f.loc)
    # who passes group=False: the members of such a list are stored bare, so either the enclosing operator's
    # rendering must delimit the list (function-call parentheses and a comma separator) in every compiler,
    # or the caller must itself apply self_group(against=<enclosing operator>) to each member
    dcm = ctx.index.module(DC)
    lookup = ctx.ev.module_value(dcm, "operator_lookup")
    ctx.require(isinstance(lookup, dict), "operator_lookup is not a dict literal")
    impl_ops: Dict[str, List[str]] = {}
    for name, row in lookup.items():
        if isinstance(row, tuple) and row and isinstance(row[0], Sym):
            impl_ops.setdefault(row[0].short, []).append(name)
    gen_ops = _generic_operators(ctx)
    for mod in ctx.index.all_modules():
        if "_construct_for_list" not in mod.source:
            continue
        pmm = mod.parents()
        for fi in ctx.index.all_functions(mod):
            for c in calls_in(fi.node, into_nested=True):
                if not (call_name(c) or "").endswith("_construct_for_list"):
                    continue
                kw = {k.arg: unparse(k.value) for k in c.keywords}
                if kw.get("group") != "False":
                    continue
                key = f"{fi.key}:group=False"
                loc = f"{mod.path}:{c.lineno}"
                ctx.require(len(c.args) >= 3, f"{fi.key}: ungrouped _construct_for_list call without members")
                sep_op = (dotted(c.args[0]) or unparse(c.args[0])).rsplit(".", 1)[-1]
                members = c.args[2:]
                parent = pmm.get(c)
                exposed, decided = [], 0
                if (isinstance(parent, ast.Call) and (call_name(parent) or "").endswith("BinaryExpression")
                        and len(parent.args) >= 3 and parent.args[1] is c):
                    encl = unparse(parent.args[2])
                    ops = impl_ops.get(fi.name, []) if encl in fi.params else [encl.rsplit(".", 1)[-1]]
                    ctx.require(ops, f"{fi.key}: cannot tell which operators reach it (not an operator_lookup impl)")
                    for o in ops:
                        e, d = _right_operand_exposure(ctx, o)
                        exposed += [f"{o}: {x}" for x in e]
                        decided += d
                    ctx.require(decided > 0, f"{fi.key}: no compiler rendering of {ops} could be read")
                    where = f"as the right operand of {ops}"
                else:
                    # the list is an expression of its own: its members stand next to its own separator
                    encl, ops = unparse(c.args[0]), [sep_op]
                    where = "as an expression of its own"
                sep = gen_ops.get(sep_op)
                sep_is_delimiter = isinstance(sep, str) and sep.strip() == ","
                explicitly_grouped = all(
                    isinstance(mb, ast.Call) and _self_group_against(mb) == encl for mb in members)  # (*args: no)
                if explicitly_grouped:
                    ctx.ok(key, f"each member is passed through self_group(against={encl}) by the caller")
                elif not exposed and sep_is_delimiter:
                    ctx.ok(key, f"{ops}: the list is rendered inside the parentheses of a function call, comma "
                                f"separated ({decided} renderings read)")
                else:
                    why = exposed[0] if exposed else f"the list separator `{sep}` is not a delimiter"
                    ctx.violation(
                        key,
                        f"builds an UNGROUPED `{sep_op}` list {where} whose members are never "
                        f"passed through self_group(): {why}, so a member that is itself an operator expression "
                        f"(`x BETWEEN a AND b = c`) is re-associated by the backend; the members need "
                        f"self_group(against={encl})", loc)
    # BooleanClauseList._process_clauses_for_boolean
    f = ctx.func(f"{EL}::BooleanClauseList._process_clauses_for_boolean")
    rets = returns_of(f.node)
    good = False
    for r in rets:
        for c in calls_in(r.value):
            ag = _self_group_against(c)
            if ag and ag != "<none>":
                binds = [unparse(v) for n, v, st in name_stores(f.node) if n == ag and v is not None]
                good = "operator" in binds
    ctx.check(good, f"{f.key}:clauses", "boolean clause lists do not self_group(against=operator) their members",
              "self_group(against=operator) when more than one clause", f.loc)
    # self_group() of every operator-bearing expression class (T-SIBLING over the family): under the
    # hypothesis that is_precedent(self.operator, against) holds, a path that returns `self` must be unreachable,
    # or restricted to operators whose rendering is delimited in every compiler, or the class's own visit
    # method is delimited, or listed in SELF_RETURN_EXCEPTIONS; any self_group() that hands over to another
    # self_group() must forward `against`
    from ..astutil import guard_atoms as _ga
    bases = [ctx.index.cls(k) for k in OPERATOR_BASES]
    fam = []
    for cls in ctx.index.all_classes():
        if "/testing/" in cls.module.relpath or cls.module.relpath.startswith("testing/"):
            continue
        f = cls.methods.get("self_group")
        if f is None or f.type_only or f.is_overload:
            continue
        fam.append((cls, f, any(cls is b or ctx.index.is_subclass(cls, b) for b in bases)))
    ctx.require(sum(1 for x in fam if x[2]) >= 5, "fewer than 5 operator-bearing classes define self_group()")
    for cls, f, bearing in fam:
        ctx.functions_analysed.add(f.key)
        agp = "against" if "against" in f.params else None
        # forwarding
        for c in calls_in(f.node):
            if isinstance(c.func, ast.Attribute) and c.func.attr == "self_group" and agp:
                ctx.check(_self_group_against(c, f.node) == agp, f"{f.key}:forwards-against",
                          f"delegates to `{unparse(c.func)}` without forwarding `against`: the inner expression is "
                          f"grouped for no operator at all", "against forwarded", f.loc)
            elif agp and any(isinstance(a, ast.Attribute) and a.attr == "self_group" for a in c.args):
                ctx.check(any(k.arg == "against" and unparse(inline_locals(f.node, k.value)) == agp for k in c.keywords) or
                          any(unparse(inline_locals(f.node, a)) == agp for a in c.args),
                          f"{f.key}:forwards-against",
                          "passes an inner self_group on without forwarding `against`", "against forwarded", f.loc)
        if not bearing:
            continue
        ctx.require(agp is not None, f"{f.key}: no `against` parameter")
        g = ctx.cfg(f)
        problems, details = [], []
        rets = returns_of(f.node)
        ctx.require(rets, f"{f.key}: no return statement")
        # nodes that can be reached while is_precedent(self.operator, against) holds: a branch outcome that the
        # hypothesis refutes is not followed, whatever the shape of the decision (compound test, nested ifs,
        # early return, inverted if/else, boolean local, helper method)
        live = feasible_reachable(g, lambda t, f=f, cls=cls, agp=agp: _eval_under_precedent(t, ctx, cls, f.node, agp))
        def alternatives(v, conds=()):
            """(value, [(test, outcome)]) for each arm of a (nested) conditional expression that H does not refute."""
            if isinstance(v, ast.IfExp):
                t = _eval_under_precedent(v.test, ctx, cls, None, agp)
                out = []
                if t is not False:
                    out += alternatives(v.body, conds + ((v.test, True),))
                if t is not True:
                    out += alternatives(v.orelse, conds + ((v.test, False),))
                return out
            return [(v, list(conds))]

        for r in rets:
          for v, conds in alternatives(inline_locals(f.node, r.value) if r.value is not None else None):
            txt = unparse(v) if v is not None else "None"
            if isinstance(v, ast.Call):
                nm = (call_name(v) or "")
                if nm.rsplit(".", 1)[-1] == "Grouping":
                    continue
                if isinstance(v.func, ast.Attribute) and v.func.attr == "self_group":
                    continue  # judged by the forwarding check; the target is a member of the family
            ctx.require(txt == "self", f"{f.key}: returns `{txt}`, neither self, Grouping(self) nor a delegation")
            for nid in g.nodes_for(r):
                if nid not in live:
                    details.append("returns self only where is_precedent(self.operator, against) is false")
                    continue
                guards = [(inline_locals(f.node, t), pol) for t, pol in g.edge_guards(nid)] + conds
                atoms = _ga(guards)
                xs = _guarded_operators(guards)
                if xs:
                    bad = []
                    for x in xs:
                        bare, decided = _bare_renderings(ctx, x)
                        ctx.require(decided > 0, f"{f.key}: no rendering of operator {x} could be read")
                        if bare:
                            bad.append(f"{x} ({bare[0]})")
                    if bad:
                        problems.append(
                            f"returns self without consulting precedence when self.operator is {xs}, but that "
                            f"operator is not rendered delimited everywhere: {'; '.join(bad)}")
                    else:
                        details.append(f"returns self for {xs}: rendered delimited in every compiler")
                    continue
                exc = SELF_RETURN_EXCEPTIONS.get(f.key)
                if exc is not None and (exc[0] is None or exc[0] in atoms):
                    details.append(f"exception: {exc[1]}")
                    continue
                own = _own_visit_delimited(ctx, cls)
                if own:
                    details.append("its own visit method renders it delimited in every compiler")
                    continue
                cond = " and ".join(f"{'' if p else 'not '}({a})" for a, p in atoms) or "unconditionally"
                problems.append(
                    f"returns self {cond} even when is_precedent(self.operator, against) holds, and the class is "
                    f"rendered through the generic operator path (operator token at the top level): it is left "
                    f"unparenthesised inside a tighter or equally binding operator")
        ctx.check(not problems, f.key, f"{cls.name}.self_group: " + " | ".join(problems),
                  "; ".join(sorted(set(details))) or "always groups or delegates", f.loc)


@R.rule("C01-R5", floor=35, template="T-SIBLING",
        desc="the generic OPERATORS table maps each operator to the token its name stands for")
def r5(ctx):
    cls_tokens = load("negation_complements.json")["operator_token_class"]
    cm = ctx.index.module(CMP)
    generic = require_known(ctx.ev.module_value(cm, "OPERATORS"), "OPERATORS")
    loc = f"{cm.path}:{cm.assign_stmts['OPERATORS'][0].lineno}"
    for k, v in generic.items():
        op = _short(k)
        key = f"{CMP}::OPERATORS[{op}]"
        if op not in cls_tokens:
            ctx.error(f"OPERATORS row for `{op}` has no expected token in the oracle (add it to operator_token_class)")
        want = cls_tokens[op]
        want = want if isinstance(want, list) else [want]
        got = " ".join(str(v).strip().upper().split())
        ctx.check(got in want, key, f"operator `{op}` renders as `{got}`, expected one of {want}", got, loc)


# ---------------------------------------------------------------------- C01-R6: operands are never mutated
# Methods of the expression-building protocol: they return the (possibly wrapped / rewritten) expression and
# are called on operands that other trees still reference.
BUILD_PROTOCOL = ("self_group", "_negate", "_negate_in_binary", "operate", "reverse_operate",
                  "_flattened_operator_clauses", "__invert__", "__neg__")
# {function key: reason} -- constructors that mutate a parameter by contract
R6_EXCEPTIONS: Dict[str, str] = {}


@R.rule("C01-R6", floor=60, template="T-FRESH",
        desc="associative flattening and every other operator-expression constructor (operator implementations of "
             "default_comparator, classmethod constructors and the self_group/_negate/operate protocol of the "
             "element classes) build NEW nodes: no structural attribute (one named in a _traverse_internals table) "
             "of a parameter-reachable expression is rebound, augmented or mutated in place, directly, through an "
             "alias, through an in-place mutator method or through a helper")
def r6(ctx):
    from ._helpers_str2_b import OperandMutation, traversed_attrs
    ix = ctx.index
    ce = ix.cls(f"{EL}::ClauseElement")
    fam = [c for c in ix.all_classes()
           if c.module.relpath.startswith("sql/") and (c is ce or ix.is_subclass(c, ce))]
    ctx.require(len(fam) >= 100, f"only {len(fam)} ClauseElement classes under sql/")
    structural = traversed_attrs(fam)
    ctx.require(len(structural) >= 60, f"only {len(structural)} attribute names in the _traverse_internals tables")
    om = OperandMutation(ctx, structural, fam)
    om.compute_self_mutators()
    ctx.require(len(om.self_mutators) >= 2, "no in-place mutator method found in the element family (ClauseList.append, "
                                            "ExpressionClauseList._append_inplace ... expected)")
    ctx.note("in-place mutators of the element family: " + ", ".join(f"{n} ({k})" for n, k in sorted(om.self_mutators.items())))
    targets = []
    dcm = ix.module(DC)
    for fi in dcm.functions.values():
        if fi.cls is None and not fi.type_only:
            targets.append(fi)
    n_ctor = n_proto = 0
    for c in fam:
        if c.module.relpath != EL:
            continue
        for m in c.methods.values():
            if m.type_only or m.is_overload:
                continue
            decs = {d.rsplit(".", 1)[-1] for d in m.decorators}
            if decs & {"classmethod", "staticmethod"}:
                targets.append(m)
                n_ctor += 1
            elif m.name in BUILD_PROTOCOL:
                targets.append(m)
                n_proto += 1
    ctx.require(n_ctor >= 10 and n_proto >= 20 and len(dcm.functions) >= 15,
                f"constructor family shrank: {len(dcm.functions)} operator implementations, {n_ctor} classmethod "
                f"constructors, {n_proto} protocol methods")
    for f in sorted(targets, key=lambda x: x.key):
        ctx.functions_analysed.add(f.key)
        key = f"{f.key}:operands-not-mutated"
        if f.key in R6_EXCEPTIONS:
            ctx.ok(key, "exception: " + R6_EXCEPTIONS[f.key], nontrivial=False)
            continue
        # a mutation that happens inside another member of the family is reported there, once
        tkeys = {t.key for t in targets}
        found = [x for x in om.sinks(f) if not (x[1].startswith("via-callee:") and x[1].split(":", 1)[1] in tkeys)]
        if found:
            root, kind, desc, ln = found[0]
            ctx.violation(
                key,
                f"{f.qualname} {desc}" + (f" (+{len(found) - 1} more)" if len(found) > 1 else "") +
                f": the operand `{root}` is still referenced by the caller and by every expression built from it "
                f"earlier, so their rendered SQL changes behind their back (an expression constructor must build a "
                f"new node from the operands' members)",
                f"{f.module.path}:{ln}", [f"line {l}: {d}" for _, _, d, l in found[:5]])
        else:
            ctx.ok(key, "no structural state of a parameter-reachable object is stored to or mutated in place",
                   nontrivial=False)


# ---------------------------------------------------------------------- self-test battery
R.mutant("precedence-concat-above-add", OPS, sub("    concat_op: 5,\n", "    concat_op: 9,\n"), "C01-R1")
R.mutant("precedence-and-below-or", OPS, sub("    and_: 3,\n", "    and_: 1,\n"), "C01-R1")
R.mutant("precedence-mul-equals-add-low", OPS, sub("    add: 7,\n    sub: 7,\n", "    add: 9,\n    sub: 9,\n"), "C01-R1")
R.mutant("is_precedent-strict", OPS, sub("            <= _PRECEDENCE.get(\n                against", "            < _PRECEDENCE.get(\n                against"), "C01-R1")
R.mutant("negate-lt-gt", DC, sub('util.immutabledict({"negate_op": operators.ge}),', 'util.immutabledict({"negate_op": operators.gt}),'), "C01-R2")
R.mutant("negate-in-in", DC, sub('util.immutabledict({"negate_op": operators.not_in_op}),', 'util.immutabledict({"negate_op": operators.in_op}),'), "C01-R2")
R.mutant("between-negate-swapped", DC, sub("            operators.not_between_op\n            if op is operators.between_op\n            else operators.between_op",
                                           "            operators.between_op\n            if op is operators.between_op\n            else operators.not_between_op"), "C01-R2")
R.mutant("binary-negate-not-swapped", EL, sub("                self.negate,\n                negate=self.operator,", "                self.negate,\n                negate=self.negate,"), "C01-R2")
R.mutant("sub-associative", OPS, sub("_associative = _commutative.union([concat_op, and_, or_]).difference([eq, ne])",
                                     "_associative = _commutative.union([concat_op, and_, or_, sub]).difference([eq, ne])"), "C01-R3")
R.mutant("truediv-self-precedent", OPS, sub("    [getitem, json_getitem_op, json_path_getitem_op]\n", "    [getitem, json_getitem_op, json_path_getitem_op, truediv]\n"), "C01-R3")
R.mutant("binary-init-no-group-right", EL, sub("        self.right = right.self_group(against=operator)\n", "        self.right = right\n"), "C01-R4")
R.mutant("clauselist-no-group", EL, sub("            self.clauses = tuple(\n                c.self_group(against=operator) for c in clauses\n            )",
                                        "            self.clauses = tuple(clauses)"), "C01-R4")
R.mutant("self-group-inverted", EL, sub("        if self.operator and operators.is_precedent(self.operator, against):\n            return Grouping(self)\n        else:\n            return self",
                                        "        if self.operator and not operators.is_precedent(self.operator, against):\n            return Grouping(self)\n        else:\n            return self"), "C01-R4")
R.mutant("operators-le-lt", CMP, sub('    operators.le: " <= ",', '    operators.le: " < ",'), "C01-R5")
R.mutant("operators-isnot-is", CMP, sub('    operators.is_not: " IS NOT ",', '    operators.is_not: " IS ",'), "C01-R5")
R.mutant("benign-precedence-new-row", OPS, sub("    _asbool: -10,\n}", "    _asbool: -10,\n    matmul: 8,\n}"), None)
R.mutant("benign-rename-is_precedent-local", OPS, sub("def is_precedent(\n    operator: OperatorType, against: Optional[OperatorType]\n) -> bool:\n    if operator is against",
                                                     "def is_precedent(\n    operator: OperatorType, against: Optional[OperatorType]\n) -> bool:\n    _dbg = None\n    if operator is against"), None)
R.mutant("benign-binary-init-reorder", EL, sub("        self.left = left.self_group(against=operator)\n        self.right = right.self_group(against=operator)\n",
                                               "        self.right = right.self_group(against=operator)\n        self.left = left.self_group(against=operator)\n"), None)

# ---- strengthening round (seeds C01/1, C01/2 and the seed agents' observations)
# seed C01/1: the LIKE family moved above the comparison tier (R1 now reads `x LIKE y [ESCAPE e]` templates)
R.mutant("seed1-like-above-comparisons", OPS, sub("    ilike_op: 5,\n    not_ilike_op: 5,\n    like_op: 5,\n    not_like_op: 5,\n",
                                                  "    ilike_op: 6,\n    not_ilike_op: 6,\n    like_op: 6,\n    not_like_op: 6,\n"), "C01-R1")
R.mutant("between-above-comparisons", OPS, sub("    between_op: 5,\n    not_between_op: 5,\n", "    between_op: 6,\n    not_between_op: 6,\n"), "C01-R1")
R.mutant("mod-below-add", OPS, sub("    mod: 8,\n", "    mod: 7,\n"), "C01-R1")
R.mutant("benign-precedence-rows-reordered", OPS, sub("    like_op: 5,\n    not_like_op: 5,\n    in_op: 5,\n    not_in_op: 5,\n",
                                                      "    in_op: 5,\n    not_in_op: 5,\n    like_op: 5,\n    not_like_op: 5,\n"), None)
R.mutant("benign-like-escape-suffix-local", CMP, sub(
    """        return "%s LIKE %s" % (
            binary.left._compiler_dispatch(self, **kw),
            binary.right._compiler_dispatch(self, **kw),
        ) + (
            " ESCAPE " + self.render_literal_value(escape, sqltypes.STRINGTYPE)
            if escape is not None
            else ""
        )
""", """        suffix = (
            " ESCAPE " + self.render_literal_value(escape, sqltypes.STRINGTYPE)
            if escape is not None
            else ""
        )
        lhs = binary.left._compiler_dispatch(self, **kw)
        return "%s LIKE %s" % (
            lhs,
            binary.right._compiler_dispatch(self, **kw),
        ) + suffix
"""), None)
# seed C01/2: a self_group() override that bypasses precedence for an operator that is not always delimited
_BIN_NEGATE = "    def _negate(self):\n        if self.negate is not None:\n            return BinaryExpression(\n"
R.mutant("seed2-binary-self-group-floordiv", EL, sub(_BIN_NEGATE, """    def self_group(self, against=None):
        if against is not None and self.operator is operators.floordiv:
            return self
        return super().self_group(against=against)

""" + _BIN_NEGATE), "C01-R4")
R.mutant("binary-self-group-helper-bypass", EL, sub(_BIN_NEGATE, """    def _renders_delimited(self):
        return self.operator in (operators.floordiv, operators.truediv)

    def self_group(self, against=None):
        if self._renders_delimited():
            return self
        return super().self_group(against=against)

""" + _BIN_NEGATE), "C01-R4")
R.mutant("booleanclauselist-empty-test-flipped", EL, sub("        if not self.clauses:\n            return self\n        else:\n            return super().self_group(against=against)",
                                                         "        if self.clauses:\n            return self\n        else:\n            return super().self_group(against=against)"), "C01-R4")
R.mutant("typecoerce-drops-against", EL, sub("        grouped = self.clause.self_group(against=against)\n", "        grouped = self.clause.self_group()\n"), "C01-R4")
R.mutant("label-drops-against", EL, sub("        return self._apply_to_inner(self._element.self_group, against=against)\n",
                                        "        return self._apply_to_inner(self._element.self_group)\n"), "C01-R4")
R.mutant("flattened-list-ungrouped", EL, sub("                    *(left_flattened + right_flattened),\n                )",
                                             "                    *(left_flattened + right_flattened),\n                    group=False,\n                )"), "C01-R4")
R.mutant("benign-binary-self-group-delegates", EL, sub(_BIN_NEGATE, """    def self_group(self, against=None):
        return super().self_group(against=against)

""" + _BIN_NEGATE), None)
R.mutant("benign-binary-self-group-delimited-operator", EL, sub(_BIN_NEGATE, """    def self_group(self, against=None):
        if self.operator is operators.not_in_op:
            return self
        return super().self_group(against=against)

""" + _BIN_NEGATE), None)
R.mutant("benign-unary-self-group-early-return", EL, sub(
    "        if self.operator and operators.is_precedent(self.operator, against):\n            return Grouping(self)\n        else:\n            return self",
    "        if not (self.operator and operators.is_precedent(self.operator, against)):\n            return self\n        return Grouping(self)"), None)
R.mutant("benign-clauselist-self-group-helper", EL, sub(
    "        if self.group and operators.is_precedent(self.operator, against):\n            return Grouping(self)\n        else:\n            return self\n\n\nclass OperatorExpression",
    "        needs = self._needs_parens(against)\n        if needs:\n            return Grouping(self)\n        else:\n            return self\n\n"
    "    def _needs_parens(self, op):\n        return self.group and operators.is_precedent(self.operator, op)\n\n\nclass OperatorExpression"), None)
# the repairs of the two findings of that round are now the tree (fix commits); their inverses are the defects
R.mutant("between-members-not-grouped", DC, sub(
    "                cleft,\n                expr=expr,\n                operator=operators.and_,\n            ).self_group(against=op),\n",
    "                cleft,\n                expr=expr,\n                operator=operators.and_,\n            ),\n"), "C01-R4")
R.mutant("asboolean-self-group-ignores-precedence", EL, sub(
    "        if operators.is_precedent(self.operator, against):\n            return Grouping(self)\n        return self\n\n"
    "    def _negate(self):\n        if isinstance(self.element, (True_, False_)):",
    "        return self\n\n    def _negate(self):\n        if isinstance(self.element, (True_, False_)):"), "C01-R4")

# ---- robustify round (rob-C1): shape-independent reading of is_precedent / _negate / self_group / constructors
_ISP = """    if operator is against and is_natural_self_precedent(operator):
        return False
    elif against is None:
        return True
    else:
        return bool(
            _PRECEDENCE.get(
                operator, getattr(operator, "precedence", _OpLimit._smallest)
            )
            <= _PRECEDENCE.get(
                against, getattr(against, "precedence", _OpLimit._largest)
            )
        )
"""
_ISP_LOCALS = """    if operator is against and is_natural_self_precedent(operator):
        return False
    if against is None:
        return True

    operator_precedence = _PRECEDENCE.get(
        operator, getattr(operator, "precedence", _OpLimit._smallest)
    )
    against_precedence = _PRECEDENCE.get(
        against, getattr(against, "precedence", _OpLimit._largest)
    )
    return bool(operator_precedence %s against_precedence)
"""
R.mutant("benign-is_precedent-early-returns-named-locals", OPS, sub(_ISP, _ISP_LOCALS % "<="), None)
R.mutant("is_precedent-named-locals-strict", OPS, sub(_ISP, _ISP_LOCALS % "<"), "C01-R1")
R.mutant("is_precedent-named-locals-inverted", OPS, sub(_ISP, _ISP_LOCALS % ">="), "C01-R1")
R.mutant("benign-is_precedent-operands-flipped", OPS, sub(_ISP, """    if against is None:
        return True
    if operator is against and is_natural_self_precedent(operator):
        return False
    outer = _PRECEDENCE.get(
        against, getattr(against, "precedence", _OpLimit._largest)
    )
    inner = _PRECEDENCE.get(
        operator, getattr(operator, "precedence", _OpLimit._smallest)
    )
    return outer >= inner
"""), None)
R.mutant("benign-is_precedent-negated-comparison", OPS, sub(_ISP, """    same = operator is against
    if same and is_natural_self_precedent(operator):
        return False
    elif against is None:
        return True
    binds_tighter = _PRECEDENCE.get(
        operator, getattr(operator, "precedence", _OpLimit._smallest)
    ) > _PRECEDENCE.get(
        against, getattr(against, "precedence", _OpLimit._largest)
    )
    return not binds_tighter
"""), None)
_ISP_HEAD = "def is_precedent(\n    operator: OperatorType, against: Optional[OperatorType]\n) -> bool:\n"
_ISP_HELPER = ("def _precedence_of(op: Any, default: int) -> int:\n"
               "    return _PRECEDENCE.get(op, getattr(op, \"precedence\", default))\n\n\n")
R.mutant("benign-is_precedent-lookup-helper", OPS, chain(sub(_ISP_HEAD, _ISP_HELPER + _ISP_HEAD), sub(_ISP, """    if operator is against and is_natural_self_precedent(operator):
        return False
    elif against is None:
        return True
    return _precedence_of(operator, _OpLimit._smallest) <= _precedence_of(
        against, _OpLimit._largest
    )
""")), None)
R.mutant("is_precedent-lookup-helper-operands-swapped", OPS, chain(sub(_ISP_HEAD, _ISP_HELPER + _ISP_HEAD), sub(_ISP, """    if operator is against and is_natural_self_precedent(operator):
        return False
    elif against is None:
        return True
    return _precedence_of(against, _OpLimit._smallest) <= _precedence_of(
        operator, _OpLimit._largest
    )
""")), "C01-R1")
R.mutant("is_precedent-self-precedent-exemption-for-all", OPS, sub(_ISP, _ISP.replace(
    "    if operator is against and is_natural_self_precedent(operator):\n", "    if operator is against or is_natural_self_precedent(operator):\n")), "C01-R1")
# BinaryExpression._negate
_NEG = """        if self.negate is not None:
            return BinaryExpression(
                self.left,
                self.right._negate_in_binary(self.negate, self.operator),
                self.negate,
                negate=self.operator,
                type_=self.type,
                modifiers=self.modifiers,
            )
        else:
            return self.self_group()._negate()
"""
_NEG_ALIAS = """        negated_op = self.negate
        if negated_op is None:
            return self.self_group()._negate()

        original_op = self.operator
        return BinaryExpression(
            self.left,
            self.right._negate_in_binary(negated_op, original_op),
            negated_op,
            negate=%s,
            type_=self.type,
            modifiers=self.modifiers,
        )
"""
R.mutant("benign-negate-aliases-inverted-if", EL, sub(_NEG, _NEG_ALIAS % "original_op"), None)
R.mutant("negate-aliases-not-swapped", EL, sub(_NEG, _NEG_ALIAS % "negated_op"), "C01-R2")
R.mutant("benign-negate-keyword-arguments-result-local", EL, sub(_NEG, """        if self.negate is None:
            return self.self_group()._negate()
        negated = BinaryExpression(
            left=self.left,
            right=self.right._negate_in_binary(self.negate, self.operator),
            operator=self.negate,
            type_=self.type,
            negate=self.operator,
            modifiers=self.modifiers,
        )
        return negated
"""), None)
R.mutant("benign-negate-extracted-helper", EL, sub(_NEG, """        if self.negate is not None:
            return self._with_operators(self.negate, self.operator)
        else:
            return self.self_group()._negate()

    def _with_operators(self, op, negate_op):
        return BinaryExpression(
            self.left,
            self.right._negate_in_binary(op, negate_op),
            op,
            negate=negate_op,
            type_=self.type,
            modifiers=self.modifiers,
        )
"""), None)
R.mutant("negate-extracted-helper-arguments-swapped", EL, sub(_NEG, """        if self.negate is not None:
            return self._with_operators(self.operator, self.negate)
        else:
            return self.self_group()._negate()

    def _with_operators(self, op, negate_op):
        return BinaryExpression(
            self.left,
            self.right._negate_in_binary(op, negate_op),
            op,
            negate=negate_op,
            type_=self.type,
            modifiers=self.modifiers,
        )
"""), "C01-R2")
# self_group(): the decision spelled differently
_OE_SG = """        if (
            self.group
            and operators.is_precedent(self.operator, against)
            or (
                # a negate against a non-boolean operator
                # doesn't make too much sense but we should
                # group for that
                against is operators.inv
                and not operators.is_boolean(self.operator)
            )
        ):
            return Grouping(self)
        else:
            return self
"""
_OE_SG_SPLIT = """        operator = self.operator
        if self.group and %soperators.is_precedent(operator, against):
            return Grouping(self)

        if against is operators.inv:
            if not operators.is_boolean(operator):
                return Grouping(self)

        return self
"""
R.mutant("benign-operatorexpression-self-group-sequential-guards", EL, sub(_OE_SG, _OE_SG_SPLIT % ""), None)
R.mutant("operatorexpression-self-group-sequential-guards-inverted", EL, sub(_OE_SG, _OE_SG_SPLIT % "not "), "C01-R4")
_CL_SG = ("        if self.group and operators.is_precedent(self.operator, against):\n            return Grouping(self)\n"
          "        else:\n            return self\n\n\nclass OperatorExpression")
R.mutant("benign-clauselist-self-group-nested-ifs", EL, sub(_CL_SG, """        if self.group:
            if operators.is_precedent(self.operator, against):
                return Grouping(self)
        return self


class OperatorExpression"""), None)
R.mutant("clauselist-self-group-nested-ifs-group-flag-inverted", EL, sub(_CL_SG, """        if not self.group:
            if operators.is_precedent(self.operator, against):
                return Grouping(self)
        return self


class OperatorExpression"""), "C01-R4")
R.mutant("benign-clauselist-self-group-result-local", EL, sub(_CL_SG, """        op = self.operator
        needs_parens = self.group and operators.is_precedent(op, against)
        result = Grouping(self) if needs_parens else self
        return result


class OperatorExpression"""), None)
R.mutant("benign-booleanclauselist-self-group-alias-early-delegation", EL, sub(
    "        if not self.clauses:\n            return self\n        else:\n            return super().self_group(against=against)",
    "        members = self.clauses\n        if members:\n            return super().self_group(against=against)\n        return self"), None)
R.mutant("benign-binary-init-grouped-locals", EL, sub(
    "        self.left = left.self_group(against=operator)\n        self.right = right.self_group(against=operator)\n",
    "        grouped_left = left.self_group(against=operator)\n        grouped_right = right.self_group(against=operator)\n"
    "        self.left, self.right = grouped_left, grouped_right\n"), None)
R.mutant("binary-init-grouped-locals-right-bare", EL, sub(
    "        self.left = left.self_group(against=operator)\n        self.right = right.self_group(against=operator)\n",
    "        grouped_left = left.self_group(against=operator)\n        grouped_right = right\n"
    "        self.left, self.right = grouped_left, grouped_right\n"), "C01-R4")
R.mutant("benign-construct-for-list-early-return-arm", EL, sub(
    "        if group:\n            self.clauses = tuple(\n                c.self_group(against=operator) for c in clauses\n            )\n        else:\n            self.clauses = clauses\n",
    "        members = clauses\n        if group:\n            members = tuple(\n                c.self_group(against=operator) for c in clauses\n            )\n        self.clauses = members\n"), None)

# ---- round-2 strengthening (str2-b): seeds C01/3 (UnaryExpression.self_group early `return self`; caught by R4
# before the round) and C01/4 (associative "fast path" that extends the left operand in place; new rule R6)
_UN_SG = ("        if self.operator and operators.is_precedent(self.operator, against):\n            return Grouping(self)\n"
          "        else:\n            return self")
R.mutant("seed3-unary-self-group-skips-parens-over-grouped-operand", EL, sub(
    _UN_SG,
    "        if self.operator and operators.is_precedent(self.operator, against):\n"
    "            if isinstance(self.element, Grouping) and against is not self.operator:\n                return self\n"
    "            return Grouping(self)\n        else:\n            return self"), "C01-R4")
R.mutant("unary-self-group-modifier-only-guard-on-precedent-path", EL, sub(
    _UN_SG,
    "        already_delimited = self.modifier is None and isinstance(self.element, Grouping)\n"
    "        if already_delimited:\n            return self\n"
    "        if self.operator and operators.is_precedent(self.operator, against):\n            return Grouping(self)\n"
    "        return self"), "C01-R4")
R.mutant("benign-unary-self-group-modifier-form-returns-early", EL, sub(
    _UN_SG,
    "        if self.operator is None:\n            # modifier form (x DESC, x NULLS FIRST): never parenthesised\n            return self\n"
    "        needs = operators.is_precedent(self.operator, against)\n"
    "        return Grouping(self) if needs else self"), None)
R.mutant("benign-unary-self-group-grouped-operand-still-consults-precedence", EL, sub(
    _UN_SG,
    "        operand_grouped = isinstance(self.element, Grouping)\n"
    "        if self.operator and operators.is_precedent(self.operator, against):\n"
    "            wrapped = Grouping(self)\n            return wrapped\n"
    "        elif operand_grouped:\n            return self\n        else:\n            return self"), None)
_CFO_HEAD = ("            assert (\n                negate is None\n            ), f\"negate not supported for associative operator {op}\"\n\n")
R.mutant("seed4-associative-fast-path-appends-to-left-operand", EL, sub(_CFO_HEAD, _CFO_HEAD + (
    "            if (\n                isinstance(left, ExpressionClauseList)\n                and left.operator is op\n"
    "                and left.group\n                and getattr(right, \"operator\", None) is not op\n"
    "                and type_._compare_type_affinity(left.type)\n            ):\n"
    "                left._append_inplace(right.self_group(against=op))\n                return left\n\n")), "C01-R6")
R.mutant("associative-fast-path-augments-left-clauses", EL, sub(_CFO_HEAD, _CFO_HEAD + (
    "            if isinstance(left, ExpressionClauseList) and left.operator is op:\n"
    "                left.clauses += (right.self_group(against=op),)\n                return left\n\n")), "C01-R6")
R.mutant("associative-fast-path-mutates-through-alias-and-helper", EL, chain(
    sub(_CFO_HEAD, _CFO_HEAD + (
        "            chain_head = left\n"
        "            if isinstance(chain_head, ExpressionClauseList) and chain_head.operator is op:\n"
        "                return cls._extend_chain(chain_head, right.self_group(against=op))\n\n")),
    sub("    @classmethod\n    def _construct_for_op(\n",
        "    @staticmethod\n    def _extend_chain(existing, member):\n        existing._append_inplace(member)\n        return existing\n\n"
        "    @classmethod\n    def _construct_for_op(\n")), "C01-R6")
R.mutant("binary-negate-swaps-operators-in-place", EL, sub(_NEG, (
    "        if self.negate is not None:\n            self.operator, self.negate = self.negate, self.operator\n"
    "            return self\n        else:\n            return self.self_group()._negate()\n")), "C01-R6")
R.mutant("comparator-impl-retypes-left-operand", DC, sub(
    "        op, result_type = left.comparator._adapt_expression(\n            op, right.comparator\n        )\n",
    "        op, result_type = left.comparator._adapt_expression(\n            op, right.comparator\n        )\n"
    "        left.type = result_type\n"), "C01-R6")
R.mutant("benign-associative-fast-path-builds-new-list", EL, sub(_CFO_HEAD, _CFO_HEAD + (
    "            if (\n                isinstance(left, ExpressionClauseList)\n                and left.operator is op\n"
    "                and getattr(right, \"operator\", None) is not op\n"
    "                and type_._compare_type_affinity(left.type)\n            ):\n"
    "                return ExpressionClauseList._construct_for_list(\n                    op, type_, *left.clauses, right\n                )\n\n")), None)
R.mutant("benign-associative-fast-path-appends-to-a-clone", EL, sub(_CFO_HEAD, _CFO_HEAD + (
    "            if (\n                isinstance(left, ExpressionClauseList)\n                and left.operator is op\n"
    "                and left.group\n                and getattr(right, \"operator\", None) is not op\n"
    "                and type_._compare_type_affinity(left.type)\n            ):\n"
    "                extended = left._clone()\n                extended._append_inplace(right.self_group(against=op))\n"
    "                return extended\n\n")), None)
R.mutant("benign-construct-for-list-extends-its-new-node", EL, sub(
    "        self.operator = operator\n        self.type = type_\n        for c in clauses:\n            if c._propagate_attrs:",
    "        self.operator = operator\n        self.clauses += ()\n        self.type = type_\n        for c in clauses:\n            if c._propagate_attrs:"), None)
