"""C27 -- A database disconnect invalidates the connection and blocks silent continuation."""

from __future__ import annotations

import ast

from ..astutil import (
    attr_stores, call_name, calls_in, dotted, enclosing_try, guard_atoms, lexical_guards, name_stores,
    test_atoms, unparse, walk_local,
)
from ..cfg import no_exc
from ..report import Registry, sub, chain
from ._helpers_rules_c import (
    both, call_nodes, calls_ending, cut_edges, fin_quiet, must_pass, outcome, test_edges,
)
from .c23 import commit_requires_active

R = Registry(
    "C27",
    title="A database disconnect invalidates the connection and blocks silent continuation",
    decides=(
        "handler coverage and finally obligations of the disconnect path: every dialect.do_*() call in "
        "Connection is wrapped by a BaseException handler that routes to _handle_dbapi_exception (six "
        "reasoned exceptions); _handle_dbapi_exception invalidates the connection in its finally on every "
        "raise under _is_disconnect, invalidates the pool only when asked to, never touches pool or "
        "connection for non-disconnect errors, consults dialect.is_disconnect only for DBAPI errors on an "
        "open connection and copies back the handle_error listener's verdict; _revalidate_connection "
        "refuses to reconnect inside a transaction; commit on an invalidated transaction raises."
    ),
    not_decided="which driver errors each dialect's is_disconnect() recognises; behaviour of user handle_error listeners.",
)

ENG = "engine/base.py"

# C27-R1: do_* calls that are deliberately not wrapped, with the reason
UNWRAPPED_OK = {
    f"{ENG}::Connection._savepoint_impl:do_savepoint": "dialect implementation issues SAVEPOINT through connection.execute(), which is wrapped",
    f"{ENG}::Connection._rollback_to_savepoint_impl:do_rollback_to_savepoint": "issues ROLLBACK TO SAVEPOINT through connection.execute()",
    f"{ENG}::Connection._release_savepoint_impl:do_release_savepoint": "issues RELEASE SAVEPOINT through connection.execute()",
    f"{ENG}::Connection.recover_twophase:do_recover_twophase": "dialect implementations run their SQL through connection.execute()",
    f"{ENG}::Connection.rollback_prepared:do_rollback_twophase": "dialect implementations run their SQL through connection.execute()",
    f"{ENG}::Connection.commit_prepared:do_commit_twophase": "dialect implementations run their SQL through connection.execute()",
}


def _is_dialect_do(c: ast.Call) -> bool:
    f = c.func
    if not (isinstance(f, ast.Attribute) and f.attr.startswith("do_")):
        return False
    recv = dotted(f.value) or ""
    return recv == "dialect" or recv.endswith(".dialect")


@R.rule("C27-R1", floor=20, template="T-GUARD",
        desc="every dialect.do_*() call inside class Connection sits in a try whose BaseException handler "
             "calls self._handle_dbapi_exception(e, ...); the unwrapped ones are a frozen, reasoned list")
def r1(ctx):
    cls = ctx.index.cls(f"{ENG}::Connection")
    pm = cls.module.parents()
    seen = set()
    for name, m in sorted(cls.methods.items()):
        for c in calls_in(m.node, into_nested=True):
            if not _is_dialect_do(c):
                continue
            ctx.functions_analysed.add(m.key)
            key = f"{m.key}:{c.func.attr}"
            n = 2
            while key in seen:
                key = f"{m.key}:{c.func.attr}#{n}"
                n += 1
            seen.add(key)
            wrapped = False
            for t, part in enclosing_try(pm, c):
                if part != "body":
                    continue
                for h in t.handlers:
                    tn = (dotted(h.type) or "") if h.type is not None else "BaseException"
                    if tn.split(".")[-1] != "BaseException" or not h.name:
                        continue
                    for hc in calls_in(ast.Module(body=h.body, type_ignores=[])):
                        if call_name(hc) == "self._handle_dbapi_exception" and hc.args \
                                and isinstance(hc.args[0], ast.Name) and hc.args[0].id == h.name:
                            wrapped = True
                if wrapped:
                    break
            loc = f"{m.module.path}:{c.lineno}"
            if wrapped:
                ctx.ok(key, "try/except BaseException -> _handle_dbapi_exception(e, ...)")
            elif key in UNWRAPPED_OK:
                ctx.ok(key, "unwrapped by design: " + UNWRAPPED_OK[key], nontrivial=False)
            else:
                ctx.violation(key, f"`{unparse(c.func)}(...)` can raise a DBAPI error that bypasses "
                                   "_handle_dbapi_exception: a disconnect here is neither classified nor "
                                   "invalidates the connection", loc)
    stale = [k for k in UNWRAPPED_OK if k not in seen]
    ctx.require(not stale, f"exception-table entries no longer match a call site: {stale}")


@R.rule("C27-R2", floor=5, template="T-PATH",
        desc="_handle_dbapi_exception: connection invalidated in the finally on every raise under "
             "_is_disconnect; pool invalidated only under invalidate_pool_on_disconnect; nothing invalidated "
             "for non-disconnects; is_disconnect consulted only for DBAPI errors on an open connection; "
             "handle_error verdict copied back")
def r2(ctx):
    f = ctx.func(f"{ENG}::Connection._handle_dbapi_exception")
    g = ctx.cfg(f)
    inv = call_nodes(g, lambda nm, c: nm == "self.invalidate")
    pinv = call_nodes(g, lambda nm, c: nm.endswith("pool._invalidate"))
    names = {call_name(c) or "" for c in calls_in(f.node)}
    ctx.require("self.invalidate" in names, "no self.invalidate() call in _handle_dbapi_exception")
    ctx.require(any(n.endswith("pool._invalidate") for n in names), "no pool._invalidate() call in _handle_dbapi_exception")
    live = g.reachable([g.entry])
    inv = [n for n in inv if n in live]      # (the normal-continuation copy of the finally is dead: the try always raises)
    pinv = [n for n in pinv if n in live]
    enter = [n for d, t, st in attr_stores(f.node) if d == "self._reentrant_error" and isinstance(st, ast.Assign) for n in g.nodes_for(st)]
    ctx.require(enter, "_handle_dbapi_exception no longer marks re-entrance before its try block")
    # (a) every exit of the guarded block invalidates when _is_disconnect
    skip = []
    for n in g.nodes:
        if n.kind != "test":
            continue
        for b, lab0 in g.succ[n.id]:
            lab = outcome(g, n.id, lab0)
            if lab is None:
                continue
            atoms = test_atoms(n.stmt.test, lab == "true")
            if n.copy and ("self._is_disconnect", False) in atoms:
                skip.append((n.id, lab0, b))
            if ("self.invalidated", True) in atoms:
                skip.append((n.id, lab0, b))
    starts = [b for n in enter for b, lab in g.succ[n] if lab != "exc"]
    w = must_pass(g, starts, [g.exit, g.raise_exit], inv, edge_ok=both(fin_quiet(g), cut_edges(skip))) if inv else \
        ["self.invalidate(e) is unreachable: the guarded block always raises, only a finally can run after it"]
    ctx.check(w is None, f.key + ":invalidate-on-every-raise",
              "an exit of _handle_dbapi_exception under _is_disconnect leaves the Connection valid "
              "(the dead DBAPI connection would be used again)",
              "finally: if _is_disconnect and not invalidated: self.invalidate(e)", f.loc, w)
    # (b)+(c) guards of the two invalidations
    bad = []
    for n in inv + pinv:
        atoms = set(guard_atoms(g.edge_guards(n)))
        if ("self._is_disconnect", True) not in atoms:
            bad.append(g.nodes[n].describe())
    ctx.check(not bad, f.key + ":only-on-disconnect",
              "pool / connection invalidation is reachable for an error that is not a disconnect: " + "; ".join(bad),
              "both invalidations dominated by `self._is_disconnect`", f.loc)
    bad = []
    flag_names = set()
    for n in pinv:
        atoms = set(guard_atoms(g.edge_guards(n)))
        names = {a for a, p in atoms if p and a.isidentifier()}
        flag_names |= names
        if not names:
            bad.append(g.nodes[n].describe())
    # the guarding local must be the one derived from `not is_exit_exception` / ctx.invalidate_pool_on_disconnect
    binds = [(nm, v) for nm, v, _ in name_stores(f.node) if nm in flag_names and v is not None]
    from_ctx = any(isinstance(v, ast.Attribute) and v.attr == "invalidate_pool_on_disconnect" for _, v in binds)
    ctx.check(not bad and from_ctx, f.key + ":pool-only-when-asked",
              "pool._invalidate() is not controlled by the invalidate_pool_on_disconnect decision "
              "(a handle_error listener could not keep the rest of the pool)",
              "pool._invalidate under the (listener-adjustable) invalidate_pool_on_disconnect flag", f.loc)
    # (d) is_disconnect consulted only for DBAPI errors on an open connection
    pm = f.module.parents()
    isd = [c for c in calls_in(f.node) if (call_name(c) or "").endswith("dialect.is_disconnect")]
    ctx.require(isd, "dialect.is_disconnect() is not consulted in _handle_dbapi_exception")
    ok = True
    for c in isd:
        atoms = guard_atoms(lexical_guards(pm, c, stop=f.node))
        has_err = any(p and a.replace(" ", "").startswith(f"isinstance({f.params[1]},") and a.rstrip(")").endswith(".Error") for a, p in atoms)
        if not has_err or ("self.closed", False) not in atoms:
            ok = False
    ctx.check(ok, f.key + ":is-disconnect-preconditions",
              "dialect.is_disconnect() is consulted for a non-DBAPI exception or on a closed connection",
              "isinstance(e, dbapi.Error) and not self.closed and is_disconnect(...)", f.loc)
    # (e) listener verdict copied back before raising
    ctxn = {nm for nm, v, _ in name_stores(f.node) if isinstance(v, ast.Call) and (call_name(v) or "").endswith("ExceptionContextImpl")}
    ctx.require(len(ctxn) == 1, "no unique ExceptionContextImpl(...) local in _handle_dbapi_exception")
    cn = next(iter(ctxn))
    back = [n for d, t, st in attr_stores(f.node) if d == "self._is_disconnect" and isinstance(st, ast.Assign)
            and dotted(st.value) == f"{cn}.is_disconnect" for n in g.nodes_for(st)]
    loops = [n.id for n in g.nodes if n.kind == "for" and "handle_error" in unparse(n.stmt.iter)]
    ctx.require(loops, "no handle_error listener loop in _handle_dbapi_exception")
    raises = [n.id for n in g.nodes if n.kind == "stmt" and isinstance(n.stmt, ast.Raise) and not n.copy]
    same = test_edges(g, lambda t, p: p is True and t.replace(" ", "") in (
        f"self._is_disconnect=={cn}.is_disconnect", f"{cn}.is_disconnect==self._is_disconnect"))
    after_loop = [b for n in loops for b, lab in g.succ[n] if lab != "true" and lab != "exc"]
    brk = [n.id for n in g.nodes if isinstance(n.stmt, ast.Break) and any(x is n.stmt for x in ast.walk(g.nodes[loops[0]].stmt))]
    after_loop += [b for n in brk for b, lab in g.succ[n]]
    w = must_pass(g, after_loop, raises, back, edge_ok=both(no_exc, cut_edges(same))) if back else ["verdict never copied back"]
    ctx.check(w is None, f.key + ":listener-verdict-copied",
              "a handle_error listener's ctx.is_disconnect does not reach self._is_disconnect before the raise "
              "(the finally would invalidate / not invalidate against the listener's decision)",
              "self._is_disconnect = ctx.is_disconnect when they differ", f.loc, w if back else None)


@R.rule("C27-R3", floor=3, template="T-GUARD",
        desc="_revalidate_connection reconnects only when no transaction is pending "
             "(_invalid_transaction() otherwise); Connection.invalidate invalidates the pooled connection "
             "and nulls _dbapi_connection")
def r3(ctx):
    f = ctx.func(f"{ENG}::Connection._revalidate_connection")
    g = ctx.cfg(f)
    raw = calls_ending(g, "raw_connection")
    ctx.require(raw, "no engine.raw_connection() in _revalidate_connection")
    bad = [n for n in raw if ("self._transaction is None", True) not in guard_atoms(g.edge_guards(n))]
    ctx.check(not bad, f.key + ":no-reconnect-in-transaction",
              "a new DBAPI connection can be procured while self._transaction is still set: the lost "
              "transaction would silently continue on a fresh connection",
              "raw_connection() dominated by `self._transaction is None`", f.loc)
    pend = test_edges(g, lambda t, p: t == "self._transaction is None" and p is False)
    inv = calls_ending(g, "_invalid_transaction")
    r = g.reachable([b for _, _, b in pend]) if pend else set()
    w = must_pass(g, [b for _, _, b in pend], [g.exit, g.raise_exit], inv) if pend and inv else ["no _invalid_transaction()"]
    ctx.check(bool(pend) and bool(inv) and w is None and g.exit not in r, f.key + ":pending-raises",
              "with a pending transaction _revalidate_connection does not raise PendingRollbackError via _invalid_transaction()",
              "transaction pending -> _invalid_transaction() (NoReturn)", f.loc, w if pend and inv else None)
    f = ctx.func(f"{ENG}::Connection.invalidate")
    g = ctx.cfg(f)
    null = [n for d, t, st in attr_stores(f.node) if d == "self._dbapi_connection" and isinstance(st, ast.Assign)
            and isinstance(st.value, ast.Constant) and st.value.value is None for n in g.nodes_for(st)]
    already = test_edges(g, lambda t, p: t == "self.invalidated" and p is True)
    w = must_pass(g, [g.entry], [g.exit], null, edge_ok=both(no_exc, cut_edges(already))) if null else ["never nulled"]
    conn_names = {nm for nm, v, _ in name_stores(f.node) if v is not None and dotted(v) == "self._dbapi_connection"} | {"self._dbapi_connection"}
    pinv = call_nodes(g, lambda nm, c: nm.endswith(".invalidate") and nm.rsplit(".", 1)[0] in conn_names)
    notopen = test_edges(g, lambda t, p: t == "self._still_open_and_dbapi_connection_is_valid" and p is False)
    w2 = must_pass(g, [g.entry], [g.exit], pinv, edge_ok=both(no_exc, cut_edges(already + notopen))) if pinv else ["pooled connection never invalidated"]
    w3 = None
    for n in null:
        for p in pinv:
            if p in g.reachable([n], edge_ok=no_exc):
                w3 = ["_dbapi_connection is nulled before the pooled connection is invalidated"]
    ctx.check(w is None and w2 is None and w3 is None, f.key,
              "Connection.invalidate() can return with _dbapi_connection still set or without invalidating the pooled connection",
              "pooled.invalidate(exception) -> _dbapi_connection = None", f.loc, w or w2 or w3)


@R.rule("C27-R4", floor=6, template="T-GUARD",
        desc="= C23-R1: commit on an inactive (e.g. invalidated) transaction that is still current raises "
             "through _invalid_transaction() instead of acting")
def r4(ctx):
    commit_requires_active(ctx)


# ---------------------------------------------------------------------- self-test battery
R.mutant("commit-impl-unwrapped", ENG,
         sub("        try:\n            self.engine.dialect.do_commit(self.connection)\n        except BaseException as e:\n            self._handle_dbapi_exception(e, None, None, None, None)\n",
             "        self.engine.dialect.do_commit(self.connection)\n"), "C27-R1")
R.mutant("rollback-impl-handler-except-exception", ENG,
         sub("                self.engine.dialect.do_rollback(self.connection)\n            except BaseException as e:", "                self.engine.dialect.do_rollback(self.connection)\n            except Exception as e:"), "C27-R1")
R.mutant("new-unwrapped-do-call", ENG,
         sub("    def _commit_impl(self) -> None:\n", "    def _commit_impl(self) -> None:\n        self.engine.dialect.do_ping(self.connection)\n"), "C27-R1")
R.mutant("cursor-execute-handler-logs-only", ENG,
         sub("        except BaseException as e:\n            self._handle_dbapi_exception(\n                e, statement, parameters, cursor, context\n            )\n\n    def _safe_close_cursor",
             "        except BaseException as e:\n            self._log_debug(\"error %s\", e)\n            raise\n\n    def _safe_close_cursor"), "C27-R1")
R.mutant("handle-invalidate-not-in-finally", ENG,
         sub("        finally:\n            del self._reentrant_error\n            if self._is_disconnect:\n                del self._is_disconnect\n",
             "        finally:\n            del self._reentrant_error\n        if True:\n            if self._is_disconnect:\n                del self._is_disconnect\n"), "C27-R2")
R.mutant("handle-invalidate-only-with-pool", ENG,
         sub("                    if invalidate_pool_on_disconnect:\n                        self.engine.pool._invalidate(dbapi_conn_wrapper, e)\n                    self.invalidate(e)\n",
             "                    if invalidate_pool_on_disconnect:\n                        self.engine.pool._invalidate(dbapi_conn_wrapper, e)\n                        self.invalidate(e)\n"), "C27-R2")
R.mutant("handle-pool-invalidate-unconditional", ENG,
         sub("                    if invalidate_pool_on_disconnect:\n                        self.engine.pool._invalidate(dbapi_conn_wrapper, e)\n", "                    self.engine.pool._invalidate(dbapi_conn_wrapper, e)\n"), "C27-R2")
R.mutant("handle-invalidate-for-non-disconnect", ENG,
         sub("            del self._reentrant_error\n            if self._is_disconnect:\n                del self._is_disconnect\n                if not self.invalidated:",
             "            del self._reentrant_error\n            if True:\n                if self._is_disconnect:\n                    del self._is_disconnect\n                if not self.invalidated:"), "C27-R2")
R.mutant("handle-is-disconnect-on-any-exception", ENG,
         sub("                isinstance(e, self.dialect.loaded_dbapi.Error)\n                and not self.closed\n                and self.dialect.is_disconnect(", "                not self.closed\n                and self.dialect.is_disconnect("), "C27-R2")
R.mutant("handle-listener-verdict-ignored", ENG,
         sub("                if self._is_disconnect != ctx.is_disconnect:\n                    self._is_disconnect = ctx.is_disconnect\n                    if sqlalchemy_exception:",
             "                if self._is_disconnect != ctx.is_disconnect:\n                    if sqlalchemy_exception:"), "C27-R2")
R.mutant("revalidate-ignores-transaction", ENG,
         sub("            if self._transaction is not None:\n                self._invalid_transaction()\n            self._dbapi_connection = self.engine.raw_connection()", "            self._dbapi_connection = self.engine.raw_connection()"), "C27-R3")
R.mutant("revalidate-warns-instead-of-raising", ENG,
         sub("            if self._transaction is not None:\n                self._invalid_transaction()\n            self._dbapi_connection = self.engine.raw_connection()",
             "            if self._transaction is not None:\n                util.warn(\"transaction lost\")\n            self._dbapi_connection = self.engine.raw_connection()"), "C27-R3")
R.mutant("invalidate-keeps-dbapi-connection", ENG,
         sub("            pool_proxied_connection.invalidate(exception)\n\n        self._dbapi_connection = None\n", "            pool_proxied_connection.invalidate(exception)\n"), "C27-R3")
R.mutant("r4-root-commit-inactive-returns", ENG,
         sub("            if self.connection._transaction is self:\n                self.connection._invalid_transaction()\n            else:\n                raise exc.InvalidRequestError(\"This transaction is inactive\")",
             "            if self.connection._transaction is not self:\n                raise exc.InvalidRequestError(\"This transaction is inactive\")"), "C27-R4")
R.mutant("r4-nested-commit-unguarded", ENG,
         sub("    def _do_commit(self) -> None:\n        if self.is_active:\n            try:\n                self.connection._release_savepoint_impl(self._savepoint)",
             "    def _do_commit(self) -> None:\n        if self.is_active or self._savepoint:\n            try:\n                self.connection._release_savepoint_impl(self._savepoint)"), "C27-R4")
# benign refactors
R.mutant("benign-rename-handler-var", ENG,
         sub("        try:\n            self.engine.dialect.do_commit(self.connection)\n        except BaseException as e:\n            self._handle_dbapi_exception(e, None, None, None, None)\n",
             "        try:\n            self.engine.dialect.do_commit(self.connection)\n        except BaseException as err:\n            self._handle_dbapi_exception(err, None, None, None, None)\n"), None)
R.mutant("benign-handle-rename-local", ENG, sub("dbapi_conn_wrapper", "wrapper", count=3), None)
R.mutant("benign-invalidate-extra-log", ENG,
         sub("            pool_proxied_connection.invalidate(exception)\n\n        self._dbapi_connection = None\n", "            pool_proxied_connection.invalidate(exception)\n            self._log_debug(\"invalidated\")\n\n        self._dbapi_connection = None\n"), None)
