"""C27 -- A database disconnect invalidates the connection and blocks silent continuation."""

from __future__ import annotations

import ast

from ..astutil import (
    attr_stores, call_name, calls_in, dotted, enclosing_try, guard_atoms, lexical_guards, name_stores,
    test_atoms, unparse, walk_local,
)
from ..cfg import no_exc
from ..report import Registry, sub, chain
from ._helpers_rules_c import (
    both, call_nodes, calls_ending, calm, cut_edges, must_pass, outcome, test_edges,
)
from ._helpers_str_l import contradicted, flag_aliases, implying
from ._helpers_rob_a import fin_quiet, helper_callers, normal_form
from ._helpers_str2_l import UNKNOWN, Raises, model_cut
from ..oracles import load as load_oracle
from .c23 import commit_requires_active

R = Registry(
    "C27",
    title="A database disconnect invalidates the connection and blocks silent continuation",
    decides=(
        "handler coverage and finally obligations of the disconnect path: every dialect.do_*() call in "
        "Connection is wrapped by a BaseException handler that routes to _handle_dbapi_exception (six "
        "reasoned exceptions); _handle_dbapi_exception invalidates the connection in its finally on every "
        "raise under _is_disconnect, invalidates the pool only when asked to, never touches pool or "
        "connection for non-disconnect errors, consults dialect.is_disconnect only for DBAPI errors on an "
        "open connection and copies back the handle_error listener's verdict; _revalidate_connection "
        "refuses to reconnect inside a transaction; commit on an invalidated transaction raises; the per-call "
        "error state kept on the Connection (_reentrant_error, _is_disconnect: class default shadowed on the "
        "instance) is back at its default on every exit of the handler, so one error's disconnect verdict never "
        "decides the next error's (the in-progress flag that gates autobegin -- the premise of the "
        "transaction-pending gate -- is the same obligation for the `= True/= False` spelling: C23-R7); of the "
        "transaction-control primitives that the Transaction classes call on the Connection, the undo operations "
        "(do_rollback*) are skipped on a connection that is no longer open and valid, all others reach the dialect on "
        "every normal path (they raise instead of succeeding silently on a lost transaction); Pool._invalidate "
        "renews the generation stamp whenever the failed connection has no pool record or a record newer than the stamp."
    ),
    not_decided="which driver errors each dialect's is_disconnect() recognises; behaviour of user handle_error listeners.",
)

ENG = "engine/base.py"
FLAG = "self._is_disconnect"


def _nf(ctx, f, *keep, alias="dotted"):
    """Function (key or FuncInfo) in refactoring-robust normal form (extracted helpers inlined, single-assignment
    locals resolved; see _helpers_rob_a).  `keep`: the callee names the rule recognises by name."""
    if isinstance(f, str):
        f = ctx.func(f)
    return normal_form(ctx, f, keep=keep, alias=alias)


def _snapshot_aliases(ctx, f, g, flag):
    """Locals that are a snapshot of `flag` (`was = self._is_disconnect`), usable in its place in a test.
    A snapshot that can be followed by a new assignment of the flag is stale: unknown idiom."""
    alias = flag_aliases(f.node, flag)
    if alias:
        binds = [n for nm, v, st in name_stores(f.node) if nm in alias for n in g.nodes_for(st)]
        later = g.reachable([b for n in binds for b, lab in g.succ[n] if lab != "exc"], edge_ok=no_exc)
        stores = [n for d, t, st in attr_stores(f.node) if d == flag and isinstance(st, (ast.Assign, ast.AnnAssign, ast.AugAssign))
                  for n in g.nodes_for(st)]
        ctx.require(not (set(stores) & later),
                    f"{f.qualname}: a local snapshot of {flag} ({sorted(alias)}) is taken before the flag is assigned again")
    return alias

# C27-R1: do_* calls that are deliberately not wrapped, with the reason
UNWRAPPED_OK = {
    f"{ENG}::Connection._savepoint_impl:do_savepoint": "dialect implementation issues SAVEPOINT through connection.execute(), which is wrapped",
    f"{ENG}::Connection._rollback_to_savepoint_impl:do_rollback_to_savepoint": "issues ROLLBACK TO SAVEPOINT through connection.execute()",
    f"{ENG}::Connection._release_savepoint_impl:do_release_savepoint": "issues RELEASE SAVEPOINT through connection.execute()",
    f"{ENG}::Connection.recover_twophase:do_recover_twophase": "dialect implementations run their SQL through connection.execute()",
    f"{ENG}::Connection.rollback_prepared:do_rollback_twophase": "dialect implementations run their SQL through connection.execute()",
    f"{ENG}::Connection.commit_prepared:do_commit_twophase": "dialect implementations run their SQL through connection.execute()",
}


def _is_dialect_do(c: ast.Call) -> bool:
    f = c.func
    if not (isinstance(f, ast.Attribute) and f.attr.startswith("do_")):
        return False
    recv = dotted(f.value) or ""
    return recv == "dialect" or recv.endswith(".dialect")


def _wrapped(pm, c) -> bool:
    """Is call `c` in the body of a try whose `except BaseException as e` calls self._handle_dbapi_exception(e, ...)?"""
    for t, part in enclosing_try(pm, c):
        if part != "body":
            continue
        for h in t.handlers:
            tn = (dotted(h.type) or "") if h.type is not None else "BaseException"
            if tn.split(".")[-1] != "BaseException" or not h.name:
                continue
            for hc in calls_in(ast.Module(body=h.body, type_ignores=[])):
                if call_name(hc) == "self._handle_dbapi_exception" and hc.args \
                        and isinstance(hc.args[0], ast.Name) and hc.args[0].id == h.name:
                    return True
    return False


@R.rule("C27-R1", floor=20, template="T-GUARD",
        desc="every dialect.do_*() call inside class Connection sits in a try whose BaseException handler "
             "calls self._handle_dbapi_exception(e, ...); the unwrapped ones are a frozen, reasoned list")
def r1(ctx):
    cls = ctx.index.cls(f"{ENG}::Connection")
    pm = cls.module.parents()
    seen = set()
    for name, m in sorted(cls.methods.items()):
        for c in calls_in(m.node, into_nested=True):
            if not _is_dialect_do(c):
                continue
            ctx.functions_analysed.add(m.key)
            key = f"{m.key}:{c.func.attr}"
            n = 2
            while key in seen:
                key = f"{m.key}:{c.func.attr}#{n}"
                n += 1
            seen.add(key)
            wrapped = _wrapped(pm, c)
            via = ""
            if not wrapped:
                # the bare call may have been extracted into a private helper that is only called from
                # inside such a try block
                callers = helper_callers(ctx.index, m)
                sites = [hc for ck in (callers or []) if ck != m.key and ck.split("::")[1].split(".")[0] == cls.name
                         for hc in calls_in(ctx.index.func(ck).node, into_nested=True)
                         if isinstance(hc.func, ast.Attribute) and hc.func.attr == m.name]
                if sites and all(_wrapped(pm, hc) for hc in sites):
                    wrapped, via = True, f" (at every call of the private helper {m.name})"
            loc = f"{m.module.path}:{c.lineno}"
            if not wrapped and key not in UNWRAPPED_OK:
                # a reasoned bare call moved into a private helper of its (only) caller keeps the caller's entry
                owners = {ck for ck in (helper_callers(ctx.index, m) or [])
                          if ck != m.key and ck.split("::")[1].split(".")[0] == cls.name}
                moved = [f"{ck}:{c.func.attr}" for ck in owners]
                if len(moved) == 1 and moved[0] in UNWRAPPED_OK and moved[0] not in seen:
                    key = moved[0]
                    seen.add(key)
            if wrapped:
                ctx.ok(key, "try/except BaseException -> _handle_dbapi_exception(e, ...)" + via)
            elif key in UNWRAPPED_OK:
                ctx.ok(key, "unwrapped by design: " + UNWRAPPED_OK[key], nontrivial=False)
            else:
                ctx.violation(key, f"`{unparse(c.func)}(...)` can raise a DBAPI error that bypasses "
                                   "_handle_dbapi_exception: a disconnect here is neither classified nor "
                                   "invalidates the connection", loc)
    stale = [k for k in UNWRAPPED_OK if k not in seen]
    ctx.require(not stale, f"exception-table entries no longer match a call site: {stale}")


@R.rule("C27-R2", floor=5, template="T-PATH",
        desc="_handle_dbapi_exception: connection invalidated in the finally on every raise under "
             "_is_disconnect; pool invalidated only under invalidate_pool_on_disconnect; nothing invalidated "
             "for non-disconnects; is_disconnect consulted only for DBAPI errors on an open connection; "
             "handle_error verdict copied back")
def r2(ctx):
    f = _nf(ctx, f"{ENG}::Connection._handle_dbapi_exception", "invalidate", "_invalidate", "is_disconnect", alias=None)
    g = ctx.cfg(f)
    inv = call_nodes(g, lambda nm, c: nm == "self.invalidate")
    pinv = call_nodes(g, lambda nm, c: nm.endswith("pool._invalidate"))
    names = {call_name(c) or "" for c in calls_in(f.node)}
    ctx.require("self.invalidate" in names, "no self.invalidate() call in _handle_dbapi_exception")
    ctx.require(any(n.endswith("pool._invalidate") for n in names), "no pool._invalidate() call in _handle_dbapi_exception")
    live = g.reachable([g.entry])
    inv = [n for n in inv if n in live]      # (the normal-continuation copy of the finally is dead: the try always raises)
    pinv = [n for n in pinv if n in live]
    enter = [n for d, t, st in attr_stores(f.node) if d == "self._reentrant_error" and isinstance(st, ast.Assign) for n in g.nodes_for(st)]
    ctx.require(enter, "_handle_dbapi_exception no longer marks re-entrance before its try block")
    # (a) every exit of the guarded block invalidates when _is_disconnect.  The obligation is conditional:
    # it holds for a disconnect on a connection that is not invalidated yet, so every branch outcome that is
    # impossible under {_is_disconnect, not invalidated} is cut -- whatever the shape of the test
    # (nested ifs, one flattened `a and not b`, a local snapshot of the flag taken in the finally).
    alias = _snapshot_aliases(ctx, f, g, FLAG)
    skip = contradicted(g, {FLAG: True, "self.invalidated": False}, alias, only_copies=True) \
        + contradicted(g, {"self.invalidated": False}, alias, only_copies=False)
    starts = [b for n in enter for b, lab in g.succ[n] if lab != "exc"]
    w = must_pass(g, starts, [g.exit, g.raise_exit], inv, edge_ok=both(fin_quiet(g), cut_edges(skip))) if inv else \
        ["self.invalidate(e) is unreachable: the guarded block always raises, only a finally can run after it"]
    ctx.check(w is None, f.key + ":invalidate-on-every-raise",
              "an exit of _handle_dbapi_exception under _is_disconnect leaves the Connection valid "
              "(the dead DBAPI connection would be used again)",
              "finally: if _is_disconnect and not invalidated: self.invalidate(e)", f.loc, w)
    # (b)+(c) guards of the two invalidations
    bad = []
    for n in inv + pinv:
        atoms = {(alias.get(a, a), p) for a, p in guard_atoms(g.edge_guards(n))}
        if (FLAG, True) not in atoms:
            bad.append(g.nodes[n].describe())
    ctx.check(not bad, f.key + ":only-on-disconnect",
              "pool / connection invalidation is reachable for an error that is not a disconnect: " + "; ".join(bad),
              "both invalidations dominated by `self._is_disconnect`", f.loc)
    bad = []
    flag_names = set()
    for n in pinv:
        atoms = set(guard_atoms(g.edge_guards(n)))
        names = {a for a, p in atoms if p and a.isidentifier() and a not in alias}
        flag_names |= names
        if not names:
            bad.append(g.nodes[n].describe())
    # the guarding local must be the one derived from `not is_exit_exception` / ctx.invalidate_pool_on_disconnect
    binds = [(nm, v) for nm, v, _ in name_stores(f.node) if nm in flag_names and v is not None]
    from_ctx = any(isinstance(v, ast.Attribute) and v.attr == "invalidate_pool_on_disconnect" for _, v in binds)
    ctx.check(not bad and from_ctx, f.key + ":pool-only-when-asked",
              "pool._invalidate() is not controlled by the invalidate_pool_on_disconnect decision "
              "(a handle_error listener could not keep the rest of the pool)",
              "pool._invalidate under the (listener-adjustable) invalidate_pool_on_disconnect flag", f.loc)
    # (d) is_disconnect consulted only for DBAPI errors on an open connection
    pm = f.pm
    isd = [c for c in calls_in(f.node) if (call_name(c) or "").endswith("dialect.is_disconnect")]
    ctx.require(isd, "dialect.is_disconnect() is not consulted in _handle_dbapi_exception")
    ok = True
    for c in isd:
        atoms = guard_atoms(lexical_guards(pm, c, stop=f.node))
        has_err = any(p and a.replace(" ", "").startswith(f"isinstance({f.params[1]},") and a.rstrip(")").endswith(".Error") for a, p in atoms)
        if not has_err or ("self.closed", False) not in atoms:
            ok = False
    ctx.check(ok, f.key + ":is-disconnect-preconditions",
              "dialect.is_disconnect() is consulted for a non-DBAPI exception or on a closed connection",
              "isinstance(e, dbapi.Error) and not self.closed and is_disconnect(...)", f.loc)
    # (e) listener verdict copied back before raising
    ctxn = {nm for nm, v, _ in name_stores(f.node) if isinstance(v, ast.Call) and (call_name(v) or "").endswith("ExceptionContextImpl")}
    ctx.require(len(ctxn) == 1, "no unique ExceptionContextImpl(...) local in _handle_dbapi_exception")
    cn = next(iter(ctxn))
    back = [n for d, t, st in attr_stores(f.node) if d == "self._is_disconnect" and isinstance(st, ast.Assign)
            and dotted(st.value) == f"{cn}.is_disconnect" for n in g.nodes_for(st)]
    loops = [n.id for n in g.nodes if n.kind == "for" and "handle_error" in unparse(n.stmt.iter)]
    ctx.require(loops, "no handle_error listener loop in _handle_dbapi_exception")
    raises = [n.id for n in g.nodes if n.kind == "stmt" and isinstance(n.stmt, ast.Raise) and not n.copy]
    same = test_edges(g, lambda t, p: p is True and t.replace(" ", "") in (
        f"self._is_disconnect=={cn}.is_disconnect", f"{cn}.is_disconnect==self._is_disconnect"))
    after_loop = [b for n in loops for b, lab in g.succ[n] if lab != "true" and lab != "exc"]
    brk = [n.id for n in g.nodes if isinstance(n.stmt, ast.Break) and any(x is n.stmt for x in ast.walk(g.nodes[loops[0]].stmt))]
    after_loop += [b for n in brk for b, lab in g.succ[n]]
    w = must_pass(g, after_loop, raises, back, edge_ok=both(no_exc, cut_edges(same))) if back else ["verdict never copied back"]
    ctx.check(w is None, f.key + ":listener-verdict-copied",
              "a handle_error listener's ctx.is_disconnect does not reach self._is_disconnect before the raise "
              "(the finally would invalidate / not invalidate against the listener's decision)",
              "self._is_disconnect = ctx.is_disconnect when they differ", f.loc, w if back else None)


@R.rule("C27-R3", floor=3, template="T-GUARD",
        desc="_revalidate_connection reconnects only when no transaction is pending "
             "(_invalid_transaction() otherwise); Connection.invalidate invalidates the pooled connection "
             "and nulls _dbapi_connection")
def r3(ctx):
    f = _nf(ctx, f"{ENG}::Connection._revalidate_connection", "raw_connection", "_invalid_transaction")
    g = ctx.cfg(f)
    raw = calls_ending(g, "raw_connection")
    ctx.require(raw, "no engine.raw_connection() in _revalidate_connection")
    bad = [n for n in raw if ("self._transaction is None", True) not in guard_atoms(g.edge_guards(n))]
    ctx.check(not bad, f.key + ":no-reconnect-in-transaction",
              "a new DBAPI connection can be procured while self._transaction is still set: the lost "
              "transaction would silently continue on a fresh connection",
              "raw_connection() dominated by `self._transaction is None`", f.loc)
    pend = test_edges(g, lambda t, p: t == "self._transaction is None" and p is False)
    inv = calls_ending(g, "_invalid_transaction")
    r = g.reachable([b for _, _, b in pend]) if pend else set()
    w = must_pass(g, [b for _, _, b in pend], [g.exit, g.raise_exit], inv) if pend and inv else ["no _invalid_transaction()"]
    ctx.check(bool(pend) and bool(inv) and w is None and g.exit not in r, f.key + ":pending-raises",
              "with a pending transaction _revalidate_connection does not raise PendingRollbackError via _invalid_transaction()",
              "transaction pending -> _invalid_transaction() (NoReturn)", f.loc, w if pend and inv else None)
    f = _nf(ctx, f"{ENG}::Connection.invalidate", "invalidate")
    g = ctx.cfg(f)
    null = [n for d, t, st in attr_stores(f.node) if d == "self._dbapi_connection" and isinstance(st, ast.Assign)
            and isinstance(st.value, ast.Constant) and st.value.value is None for n in g.nodes_for(st)]
    already = test_edges(g, lambda t, p: t == "self.invalidated" and p is True)
    w = must_pass(g, [g.entry], [g.exit], null, edge_ok=both(no_exc, cut_edges(already))) if null else ["never nulled"]
    conn_names = {nm for nm, v, _ in name_stores(f.node) if v is not None and dotted(v) == "self._dbapi_connection"} | {"self._dbapi_connection"}
    pinv = call_nodes(g, lambda nm, c: nm.endswith(".invalidate") and nm.rsplit(".", 1)[0] in conn_names)
    notopen = test_edges(g, lambda t, p: t == "self._still_open_and_dbapi_connection_is_valid" and p is False)
    w2 = must_pass(g, [g.entry], [g.exit], pinv, edge_ok=both(no_exc, cut_edges(already + notopen))) if pinv else ["pooled connection never invalidated"]
    w3 = None
    for n in null:
        for p in pinv:
            if p in g.reachable([n], edge_ok=no_exc):
                w3 = ["_dbapi_connection is nulled before the pooled connection is invalidated"]
    ctx.check(w is None and w2 is None and w3 is None, f.key,
              "Connection.invalidate() can return with _dbapi_connection still set or without invalidating the pooled connection",
              "pooled.invalidate(exception) -> _dbapi_connection = None", f.loc, w or w2 or w3)


@R.rule("C27-R4", floor=6, template="T-GUARD",
        desc="= C23-R1: commit on an inactive (e.g. invalidated) transaction that is still current raises "
             "through _invalid_transaction() instead of acting")
def r4(ctx):
    commit_requires_active(ctx)


# ---------------------------------------------------------------------- C27-R5
# Per-call state kept on the long-lived object.  A class-level constant (`_is_disconnect = False`) that some
# method shadows on the instance and removes again with `del self.X` (or puts back with `self.X = <default>`
# in the same method) is *transient*: outside the call that set it, every reader expects the class default.  The error handler classifies an error only when the flag
# is still at its default (`if not self._is_disconnect: self._is_disconnect = ...`), so a value that survives
# the call decides the fate of the NEXT error: a leaked True makes any later error a "disconnect" (connection
# and pool invalidated for an ordinary error) -- the opposite clause of the property.
TRANSIENT_SCOPE = (ENG, "pool/base.py")


def _const_default(values):
    """The class-level default if it is one constant, else `...`."""
    if len(values) == 1 and isinstance(values[0], ast.Constant):
        return values[0].value
    return ...


def _transient_sites(ctx):
    """[(FuncInfo, attr, default)] -- methods that give a transient attribute a non-default value."""
    out = []
    for rel in TRANSIENT_SCOPE:
        m = ctx.index.module(rel)
        if "del self." not in m.source:
            continue
        for cls in m.classes.values():
            defaults = {a: _const_default(v) for a, v in cls.assigns.items()}
            defaults = {a: d for a, d in defaults.items() if d is not ...}
            if not defaults:
                continue
            transient = set()
            for fm in cls.methods.values():
                on, off = set(), set()
                for d, t, st in attr_stores(fm.node):
                    if not (d.startswith("self.") and d[5:] in defaults):
                        continue
                    if isinstance(st, ast.Delete):
                        transient.add(d[5:])
                    elif _is_default(st, defaults[d[5:]]):
                        off.add(d[5:])
                    else:
                        on.add(d[5:])
                transient |= on & off       # same idiom spelled `self.X = <default>` instead of `del self.X`
            for fm in sorted(cls.methods.values(), key=lambda x: x.node.lineno):
                for attr in sorted(transient):
                    if any(d == f"self.{attr}" and not isinstance(st, ast.Delete) and not _is_default(st, defaults[attr])
                           for d, t, st in attr_stores(fm.node)):
                        out.append((fm, attr, defaults[attr]))
    return out


def _is_default(st, default) -> bool:
    v = getattr(st, "value", None)
    return isinstance(st, (ast.Assign, ast.AnnAssign)) and isinstance(v, ast.Constant) and v.value is default


@R.rule("C27-R5", floor=2, template="T-PATH",
        desc="per-call state of the long-lived object (class-level constant shadowed on the instance and removed "
             "with `del self.X`: _reentrant_error, _is_disconnect) is back at its class default on every exit of "
             "the method that set it: each exit passes `del self.X` / `self.X = <default>` or a branch that has "
             "just tested the value false (nested activations under the re-entrance guard are the outer call's)")
def r5(ctx):
    sites = _transient_sites(ctx)
    sites = [(_nf(ctx, f, "invalidate", "_invalidate", "is_disconnect", alias=None), attr, default) for f, attr, default in sites]
    for f, attr, default in sites:
        ctx.functions_analysed.add(f.key)
        flag = f"self.{attr}"
        g = ctx.cfg(f)
        alias = _snapshot_aliases(ctx, f, g, flag)
        sets, clears = [], []
        for d, t, st in attr_stores(f.node):
            if d != flag:
                continue
            if isinstance(st, ast.Delete) or _is_default(st, default):
                clears += g.nodes_for(st)
            else:
                sets += g.nodes_for(st)
        # a branch that can only be taken when the value is falsy leaves nothing to clean up
        falsy = implying(g, flag, False, alias) if not default else []
        # re-entrance guard: `if self.G: raise` evaluated before `self.G = True ... finally: del self.G` -- a call
        # that finds G set runs inside the protected region of an outer activation, whose finally cleans up
        nested = []
        for f2, a2, d2 in sites:
            if f2 is not f or a2 == attr:
                continue
            g_on = [n for d, t, st in attr_stores(f.node) if d == f"self.{a2}" and isinstance(st, ast.Assign)
                    and isinstance(st.value, ast.Constant) and st.value.value is True for n in g.nodes_for(st)]
            for a, lab, b in implying(g, f"self.{a2}", True):
                if g_on and set(g_on) <= g.reachable([a]) and not (set(g_on) & g.reachable([b], edge_ok=no_exc)):
                    nested.append((a, lab, b))
        w = must_pass(g, sets, [g.exit, g.raise_exit], clears,
                      edge_ok=both(fin_quiet(g), calm(g), cut_edges(falsy + nested)),
                      start_edge_ok=no_exc) if sets and clears else ["the value is never removed in this function"]
        sticky = any((flag, False) in {(alias.get(a, a), p) for a, p in guard_atoms(g.edge_guards(n))} for n in sets)
        readers = sorted({m.qualname for m in f.cls.methods.values() if m.key != f.key and any(
            isinstance(x, ast.Attribute) and isinstance(x.ctx, ast.Load) and dotted(x) == flag for x in walk_local(m.node))})
        ctx.check(w is None, f"{f.key}:{attr}:default-restored-on-every-exit",
                  f"an exit of {f.qualname} after `{flag} = ...` neither removes the instance value (`del {flag}`) nor "
                  f"has just tested it false: the per-call state outlives the call (every other call expects the class "
                  f"default {default!r})"
                  + ("; the function recomputes it only when it is false, so a leaked true value is permanent and decides "
                     "how every later error on this object is handled" if sticky else "")
                  + (f" (also read by {', '.join(readers)})" if readers else ""),
                  f"`del {flag}` / tested false on every exit after the store", f.loc, w)


# ---------------------------------------------------------------------- C27-R6
# "... if a transaction was in progress further use raises until rollback() is called".  The Transaction objects of
# engine/base.py drive the database through a small layer of Connection primitives (`self.connection._x_impl(...)`),
# each of which hands one transaction-control operation to the dialect.  On a Connection whose DBAPI connection is
# gone the two kinds of operation behave in opposite ways: an *undo* is skipped and succeeds (that is the rollback()
# the application has to call), everything else must reach the dialect -- its use of the connection runs into
# _revalidate_connection()/_invalid_transaction() and raises -- and must never return as if it had been done.
POOL = "pool/base.py"
VALID = "_still_open_and_dbapi_connection_is_valid"


def _txn_primitives(ctx, cls):
    """Connection methods that Transaction classes of the module call on their connection, with the normal form of
    each and the transaction-control dialect calls found in it."""
    ops = load_oracle("dialect_transaction_ops.json")
    kind = {o: "undo" for o in ops["undo"]}
    kind.update({o: "forward" for o in ops["forward"]})
    base = ctx.index.cls(f"{ENG}::Transaction")
    called = set()
    for c in ctx.index.all_classes():
        if c.module is not cls.module or not ctx.index.is_subclass(c, base):
            continue
        for m in c.methods.values():
            for call in calls_in(m.node):
                fn = call.func
                if isinstance(fn, ast.Attribute) and (dotted(fn.value) or "").split(".")[-1] == "connection":
                    called.add(fn.attr)
    out = []
    for name in sorted(called):
        m = cls.methods.get(name)
        if m is None:
            continue
        nf = _nf(ctx, m, "_handle_dbapi_exception", "_invalid_transaction", alias="all")
        g = ctx.cfg(nf)
        sites = [(n, c) for n in g.nodes for c in _own_calls(n) if _is_dialect_do(c) and c.func.attr in kind]
        if sites:
            out.append((m, nf, g, sites, kind))
    return out


def _own_calls(n):
    from ._helpers_rules_c import own_calls
    return own_calls(n)


@R.rule("C27-R6", floor=8, template="T-TABLE/T-GUARD",
        desc="transaction-control primitives of Connection on a connection lost to a disconnect: an undo operation "
             "(do_rollback*, oracle dialect_transaction_ops.json) is attempted only while the DBAPI connection is still "
             "open and valid -- rollback() is how the application acknowledges the loss and must succeed; every other "
             "operation (begin / savepoint / release / prepare / commit) reaches the dialect on every normal path, so "
             "that it raises instead of silently 'succeeding' on the lost transaction")
def r6(ctx):
    cls = ctx.index.cls(f"{ENG}::Connection")
    vp = ctx.method(cls.key, VALID)
    vnf = _nf(ctx, vp, alias="all")
    rets = [r for r in walk_local(vnf.node) if isinstance(r, ast.Return) and r.value is not None]
    ctx.require(len(rets) == 1, f"{VALID} is no longer a single boolean expression")
    definition = set(test_atoms(rets[0].value, True))
    prims = _txn_primitives(ctx, cls)
    ctx.require(prims, "no Connection primitive called by the Transaction classes hands a transaction operation to the dialect")
    for m, nf, g, sites, kind in prims:
        for op in sorted({c.func.attr for _, c in sites}):
            nodes = [n.id for n, c in sites if c.func.attr == op]
            key = f"{m.key}:{op}"
            if kind[op] == "undo":
                bad = []
                for n in nodes:
                    atoms = set(guard_atoms(g.edge_guards(n)))
                    if (f"self.{VALID}", True) not in atoms and not definition <= atoms:
                        bad.append(g.nodes[n].describe())
                ctx.check(not bad, key + ":skipped-on-dead-connection",
                          f"`dialect.{op}()` is attempted without the test that the DBAPI connection is still open and valid "
                          f"({'; '.join(bad)}): on an invalidated connection the undo runs into _revalidate_connection() and "
                          "raises PendingRollbackError -- the rollback() that is supposed to end that state can never succeed",
                          f"under `self.{VALID}`", m.loc)
            else:
                w = must_pass(g, [g.entry], [g.exit], nodes, edge_ok=no_exc)
                skipping = [unparse(t) for n in nodes for t, pol in g.edge_guards(n)]
                ctx.check(w is None, key + ":never-skipped",
                          f"{m.qualname} can return normally without calling `dialect.{op}()`"
                          + (f" (the call is conditional on {', '.join('`%s`' % t for t in sorted(set(skipping)))})" if skipping else "")
                          + f": {op[3:].replace('_', ' ')} is not an undo operation -- on a connection invalidated by a disconnect "
                          "it has to reach the dialect, whose use of the connection raises PendingRollbackError until rollback() "
                          "is called; skipped, the transaction object 'succeeds' on work that was lost",
                          "every normal exit has passed the dialect call", m.loc, w)


# ---------------------------------------------------------------------- C27-R7
# "... pooled connections opened before the failure are not reused".  Pool._invalidate(connection) renews the pool's
# generation stamp; the only reason not to is that the stamp is already not older than the failed connection's record.
# Decided by evaluating the function's branch tests in the two models in which that reason does not exist.
@R.rule("C27-R7", floor=2, template="T-GUARD",
        desc="Pool._invalidate renews the generation stamp (_invalidate_time) whenever it is not known to be newer "
             "than the failed connection: when the connection has no pool record (detached), and when its record "
             "started after the current stamp -- branch tests evaluated in those two models, whatever their shape")
def r7(ctx):
    f = _nf(ctx, f"{POOL}::Pool._invalidate", "invalidate", alias="all")
    g = ctx.cfg(f)
    conn = f.params[1]
    stamps = [n for d, t, st in attr_stores(f.node) if d == "self._invalidate_time" and isinstance(st, (ast.Assign, ast.AnnAssign))
              for n in g.nodes_for(st)]
    ctx.require(stamps, "Pool._invalidate no longer assigns self._invalidate_time")

    def is_record_read(e):
        if isinstance(e, ast.Attribute) and e.attr == "_connection_record" and dotted(e.value) == conn:
            return True
        return isinstance(e, ast.Call) and call_name(e) == "getattr" and len(e.args) >= 2 and dotted(e.args[0]) == conn \
            and isinstance(e.args[1], ast.Constant) and e.args[1].value == "_connection_record"
    binds = {}
    for nm, v, st in name_stores(f.node):
        binds.setdefault(nm, []).append(v)
    recs = {nm for nm, vs in binds.items() if all(v is not None and is_record_read(v) for v in vs)}
    ctx.require(recs or any(is_record_read(x) for x in ast.walk(f.node)),
                f"Pool._invalidate no longer reads `{conn}._connection_record`")

    class _Rec:
        pass
    models = {
        "no-pool-record": (None, None, None,
                           "the failed connection has no pool record (it was detach()ed)"),
        "record-newer-than-stamp": (_Rec(), 5.0, 10.0,
                                    "the failed connection was opened after the last invalidation"),
    }
    for name, (rec, stamp, start, text) in models.items():
        def leaf(e, rec=rec, stamp=stamp, start=start):
            if (isinstance(e, ast.Name) and e.id in recs) or is_record_read(e):
                return rec
            if isinstance(e, ast.Attribute) and e.attr == "starttime" and \
                    ((isinstance(e.value, ast.Name) and e.value.id in recs) or is_record_read(e.value)):
                if rec is None:
                    raise Raises("starttime of None")
                return start
            if dotted(e) == "self._invalidate_time":
                return UNKNOWN if stamp is None else stamp
            if isinstance(e, (ast.Name, ast.Attribute, ast.Call, ast.Subscript)):
                return UNKNOWN
            return NotImplemented
        cut = model_cut(g, leaf)
        w = must_pass(g, [g.entry], [g.exit], stamps, edge_ok=both(no_exc, cut_edges(cut)))
        ctx.check(w is None, f"{f.key}:stamp-renewed[{name}]",
                  f"when {text}, Pool._invalidate() can return without renewing `self._invalidate_time`: the connections "
                  "opened before the disconnect keep their place in the pool and are handed out again (each has to fail on "
                  "its own), although the error was classified as a disconnect with invalidate_pool_on_disconnect",
                  "self._invalidate_time = time.time() on every path", f.loc, w)


# ---------------------------------------------------------------------- self-test battery
R.mutant("commit-impl-unwrapped", ENG,
         sub("        try:\n            self.engine.dialect.do_commit(self.connection)\n        except BaseException as e:\n            self._handle_dbapi_exception(e, None, None, None, None)\n",
             "        self.engine.dialect.do_commit(self.connection)\n"), "C27-R1")
R.mutant("rollback-impl-handler-except-exception", ENG,
         sub("                self.engine.dialect.do_rollback(self.connection)\n            except BaseException as e:", "                self.engine.dialect.do_rollback(self.connection)\n            except Exception as e:"), "C27-R1")
R.mutant("new-unwrapped-do-call", ENG,
         sub("    def _commit_impl(self) -> None:\n", "    def _commit_impl(self) -> None:\n        self.engine.dialect.do_ping(self.connection)\n"), "C27-R1")
R.mutant("cursor-execute-handler-logs-only", ENG,
         sub("        except BaseException as e:\n            self._handle_dbapi_exception(\n                e, statement, parameters, cursor, context\n            )\n\n    def _safe_close_cursor",
             "        except BaseException as e:\n            self._log_debug(\"error %s\", e)\n            raise\n\n    def _safe_close_cursor"), "C27-R1")
R.mutant("handle-invalidate-not-in-finally", ENG,
         sub("        finally:\n            del self._reentrant_error\n            if self._is_disconnect:\n                del self._is_disconnect\n",
             "        finally:\n            del self._reentrant_error\n        if True:\n            if self._is_disconnect:\n                del self._is_disconnect\n"), "C27-R2")
R.mutant("handle-invalidate-only-with-pool", ENG,
         sub("                    if invalidate_pool_on_disconnect:\n                        self.engine.pool._invalidate(dbapi_conn_wrapper, e)\n                    self.invalidate(e)\n",
             "                    if invalidate_pool_on_disconnect:\n                        self.engine.pool._invalidate(dbapi_conn_wrapper, e)\n                        self.invalidate(e)\n"), "C27-R2")
R.mutant("handle-pool-invalidate-unconditional", ENG,
         sub("                    if invalidate_pool_on_disconnect:\n                        self.engine.pool._invalidate(dbapi_conn_wrapper, e)\n", "                    self.engine.pool._invalidate(dbapi_conn_wrapper, e)\n"), "C27-R2")
R.mutant("handle-invalidate-for-non-disconnect", ENG,
         sub("            del self._reentrant_error\n            if self._is_disconnect:\n                del self._is_disconnect\n                if not self.invalidated:",
             "            del self._reentrant_error\n            if True:\n                if self._is_disconnect:\n                    del self._is_disconnect\n                if not self.invalidated:"), "C27-R2")
R.mutant("handle-is-disconnect-on-any-exception", ENG,
         sub("                isinstance(e, self.dialect.loaded_dbapi.Error)\n                and not self.closed\n                and self.dialect.is_disconnect(", "                not self.closed\n                and self.dialect.is_disconnect("), "C27-R2")
R.mutant("handle-listener-verdict-ignored", ENG,
         sub("                if self._is_disconnect != ctx.is_disconnect:\n                    self._is_disconnect = ctx.is_disconnect\n                    if sqlalchemy_exception:",
             "                if self._is_disconnect != ctx.is_disconnect:\n                    if sqlalchemy_exception:"), "C27-R2")
R.mutant("revalidate-ignores-transaction", ENG,
         sub("            if self._transaction is not None:\n                self._invalid_transaction()\n            self._dbapi_connection = self.engine.raw_connection()", "            self._dbapi_connection = self.engine.raw_connection()"), "C27-R3")
R.mutant("revalidate-warns-instead-of-raising", ENG,
         sub("            if self._transaction is not None:\n                self._invalid_transaction()\n            self._dbapi_connection = self.engine.raw_connection()",
             "            if self._transaction is not None:\n                util.warn(\"transaction lost\")\n            self._dbapi_connection = self.engine.raw_connection()"), "C27-R3")
R.mutant("invalidate-keeps-dbapi-connection", ENG,
         sub("            pool_proxied_connection.invalidate(exception)\n\n        self._dbapi_connection = None\n", "            pool_proxied_connection.invalidate(exception)\n"), "C27-R3")
R.mutant("r4-root-commit-inactive-returns", ENG,
         sub("            if self.connection._transaction is self:\n                self.connection._invalid_transaction()\n            else:\n                raise exc.InvalidRequestError(\"This transaction is inactive\")",
             "            if self.connection._transaction is not self:\n                raise exc.InvalidRequestError(\"This transaction is inactive\")"), "C27-R4")
R.mutant("r4-nested-commit-unguarded", ENG,
         sub("    def _do_commit(self) -> None:\n        if self.is_active:\n            try:\n                self.connection._release_savepoint_impl(self._savepoint)",
             "    def _do_commit(self) -> None:\n        if self.is_active or self._savepoint:\n            try:\n                self.connection._release_savepoint_impl(self._savepoint)"), "C27-R4")
# benign refactors
R.mutant("benign-rename-handler-var", ENG,
         sub("        try:\n            self.engine.dialect.do_commit(self.connection)\n        except BaseException as e:\n            self._handle_dbapi_exception(e, None, None, None, None)\n",
             "        try:\n            self.engine.dialect.do_commit(self.connection)\n        except BaseException as err:\n            self._handle_dbapi_exception(err, None, None, None, None)\n"), None)
R.mutant("benign-handle-rename-local", ENG, sub("dbapi_conn_wrapper", "wrapper", count=3), None)
R.mutant("benign-invalidate-extra-log", ENG,
         sub("            pool_proxied_connection.invalidate(exception)\n\n        self._dbapi_connection = None\n", "            pool_proxied_connection.invalidate(exception)\n            self._log_debug(\"invalidated\")\n\n        self._dbapi_connection = None\n"), None)

# --- C27-R5 / R2 robustness (strengthening round, seeds C27_1 / C27_2)
FIN = ("            if self._is_disconnect:\n                del self._is_disconnect\n                if not self.invalidated:\n"
       "                    dbapi_conn_wrapper = self._dbapi_connection\n                    assert dbapi_conn_wrapper is not None\n"
       "                    if invalidate_pool_on_disconnect:\n                        self.engine.pool._invalidate(dbapi_conn_wrapper, e)\n"
       "                    self.invalidate(e)\n")
INV = ("                dbapi_conn_wrapper = self._dbapi_connection\n                assert dbapi_conn_wrapper is not None\n"
       "                if invalidate_pool_on_disconnect:\n                    self.engine.pool._invalidate(dbapi_conn_wrapper, e)\n"
       "                self.invalidate(e)\n")
# seed 1: the two nested tests flattened into one; the flag is no longer removed when the connection is already invalid
R.mutant("seed1-disconnect-flag-cleared-only-when-not-invalidated", ENG,
         sub(FIN, "            if self._is_disconnect and not self.invalidated:\n                del self._is_disconnect\n" + INV), "C27-R5")
R.mutant("disconnect-flag-del-moved-into-inner-if", ENG,
         sub("            if self._is_disconnect:\n                del self._is_disconnect\n                if not self.invalidated:\n",
             "            if self._is_disconnect:\n                if not self.invalidated:\n                    del self._is_disconnect\n"), "C27-R5")
R.mutant("reentrant-flag-removed-only-for-disconnects", ENG,
         sub("            del self._reentrant_error\n            if self._is_disconnect:\n                del self._is_disconnect\n",
             "            if self._is_disconnect:\n                del self._reentrant_error\n                del self._is_disconnect\n"), "C27-R5")
R.mutant("disconnect-flag-kept-when-listener-overrides", ENG,
         sub("            if self._is_disconnect:\n                del self._is_disconnect\n                if not self.invalidated:\n",
             "            if self._is_disconnect and should_wrap:\n                del self._is_disconnect\n                if not self.invalidated:\n"), "C27-R5")
# the same flattening done right: the invalidation test is flattened, the flag is still removed for every disconnect
R.mutant("benign-flattened-test-flag-cleared-separately", ENG,
         sub(FIN, "            if self._is_disconnect and not self.invalidated:\n" + INV
             + "            if self._is_disconnect:\n                del self._is_disconnect\n"), None)
R.mutant("benign-flag-snapshot-local", ENG,
         sub(FIN, "            was_disconnect = self._is_disconnect\n            if was_disconnect:\n                del self._is_disconnect\n"
                  "            if was_disconnect and not self.invalidated:\n" + INV), None)
R.mutant("benign-flag-reset-by-assignment", ENG,
         sub("            if self._is_disconnect:\n                del self._is_disconnect\n                if not self.invalidated:\n",
             "            if self._is_disconnect:\n                self._is_disconnect = False\n                if not self.invalidated:\n"), None)
R.mutant("early-raise-after-classification", ENG,
         sub("        invalidate_pool_on_disconnect = not is_exit_exception\n",
             "        invalidate_pool_on_disconnect = not is_exit_exception\n        if is_sub_exec:\n            raise e\n"), "C27-R5")

# ---------------------------------------------------------------------- rob-A: behaviour-preserving refactorings
# (family of the stored benign/rfA_13 + variants; the rules analyse the normal form, see _helpers_rob_a)
_LOOP = ("                for fn in self.dialect.dispatch.handle_error:\n                    try:\n"
         "                        # handler returns an exception;\n                        # call next handler in a chain\n"
         "                        per_fn = fn(ctx)\n                        if per_fn is not None:\n"
         "                            ctx.chained_exception = newraise = per_fn\n                    except Exception as _raised:\n"
         "                        # handler raises an exception - stop processing\n                        newraise = _raised\n                        break\n")
_CHAIN_HELPER = ("    @staticmethod\n    def _run_handle_error_chain(handlers: Any, ctx: Any) -> Optional[BaseException]:\n        newraise = None\n"
                 "        for fn in handlers:\n            try:\n                per_fn = fn(ctx)\n                if per_fn is not None:\n"
                 "                    ctx.chained_exception = newraise = per_fn\n            except Exception as _raised:\n"
                 "                newraise = _raised\n                break\n        return newraise\n\n")
R.mutant("benign-rob-handle-error-chain-helper", ENG,
         chain(sub(_LOOP, "                newraise = self._run_handle_error_chain(\n                    self.dialect.dispatch.handle_error, ctx\n                )\n"),
               sub("    def _handle_dbapi_exception(\n", _CHAIN_HELPER + "    def _handle_dbapi_exception(\n")), None)
_INV20 = INV.replace("                ", "                    ", 1).replace("\n                ", "\n                    ")
R.mutant("benign-rob-disconnect-invalidation-helper", ENG,
         chain(sub(_INV20, "                    self._invalidate_after_disconnect(e, invalidate_pool_on_disconnect)\n"),
               sub("    def _handle_dbapi_exception(\n",
                   "    def _invalidate_after_disconnect(self, err: BaseException, invalidate_pool: bool) -> None:\n"
                   "        wrapper = self._dbapi_connection\n        assert wrapper is not None\n        if invalidate_pool:\n"
                   "            self.engine.pool._invalidate(wrapper, err)\n        self.invalidate(err)\n\n    def _handle_dbapi_exception(\n")), None)
R.mutant("rob-disconnect-invalidation-helper-only-pool", ENG,
         chain(sub(_INV20, "                    self._invalidate_after_disconnect(e, invalidate_pool_on_disconnect)\n"),
               sub("    def _handle_dbapi_exception(\n",
                   "    def _invalidate_after_disconnect(self, err: BaseException, invalidate_pool: bool) -> None:\n"
                   "        wrapper = self._dbapi_connection\n        assert wrapper is not None\n        if invalidate_pool:\n"
                   "            self.engine.pool._invalidate(wrapper, err)\n            self.invalidate(err)\n\n    def _handle_dbapi_exception(\n")), "C27-R2")
_CLASSIFY = ("            self._is_disconnect = (\n                isinstance(e, self.dialect.loaded_dbapi.Error)\n                and not self.closed\n"
             "                and self.dialect.is_disconnect(\n                    e,\n                    self._dbapi_connection if not self.invalidated else None,\n"
             "                    cursor,\n                )\n            ) or (is_exit_exception and not self.closed)\n")
R.mutant("benign-rob-classify-disconnect-helper", ENG,
         chain(sub(_CLASSIFY, "            self._is_disconnect = self._classify_disconnect(e, cursor, is_exit_exception)\n"),
               sub("    def _handle_dbapi_exception(\n",
                   "    def _classify_disconnect(self, err: BaseException, cursor: Any, is_exit: bool) -> bool:\n"
                   "        return (\n            isinstance(err, self.dialect.loaded_dbapi.Error)\n            and not self.closed\n"
                   "            and self.dialect.is_disconnect(\n                err,\n                self._dbapi_connection if not self.invalidated else None,\n"
                   "                cursor,\n            )\n        ) or (is_exit and not self.closed)\n\n    def _handle_dbapi_exception(\n")), None)
_COMMIT_TRY = ("        try:\n            self.engine.dialect.do_commit(self.connection)\n        except BaseException as e:\n"
               "            self._handle_dbapi_exception(e, None, None, None, None)\n")
R.mutant("benign-rob-do-commit-bare-helper-called-in-try", ENG,
         chain(sub(_COMMIT_TRY, "        try:\n            self._dbapi_commit()\n        except BaseException as e:\n            self._handle_dbapi_exception(e, None, None, None, None)\n"),
               sub("    def _commit_impl(self) -> None:\n", "    def _dbapi_commit(self) -> None:\n        self.engine.dialect.do_commit(self.connection)\n\n    def _commit_impl(self) -> None:\n")), None)
R.mutant("rob-do-commit-bare-helper-also-called-unwrapped", ENG,
         chain(sub(_COMMIT_TRY, "        try:\n            self._dbapi_commit()\n        except BaseException as e:\n            self._handle_dbapi_exception(e, None, None, None, None)\n"),
               sub("    def _commit_impl(self) -> None:\n", "    def _dbapi_commit(self) -> None:\n        self.engine.dialect.do_commit(self.connection)\n\n"
                   "    def _commit_quietly(self) -> None:\n        self._dbapi_commit()\n\n    def _commit_impl(self) -> None:\n")), "C27-R1")
R.mutant("benign-rob-revalidate-early-raise-alias", ENG,
         sub("        if self.__can_reconnect and self.invalidated:\n            if self._transaction is not None:\n                self._invalid_transaction()\n"
             "            self._dbapi_connection = self.engine.raw_connection()\n            return self._dbapi_connection\n        raise exc.ResourceClosedError(\"This Connection is closed\")\n",
             "        if not (self.__can_reconnect and self.invalidated):\n            raise exc.ResourceClosedError(\"This Connection is closed\")\n"
             "        pending = self._transaction\n        if pending is not None:\n            self._invalid_transaction()\n"
             "        self._dbapi_connection = self.engine.raw_connection()\n        return self._dbapi_connection\n"), None)
R.mutant("benign-rob-invalidate-no-alias-nested", ENG,
         sub("        if self._still_open_and_dbapi_connection_is_valid:\n            pool_proxied_connection = self._dbapi_connection\n"
             "            assert pool_proxied_connection is not None\n            pool_proxied_connection.invalidate(exception)\n\n        self._dbapi_connection = None\n",
             "        still_open = self._still_open_and_dbapi_connection_is_valid\n        if still_open:\n"
             "            assert self._dbapi_connection is not None\n            self._dbapi_connection.invalidate(exception)\n        self._dbapi_connection = None\n"), None)

# --- round-2 strengthening (str2-l): seeds C27_3 (RELEASE SAVEPOINT skipped on a dead connection) and C27_4
# (Pool._invalidate no longer stamps for a connection without a pool record).  New C27-R6, C27-R7.
_RELEASE = "        self.engine.dialect.do_release_savepoint(self, name)\n"
R.mutant("seed3-release-savepoint-skipped-on-dead-connection", ENG,
         sub(_RELEASE, "        if self._still_open_and_dbapi_connection_is_valid:\n            self.engine.dialect.do_release_savepoint(self, name)\n"), "C27-R6")
R.mutant("release-savepoint-early-return-when-invalidated", ENG,
         sub(_RELEASE, "        if self.invalidated:\n            return\n" + _RELEASE), "C27-R6")
_COMMIT_TRY6 = ("        try:\n            self.engine.dialect.do_commit(self.connection)\n        except BaseException as e:\n"
                "            self._handle_dbapi_exception(e, None, None, None, None)\n")
R.mutant("commit-skipped-when-connection-gone-via-local", ENG,
         sub(_COMMIT_TRY6, "        usable = self._still_open_and_dbapi_connection_is_valid\n        if not usable:\n            return\n" + _COMMIT_TRY6), "C27-R6")
_SAVEPOINT = "        self.engine.dialect.do_savepoint(self, name)\n        return name\n"
R.mutant("savepoint-skipped-in-helper-on-dead-connection", ENG,
         chain(sub(_SAVEPOINT, "        self._emit_savepoint(name)\n        return name\n"),
               sub("    def _savepoint_impl(self, name: Optional[str] = None) -> str:\n",
                   "    def _emit_savepoint(self, name: str) -> None:\n        if self._dbapi_connection is not None and self._dbapi_connection.is_valid:\n"
                   "            self.engine.dialect.do_savepoint(self, name)\n\n"
                   "    def _savepoint_impl(self, name: Optional[str] = None) -> str:\n")), "C27-R6")
_RB_SP = ("        if self._still_open_and_dbapi_connection_is_valid:\n"
          "            self.engine.dialect.do_rollback_to_savepoint(self, name)\n")
R.mutant("rollback-to-savepoint-attempted-on-dead-connection", ENG,
         sub(_RB_SP, "        self.engine.dialect.do_rollback_to_savepoint(self, name)\n"), "C27-R6")
R.mutant("rollback-to-savepoint-guard-inverted", ENG,
         sub(_RB_SP, "        if not self._still_open_and_dbapi_connection_is_valid:\n"
                     "            self.engine.dialect.do_rollback_to_savepoint(self, name)\n"), "C27-R6")
R.mutant("benign-release-savepoint-explicit-pending-check", ENG,
         sub(_RELEASE, "        if not self._still_open_and_dbapi_connection_is_valid:\n            self._invalid_transaction()\n" + _RELEASE), None)
R.mutant("benign-release-savepoint-dialect-in-local", ENG,
         sub(_RELEASE, "        dialect = self.engine.dialect\n        dialect.do_release_savepoint(self, name)\n"), None)
R.mutant("benign-rollback-to-savepoint-early-return-flag-local", ENG,
         sub(_RB_SP, "        alive = self._still_open_and_dbapi_connection_is_valid\n        if not alive:\n            return\n"
                     "        self.engine.dialect.do_rollback_to_savepoint(self, name)\n"), None)
R.mutant("benign-rollback-to-savepoint-validity-spelled-out", ENG,
         sub(_RB_SP, "        pooled = self._dbapi_connection\n        if pooled is not None and pooled.is_valid:\n"
                     "            self.engine.dialect.do_rollback_to_savepoint(self, name)\n"), None)
R.mutant("benign-savepoint-emitted-by-helper", ENG,
         chain(sub(_SAVEPOINT, "        self._emit_savepoint(name)\n        return name\n"),
               sub("    def _savepoint_impl(self, name: Optional[str] = None) -> str:\n",
                   "    def _emit_savepoint(self, name: str) -> None:\n        self.engine.dialect.do_savepoint(self, name)\n\n"
                   "    def _savepoint_impl(self, name: Optional[str] = None) -> str:\n")), None)
_STAMP = ("        if not rec or self._invalidate_time < rec.starttime:\n            self._invalidate_time = time.time()\n")
R.mutant("seed4-pool-invalidate-skips-stamp-without-record", POOL,
         sub(_STAMP, "        if rec is not None and self._invalidate_time < rec.starttime:\n            self._invalidate_time = time.time()\n"), "C27-R7")
R.mutant("pool-invalidate-stamp-comparison-reversed", POOL,
         sub(_STAMP, "        if not rec or self._invalidate_time > rec.starttime:\n            self._invalidate_time = time.time()\n"), "C27-R7")
R.mutant("pool-invalidate-stamp-only-with-checkin", POOL,
         sub(_STAMP, "        if _checkin and (not rec or self._invalidate_time < rec.starttime):\n            self._invalidate_time = time.time()\n"), "C27-R7")
R.mutant("pool-invalidate-early-return-without-record", POOL,
         sub(_STAMP, "        if rec is None:\n            return\n        if self._invalidate_time < rec.starttime:\n            self._invalidate_time = time.time()\n"), "C27-R7")
R.mutant("benign-pool-invalidate-is-none-operands-swapped", POOL,
         sub(_STAMP, "        if rec is None or rec.starttime > self._invalidate_time:\n            self._invalidate_time = time.time()\n"), None)
R.mutant("benign-pool-invalidate-inverted-nested", POOL,
         sub(_STAMP, "        if rec is not None and self._invalidate_time >= rec.starttime:\n            pass\n        else:\n"
                     "            self._invalidate_time = time.time()\n"), None)
R.mutant("benign-pool-invalidate-stale-flag-local", POOL,
         sub(_STAMP, "        record = rec\n        stale = record is None or self._invalidate_time < record.starttime\n        if stale:\n"
                     "            self._invalidate_time = time.time()\n"), None)
R.mutant("benign-pool-invalidate-stamp-helper", POOL,
         chain(sub(_STAMP, "        self._renew_generation(rec)\n"),
               sub("    def _invalidate(\n        self,\n        connection: PoolProxiedConnection,\n",
                   "    def _renew_generation(self, record: Any) -> None:\n        if record and self._invalidate_time >= record.starttime:\n"
                   "            return\n        self._invalidate_time = time.time()\n\n"
                   "    def _invalidate(\n        self,\n        connection: PoolProxiedConnection,\n")), None)
