"""C29 -- The asyncio API matches the sync API and is safe under cancellation
(proxy agreement + shielding)."""

from __future__ import annotations

import ast

from ..astutil import (
    call_name, calls_in, dotted, guard_atoms, name_stores, names_in, unparse, walk_local,
)
from ..report import Registry, sub, chain
from ._helpers_rules_c import _ann_class, call_nodes, calls_ending, kw_or_pos, own_calls
from ._helpers_rob_f1 import FlowResolver, Inliner, ev3, truths

R = Registry(
    "C29",
    title="The asyncio API matches the sync API and is safe under cancellation",
    decides=(
        "proxy agreement: every async method of AsyncEngine/AsyncConnection/AsyncTransaction/AsyncSession/"
        "AsyncSessionTransaction that runs a sync method through greenlet_spawn targets the method of the same "
        "name on the proxied sync class (or a reasoned alias), the target exists there, arguments are forwarded "
        "under the names the sync signature uses and no parameter is dropped; every name listed in a "
        "create_proxy_methods marker exists on the proxied class and the generated proxy reads the same name; "
        "cancellation: every __aexit__/close-like coroutine of ext.asyncio either awaits its clean-up through "
        "asyncio.shield(create_task(...)) or is a reasoned exemption; the async result accessors carry the "
        "documented _only_one_row flags (shared with C10-R1); garbage-collection clean-up of an async "
        "connection performs no driver IO (no reset, terminate-only); cancellation width: every undo-and-re-raise "
        "handler of the pool's accounting code (pool/base.py, pool/impl.py) catches BaseException (CancelledError / "
        "GreenletExit are not Exceptions) and greenlet_spawn throws every BaseException of the awaited call into the "
        "greenlet; filtered views (scalars()/mappings()) of sync and async results are built from the object on which "
        "unique()/columns() stored their state; greenlet_spawn hands every outcome of the awaited call (value or any exception) to the "
        "greenlet, awaits the greenlet's answer next and is left only once the greenlet is dead (every handler around the await, not "
        "just one); what a constructor of ext.asyncio hands on under a parameter's own name (AsyncSession -> Session(bind=, binds=), "
        "async_sessionmaker's kw) is computed from that parameter whenever it is given, independently of the other parameters."
    ),
    not_decided="result equality of whole programs run both ways; cancellation at every await point (dynamic); driver adapters.",
)

AENG = "ext/asyncio/engine.py"
ASES = "ext/asyncio/session.py"
ASCO = "ext/asyncio/scoping.py"
ARES = "ext/asyncio/result.py"
ABASE = "ext/asyncio/base.py"
POOL = "pool/base.py"

PROXY_CLASSES = [
    f"{AENG}::AsyncConnection", f"{AENG}::AsyncEngine", f"{AENG}::AsyncTransaction",
    f"{ASES}::AsyncSession", f"{ASES}::AsyncSessionTransaction",
]

# (async method key) -> (allowed sync attribute names, reason)
ALIASES = {
    f"{AENG}::AsyncConnection.start": ({"connect"}, "starting the async connection = Engine.connect()"),
    f"{AENG}::AsyncConnection.stream": ({"execute"}, "execute() with stream_results=True, wrapped in AsyncResult"),
    f"{AENG}::AsyncConnection.get_raw_connection": ({"connection"}, "reads Connection.connection inside the greenlet (may reconnect)"),
    f"{AENG}::AsyncTransaction.start": ({"begin", "begin_nested"}, "starting the transaction object = begin()/begin_nested() by self.nested"),
    f"{AENG}::AsyncTransaction.__aexit__": ({"__exit__"}, "async context exit runs the sync context exit"),
    f"{ASES}::AsyncSession.stream": ({"execute"}, "execute() with stream_results=True, wrapped in AsyncResult"),
    f"{ASES}::AsyncSessionTransaction.start": ({"begin", "begin_nested"}, "begin()/begin_nested() by self.nested"),
    f"{ASES}::AsyncSessionTransaction.__aexit__": ({"__exit__"}, "async context exit runs the sync context exit"),
}
# async methods that hand a *user* function to greenlet_spawn (not a proxy of one sync method)
NOT_A_PROXY = {
    f"{AENG}::AsyncConnection.run_sync": "runs the caller's function with the sync connection",
    f"{ASES}::AsyncSession.run_sync": "runs the caller's function with the sync session",
}
ENGINE_OPTS = {"_require_await"}  # greenlet_spawn's own keyword


def _member_type(ix, cls, name, call: bool):
    """Declared class of attribute / property / method-result `name` of class `cls`."""
    for k in ix.mro(cls):
        for st in k.node.body:
            if isinstance(st, ast.AnnAssign) and isinstance(st.target, ast.Name) and st.target.id == name and not call:
                r = _ann_class(ix, k.module, st.annotation)
                if r is not None:
                    return r
        f = k.methods.get(name)
        if f is not None and f.node.returns is not None:
            is_prop = any(d.split(".")[-1] in ("property", "ro_non_memoized_property", "ro_memoized_property",
                                               "memoized_property", "non_memoized_property") for d in f.decorators)
            if call != is_prop:
                r = _ann_class(ix, k.module, f.node.returns)
                if r is not None:
                    return r
    return None


def _expr_class(ix, cls, fnode, e):
    """Declared class of expression `e` (self / self.a / self.a.b / self.m() / local alias)."""
    if isinstance(e, ast.Name):
        if e.id == "self":
            return cls
        for n, v, _ in name_stores(fnode):
            if n == e.id and v is not None:
                return _expr_class(ix, cls, fnode, v)
        return None
    if isinstance(e, ast.Attribute):
        base = _expr_class(ix, cls, fnode, e.value)
        return _member_type(ix, base, e.attr, False) if base is not None else None
    if isinstance(e, ast.Call) and isinstance(e.func, ast.Attribute) and not e.args and not e.keywords:
        base = _expr_class(ix, cls, fnode, e.func.value)
        return _member_type(ix, base, e.func.attr, True) if base is not None else None
    return None


def _has_member(ix, cls, name) -> bool:
    for k in ix.mro(cls):
        if name in k.all_defs or name in k.assigns:
            return True
        for st in k.node.body:
            if isinstance(st, ast.AnnAssign) and isinstance(st.target, ast.Name) and st.target.id == name:
                return True
        for f in k.methods.values():
            for n in ast.walk(f.node):
                if isinstance(n, ast.Attribute) and isinstance(n.ctx, ast.Store) and n.attr == name \
                        and isinstance(n.value, ast.Name) and n.value.id == "self":
                    return True
        if any(isinstance(s, ast.Constant) and s.value == name
               for v in k.assigns.get("__slots__", []) for s in ast.walk(v)):
            return True
    return False


def _unwrap_target(e, fnode=None, depth=0):
    """targets of greenlet_spawn's first argument: handles cast(T, x), `a if c else b` and a local that was bound
    to the target before the call (`fn = a if c else b` / `if c: fn = a else: fn = b`; every binding counts)."""
    if isinstance(e, ast.Call) and (call_name(e) or "").split(".")[-1] == "cast" and len(e.args) == 2:
        return _unwrap_target(e.args[1], fnode, depth)
    if isinstance(e, ast.IfExp):
        return _unwrap_target(e.body, fnode, depth) + _unwrap_target(e.orelse, fnode, depth)
    if isinstance(e, ast.Name) and e.id != "getattr" and fnode is not None and depth < 4:
        vals = [v for n, v, _ in name_stores(fnode) if n == e.id]
        if vals and all(v is not None for v in vals):
            return [t for v in vals for t in _unwrap_target(v, fnode, depth + 1)]
    return [e]


def _flows_from(fnode, exprs):
    """names whose value can reach one of `exprs`: the names read there, plus -- transitively -- the names read by
    the bindings of locals among them (`stmt = statement; ...spawn(f, stmt)` forwards `statement`)."""
    binds = {}
    for n, v, st in name_stores(fnode):
        binds.setdefault(n, []).append(v if v is not None else getattr(st, "value", None) or getattr(st, "iter", None))
    seen = set()
    todo = set()
    for e in exprs:
        todo |= names_in(e)
    while todo:
        n = todo.pop()
        if n in seen:
            continue
        seen.add(n)
        for v in binds.get(n, []):
            if v is not None:
                todo |= names_in(v) - seen
    return seen


def _impl(ix, cls, name):
    for k in ix.mro(cls):
        f = k.methods.get(name)
        if f is not None:
            return f
    return None


@R.rule("C29-R1", floor=115, template="T-SIBLING/T-EXHAUST",
        desc="async proxies run the sync method of the same name (or a reasoned alias) through greenlet_spawn, "
             "forward every parameter under the sync signature's names; names listed in create_proxy_methods "
             "exist on the proxied class and the generated proxy reads the same name")
def r1(ctx):
    ix = ctx.index
    for ckey in PROXY_CLASSES:
        cls = ix.cls(ckey)
        for name, f in sorted(cls.methods.items()):
            if not isinstance(f.node, ast.AsyncFunctionDef):
                continue
            spawns = [c for c in calls_in(f.node) if (call_name(c) or "").split(".")[-1] == "greenlet_spawn"]
            if not spawns:
                continue
            ctx.functions_analysed.add(f.key)
            if f.key in NOT_A_PROXY:
                ctx.ok(f.key, "not a proxy: " + NOT_A_PROXY[f.key], nontrivial=False)
                continue
            if len(spawns) > 1:
                # `x = await spawn(a) if c else await spawn(b)` written as if/else: alternatives, as long as no path
                # runs two of them
                g = ctx.cfg(f)
                at = [g.nodes_containing(c) for c in spawns]
                ctx.require(all(at), f"{f.key}: greenlet_spawn call not found on the CFG")
                for i, ns in enumerate(at):
                    later = g.reachable([b for n in ns for b, _ in g.succ[n]])
                    ctx.require(not any(set(ms) & later for j, ms in enumerate(at) if j != i),
                                f"{f.key}: {len(spawns)} greenlet_spawn calls on one path (unknown idiom)")
            inl = Inliner(f.node)
            problems = []
            attrs = set()
            for sp in spawns:
                ctx.require(sp.args, f"{f.key}: greenlet_spawn without a target")
                pos_args = list(sp.args[1:])
                targets = _unwrap_target(sp.args[0], f.node)
                sync_methods = []
                for t in targets:
                    if isinstance(t, ast.Name) and t.id == "getattr" and len(pos_args) == 2 and isinstance(pos_args[1], ast.Constant):
                        owner = _expr_class(ix, cls, f.node, pos_args[0])
                        attr = pos_args[1].value
                        pos_args = []
                    elif isinstance(t, ast.Attribute):
                        owner = _expr_class(ix, cls, f.node, t.value)
                        attr = t.attr
                    else:
                        ctx.error(f"{f.key}: greenlet_spawn target `{unparse(t)[:60]}` is not an attribute of a proxied object")
                    ctx.require(owner is not None, f"{f.key}: cannot determine the sync class behind `{unparse(t)[:60]}`")
                    attrs.add(attr)
                    if not _has_member(ix, owner, attr):
                        problems.append(f"{owner.name} has no attribute {attr}")
                    m = _impl(ix, owner, attr)
                    if m is not None:
                        sync_methods.append(m)
                # argument forwarding
                own_params = [p for p in f.params if p != "self"]
                used = _flows_from(f.node, list(sp.args[1:]) + [k.value for k in sp.keywords])
                # a parameter that the sync method also has (same name) must reach it; parameters of the async
                # protocol only (e.g. is_ctxmanager) are not the sync method's business
                sync_params = set()
                for m in sync_methods:
                    sync_params |= {p for p in m.params if p != "self"}
                dropped = [p for p in own_params if p in sync_params and p not in used]
                if dropped:
                    problems.append(f"parameter(s) {dropped} are not forwarded to the sync method")
                for m in sync_methods:
                    a = m.node.args
                    sp_pos = [x.arg for x in a.posonlyargs + a.args][1:]
                    kwnames = set(sp_pos) | {x.arg for x in a.kwonlyargs}
                    for i, arg in enumerate(pos_args):
                        if isinstance(arg, ast.Starred):
                            if a.vararg is None:
                                problems.append(f"*{unparse(arg.value)} forwarded but {m.cls.name}.{m.name} takes no *args")
                            break
                        arg = inl(arg)   # a once-bound local standing for a parameter is that parameter
                        if isinstance(arg, ast.Name) and arg.id in own_params:
                            if i >= len(sp_pos):
                                if a.vararg is None:
                                    problems.append(f"too many positional arguments for {m.cls.name}.{m.name}")
                            elif sp_pos[i] != arg.id:
                                problems.append(f"positional argument {arg.id} lands in parameter {sp_pos[i]} of {m.cls.name}.{m.name}")
                    for k in sp.keywords:
                        if k.arg is None or k.arg in ENGINE_OPTS:
                            continue
                        if k.arg not in kwnames and a.kwarg is None:
                            problems.append(f"keyword {k.arg} is not a parameter of {m.cls.name}.{m.name}")
                        if k.arg in own_params and k.arg not in _flows_from(f.node, [k.value]):
                            problems.append(f"keyword {k.arg} is fed from {unparse(k.value)[:40]} instead of the parameter of the same name")
            allowed = ALIASES.get(f.key, ({name}, ""))[0]
            if not attrs <= allowed:
                problems.append(f"runs {sorted(attrs)} of the sync object, expected {sorted(allowed)}")
            problems = list(dict.fromkeys(problems))
            ctx.check(not problems, f.key, "; ".join(problems), f"-> {'/'.join(sorted(attrs))}", f.loc)
    # marker decorators
    for rel in (AENG, ASES, ASCO):
        m = ix.module(rel)
        for cls in sorted(ix._all_classes(m), key=lambda c: c.node.lineno):
            for d in cls.node.decorator_list:
                if not (isinstance(d, ast.Call) and (call_name(d) or "").split(".")[-1] == "create_proxy_methods"):
                    continue
                ctx.require(d.args and dotted(d.args[0]), f"{cls.key}: create_proxy_methods without a target class")
                tgt = ix.resolve(m, dotted(d.args[0]))
                from ..index import ClassInfo
                ctx.require(isinstance(tgt, ClassInfo), f"{cls.key}: proxied class {dotted(d.args[0])} not found")
                for kw in d.keywords:
                    if kw.arg not in ("classmethods", "methods", "attributes"):
                        continue
                    ctx.require(isinstance(kw.value, (ast.List, ast.Tuple)), f"{cls.key}: {kw.arg} is not a literal list")
                    for e in kw.value.elts:
                        ctx.require(isinstance(e, ast.Constant) and isinstance(e.value, str), f"{cls.key}: non-literal proxy name")
                        nm = e.value
                        key = f"{cls.key}:{kw.arg}[{nm}]"
                        problems = []
                        if not _has_member(ix, tgt, nm):
                            problems.append(f"{tgt.name} has no member {nm}")
                        defs = cls.all_defs.get(nm, [])
                        if not defs:
                            problems.append(f"{cls.name} has no generated proxy {nm}")
                        else:
                            reads = set()
                            for fd in defs:
                                for n in ast.walk(fd.node):
                                    if isinstance(n, ast.Attribute) and dotted(n.value) in ("self._proxied", tgt.name, "cls._proxied"):
                                        reads.add(n.attr)
                            if reads != {nm}:
                                problems.append(f"generated proxy {nm} reads {sorted(reads) or 'nothing'} of the proxied object")
                        ctx.check(not problems, key, "; ".join(problems), f"{tgt.name}.{nm}", cls.loc, nontrivial=False)


# ---------------------------------------------------------------------- C29-R2
CLEANUP_NAMES = {"__aexit__", "close", "aclose", "close_all", "reset"}
MUST_SHIELD = {
    f"{AENG}::AsyncConnection.__aexit__", f"{AENG}::AsyncConnection.stream",
    f"{ASES}::AsyncSession.__aexit__", f"{ASES}::_AsyncSessionContextManager.__aexit__",
}
UNSHIELDED_OK = {
    f"{AENG}::AsyncConnection.close": "clean-up primitive: runs inside the shielded task of __aexit__; a direct await is cancelled at the caller's request",
    f"{AENG}::AsyncConnection.aclose": "pure delegation to close()",
    f"{AENG}::AsyncTransaction.close": "explicit call; the enclosing connection's shielded exit rolls back",
    f"{AENG}::AsyncTransaction.__aexit__": "ends the transaction only; the enclosing AsyncConnection.__aexit__ (shielded) closes and rolls back",
    f"{ASES}::AsyncSession.close": "clean-up primitive: runs inside the shielded task of __aexit__",
    f"{ASES}::AsyncSession.aclose": "pure delegation to close()",
    f"{ASES}::AsyncSession.reset": "explicit call, same primitive as close()",
    f"{ASES}::AsyncSession.close_all": "deprecated delegation to close_all_sessions()",
    f"{ASES}::AsyncSessionTransaction.__aexit__": "ends the transaction only; the session's shielded exit closes",
    f"{ASES}::close_all_sessions": "explicit bulk close",
    f"{ASCO}::async_scoped_session.close": "generated delegation to AsyncSession.close()",
    f"{ASCO}::async_scoped_session.aclose": "generated delegation to AsyncSession.aclose()",
    f"{ASCO}::async_scoped_session.reset": "generated delegation to AsyncSession.reset()",
    f"{ASCO}::async_scoped_session.close_all": "generated delegation",
    f"{ARES}::AsyncCommon.close": "closes a cursor only; connection release is the connection's job",
    f"{ABASE}::StartableContext.__aexit__": "abstract",
    f"{ABASE}::GeneratorStartableContext.__aexit__": "drives the generator to its own (shielded) clean-up block",
}


def _await_is_shielded(fnode, aw: ast.Await, ctx=None, f=None, depth: int = 0) -> bool:
    """`await asyncio.shield(<task>)` where <task> is create_task(...)/ensure_future(...) (inline or a local), or an
    await of a coroutine helper (`await self._shielded_close()`, `await _shielded(self.close())`; one level) that
    itself awaits only through such shields."""
    v = aw.value
    if isinstance(v, ast.Call) and ctx is not None and f is not None and depth < 2:
        from ..index import FuncInfo
        h = None
        nm = call_name(v) or ""
        if nm.startswith("self.") and nm.count(".") == 1 and f.cls is not None:
            h = ctx.index.resolve_method(f.cls, nm[5:])
        elif isinstance(v.func, ast.Name):
            r = ctx.index.resolve(f.module, v.func.id)
            h = r if isinstance(r, FuncInfo) else None
        if h is not None and isinstance(h.node, ast.AsyncFunctionDef) and h.node is not fnode:
            inner = [n for n in walk_local(h.node) if isinstance(n, ast.Await)]
            if inner and all(_await_is_shielded(h.node, a, ctx, h, depth + 1) for a in inner):
                ctx.functions_analysed.add(h.key)
                return True
    if not (isinstance(v, ast.Call) and (call_name(v) or "") in ("asyncio.shield", "shield") and len(v.args) == 1):
        return False
    a = v.args[0]
    if isinstance(a, ast.Name):
        binds = [val for n, val, _ in name_stores(fnode) if n == a.id]
        return bool(binds) and all(
            isinstance(b, ast.Call) and (call_name(b) or "").split(".")[-1] in ("create_task", "ensure_future") for b in binds)
    return isinstance(a, ast.Call) and (call_name(a) or "").split(".")[-1] in ("create_task", "ensure_future")


@R.rule("C29-R2", floor=21, template="T-GUARD",
        desc="every __aexit__/close-like coroutine in ext.asyncio awaits its clean-up only through "
             "asyncio.shield(create_task(...)), or is listed as a reasoned exemption")
def r2(ctx):
    ix = ctx.index
    seen = set()
    for rel in (AENG, ASES, ASCO, ARES, ABASE):
        m = ix.module(rel)
        funcs = list(m.functions.values())
        for c in ix._all_classes(m):
            funcs.extend(c.methods.values())
        for f in sorted(funcs, key=lambda x: x.node.lineno):
            if not isinstance(f.node, ast.AsyncFunctionDef) or f.type_only:
                continue
            is_gen = any(isinstance(n, (ast.Yield, ast.YieldFrom)) for n in walk_local(f.node))
            if f.name not in CLEANUP_NAMES and f.name != "close_all_sessions" and not (is_gen and f.key in MUST_SHIELD):
                if not is_gen:
                    continue
                # an async generator whose clean-up part awaits something: treat like a close
                g = ctx.cfg(f)
                ys = [n.id for n in g.nodes if n.stmt is not None and any(isinstance(x, ast.Yield) for x in ast.walk(n.stmt)) and n.kind == "stmt"]
                after = g.reachable(ys) - set(ys) - g.reachable([g.entry], avoid=ys)
                if not any(isinstance(x, ast.Await) for i in after if g.nodes[i].stmt is not None and g.nodes[i].kind == "stmt" for x in ast.walk(g.nodes[i].stmt)):
                    continue
            seen.add(f.key)
            ctx.functions_analysed.add(f.key)
            awaits = [n for n in walk_local(f.node) if isinstance(n, ast.Await)]
            if is_gen:
                g = ctx.cfg(f)
                ys = [n.id for n in g.nodes if n.kind == "stmt" and any(isinstance(x, ast.Yield) for x in ast.walk(n.stmt))]
                after = g.reachable(ys) - set(ys) - g.reachable([g.entry], avoid=ys)
                stmts = [g.nodes[i].stmt for i in after if g.nodes[i].stmt is not None and g.nodes[i].kind == "stmt"]
                awaits = [a for a in awaits if any(a is x for s in stmts for x in ast.walk(s))]
            unshielded = [a for a in awaits if not _await_is_shielded(f.node, a, ctx, f)]
            if f.key in UNSHIELDED_OK and f.key not in MUST_SHIELD:
                ctx.ok(f.key, "unshielded by design: " + UNSHIELDED_OK[f.key], nontrivial=False)
            elif awaits and not unshielded:
                ctx.ok(f.key, f"{len(awaits)} clean-up await(s), all through asyncio.shield(create_task(...))")
            elif not awaits:
                ctx.violation(f.key, "clean-up coroutine awaits nothing (the resource is not released here)", f.loc)
            else:
                ctx.violation(
                    f.key,
                    f"clean-up awaits `{unparse(unshielded[0].value)[:70]}` without asyncio.shield: a task cancelled "
                    "(or timed out) while leaving the block abandons the close half-way, the connection is not "
                    "returned to the pool / its transaction stays open", f"{f.module.path}:{unshielded[0].lineno}")
    missing = [k for k in MUST_SHIELD if k not in seen]
    ctx.require(not missing, f"shielded clean-up sites vanished: {missing}")
    stale = [k for k in UNSHIELDED_OK if k not in seen]
    ctx.require(not stale, f"exemption entries no longer match a coroutine: {stale}")


# ---------------------------------------------------------------------- C29-R3 (= C10-R1 on the async classes)
@R.rule("C29-R3", floor=12, template="T-SIBLING",
        desc="= C10-R1 restricted to ext/asyncio/result.py: async single-row accessors call _only_one_row "
             "with the documented flag triple")
def r3(ctx):
    from .c10 import r1 as c10_r1
    before = len(ctx.instances)
    c10_r1(ctx)
    ctx.instances[before:] = [i for i in ctx.instances[before:] if i.key.startswith("ext/asyncio/")]


# ---------------------------------------------------------------------- C29-R4
def _io_nodes(ctx, f, g):
    """CFG nodes of `_reset` that talk to the driver: `<dialect>.do_rollback/do_commit(...)` directly, or a call of a
    method of the same class (one level) that does."""
    io = set(calls_ending(g, "do_rollback", "do_commit"))
    for n in g.nodes:
        for c in own_calls(n):
            nm = call_name(c) or ""
            if nm.startswith("self.") and nm.count(".") == 1 and f.cls is not None:
                h = ctx.index.resolve_method(f.cls, nm[5:])
                if h is not None and h.node is not f.node and calls_ending(ctx.cfg(h), "do_rollback", "do_commit"):
                    ctx.functions_analysed.add(h.key)
                    io.add(n.id)
    return sorted(io)


@R.rule("C29-R4", floor=4, template="T-GUARD",
        desc="garbage-collection clean-up of an async connection does no driver IO: _reset skips "
             "rollback/commit unless asyncio_safe; _finalize_fairy passes asyncio_safe=not gc, detaches under gc, "
             "and only terminates (never closes) an async connection, and only if the dialect can")
def r4(ctx):
    f = ctx.func(f"{POOL}::_ConnectionFairy._reset")
    g = ctx.cfg(f)
    io = _io_nodes(ctx, f, g)
    ctx.require(io, "no do_rollback/do_commit in _reset")
    inl = Inliner(f.node, allow_calls=False)
    bad = [n for n in io if ("asyncio_safe", True) not in inl.atoms(g.edge_guards(n))]
    ctx.check(not bad, f.key + ":io-only-when-asyncio-safe",
              "_reset can call do_rollback()/do_commit() although asyncio_safe is False (driver IO from the garbage "
              "collector, outside any greenlet / event loop context)",
              "rollback/commit dominated by `asyncio_safe`", f.loc)
    # _finalize_fairy: what the flags handed to _reset() / _close_connection() *are* is decided per scenario
    # (async dialect or not, called by the garbage collector or not, dialect can terminate or not): branches the
    # scenario rules out are cut, every local is replaced by its reaching definition, the rest is evaluated.  No
    # assumption on how the flags are named, where they are assigned (if/else in either order, defaults then
    # override, nested ifs, conditional expressions) or how the dialect is reached (`pool._dialect`, a local).
    ff = ctx.func(f"{POOL}::_finalize_fairy")
    ctx.require(len(ff.params) > 3, "_finalize_fairy lost its `ref` parameter")
    ref = ff.params[3]

    def canon(txt):
        if txt == f"{ref} is None":
            return ("GC", False)
        last = txt.split(".")[-1]
        if "." in txt and last == "is_async":
            return ("ASYNC", True)
        if "." in txt and last == "has_terminate":
            return ("TERM", True)
        return None
    g = ctx.cfg(ff)
    fr = FlowResolver(g, ff.node, canon)
    resets = [(n.id, c) for n in g.nodes if not n.copy for c in own_calls(n) if (call_name(c) or "").endswith("._reset")]
    ctx.require(resets, "no ._reset() call in _finalize_fairy")
    closes = [(n.id, c) for n in g.nodes if not n.copy for c in own_calls(n) if (call_name(c) or "").endswith("_close_connection")]
    ctx.require(closes, "no pool._close_connection() in _finalize_fairy")
    _sc = {}

    def scenario(**fixed):
        k = tuple(sorted(fixed.items()))
        if k not in _sc:
            _sc[k] = fr.scenario(**fixed)
        return _sc[k]

    def values(node, expr, **fixed):
        """possible truth values of `expr` at `node` in the scenario; empty when the node is not reached there"""
        sc = scenario(**fixed)
        if node not in sc.live:
            return set()
        ctx.require(expr is not None, "_finalize_fairy: a flag argument of _reset()/_close_connection() is not passed")
        vals = truths(sc.resolve(expr, node), fixed, canon)
        ctx.require(None not in vals, f"_finalize_fairy: cannot evaluate `{unparse(expr)}` (resolved: `{unparse(sc.resolve(expr, node))[:120]}`)")
        return vals

    safe_bad, detach_bad = [], []
    for n, rc in resets:
        safe = kw_or_pos(rc, "asyncio_safe", 3)
        term = kw_or_pos(rc, "terminate_only", 2)
        for tv in (True, False):
            if not values(n, safe, ASYNC=True, GC=True, TERM=tv) <= {False}:
                safe_bad.append("called by the garbage collector")
            if not values(n, safe, ASYNC=True, GC=False, TERM=tv) <= {True}:
                safe_bad.append("called for an explicit close")
            if not values(n, term, ASYNC=True, GC=True, TERM=tv) <= {True}:
                detach_bad.append(tv)
    ctx.check(not safe_bad, ff.key + ":asyncio-safe-flag",
              "for an async dialect _reset() is not told asyncio_safe = not <gc clean-up> "
              f"(wrong when {' / '.join(sorted(set(safe_bad)))}): a garbage-collected connection would be rolled back from the collector",
              "asyncio_safe = not is_gc_cleanup on the async branch", ff.loc)
    ctx.check(not detach_bad, ff.key + ":detach-under-gc",
              "for an async dialect a garbage-collected connection is not detached (terminate_only): it would be "
              "returned to the pool without having been reset",
              "detach = record is None or is_gc_cleanup on the async branch", ff.loc)
    problems = []
    for n, c in closes:
        t = kw_or_pos(c, "terminate")
        for gc in (True, False):
            if n in scenario(ASYNC=True, TERM=False, GC=gc).live:
                problems.append("an async connection is closed although the dialect cannot terminate (close() would await)")
            if not values(n, t, ASYNC=True, TERM=True, GC=gc) <= {True}:
                problems.append("an async connection is closed with the awaiting close() instead of terminate")
            for tv in (True, False):
                if not values(n, t, ASYNC=False, TERM=tv, GC=gc) <= {False}:
                    problems.append("a sync connection is terminated instead of closed")
    ctx.check(not problems, ff.key + ":terminate-only",
              "a detached async connection can be closed with the awaiting close() (or closed although the dialect "
              "cannot terminate) instead of terminate-only: " + "; ".join(sorted(set(problems))),
              "close only if (not is_async or has_terminate); terminate = is_async and has_terminate", ff.loc)


# ---------------------------------------------------------------------- C29-R5 (handler width under cancellation)
POOL_IMPL = "pool/impl.py"
CONC = "util/concurrency.py"
# modules whose try/except blocks keep the pool's accounting (overflow counter, checked-out records)
ACCOUNTING_MODULES = (POOL, POOL_IMPL)
_NOT_COMPENSATION = {"isinstance", "issubclass", "len", "bool", "str", "repr", "id", "type"}


def _handler_is_base_wide(h: ast.ExceptHandler) -> bool:
    """bare `except:` / `except BaseException` / a tuple naming BaseException: the only widths that see
    asyncio.CancelledError, greenlet.GreenletExit, KeyboardInterrupt, GeneratorExit."""
    if h.type is None:
        return True
    elts = h.type.elts if isinstance(h.type, ast.Tuple) else [h.type]
    return any((dotted(e) or "").split(".")[-1] == "BaseException" for e in elts)


def _own_level(body):
    """nodes of a handler body that run for the handler's own exception (bodies of nested handlers and
    nested scopes excluded: a bare `raise` there re-raises something else)."""
    stack = list(body)
    while stack:
        n = stack.pop()
        yield n
        if isinstance(n, (ast.FunctionDef, ast.AsyncFunctionDef, ast.Lambda, ast.ClassDef)):
            continue
        for ch in ast.iter_child_nodes(n):
            if isinstance(ch, ast.ExceptHandler):
                continue
            stack.append(ch)


def _handler_profile(h: ast.ExceptHandler):
    """(re-raises the caught exception, [compensation callee names]) of handler `h`."""
    from ._helpers_rules_c import is_logging_call, is_safe_reraise
    reraises = False
    comp = []
    for n in _own_level(h.body):
        if isinstance(n, ast.Raise) and n.exc is None:
            reraises = True
        elif isinstance(n, ast.Raise) and h.name and isinstance(n.exc, ast.Name) and n.exc.id == h.name:
            reraises = True
        elif is_safe_reraise(n):
            reraises = True
        elif isinstance(n, ast.Call):
            nm = call_name(n) or unparse(n.func)
            if nm.split(".")[-1] == "safe_reraise" or is_logging_call(nm) or nm in _NOT_COMPENSATION:
                continue
            comp.append(nm)
    return reraises, comp


def _tries_of(fnode):
    return [n for n in walk_local(fnode) if isinstance(n, ast.Try)]


@R.rule("C29-R5", floor=4, template="T-GUARD",
        desc="cancellation width: in the pool's accounting code (pool/base.py, pool/impl.py) every handler that "
             "undoes something and re-raises the caught exception is as wide as BaseException (bare / "
             "BaseException), or a BaseException-wide sibling handler of the same try performs the same undo; "
             "greenlet_spawn forwards every BaseException raised by the awaited driver call into the greenlet")
def r5(ctx):
    ix = ctx.index
    seen_keys = {}
    for rel in ACCOUNTING_MODULES:
        m = ix.module(rel)
        for f in sorted(ix.all_functions(m), key=lambda x: x.node.lineno):
            if f.type_only:
                continue
            for t in sorted(_tries_of(f.node), key=lambda x: x.lineno):
                profiles = [(h,) + _handler_profile(h) for h in t.handlers]
                for i, (h, reraises, comp) in enumerate(profiles):
                    if not (reraises and comp):
                        continue  # swallows / translates / only logs: not an undo-and-propagate handler
                    ctx.functions_analysed.add(f.key)
                    shorts = sorted({c.split(".")[-1] for c in comp})
                    base = f"{f.key}:undo-and-reraise[{'+'.join(shorts)}]"
                    k = seen_keys.get(base, 0)
                    seen_keys[base] = k + 1
                    key = base if k == 0 else f"{base}#{k + 1}"
                    wide = _handler_is_base_wide(h)
                    covered_by = None
                    if not wide:
                        for h2, rr2, comp2 in profiles[i + 1:]:
                            if _handler_is_base_wide(h2) and rr2 and {c.split(".")[-1] for c in comp2} >= set(shorts):
                                covered_by = h2
                    width = "bare except" if h.type is None else f"except {unparse(h.type)}"
                    if wide:
                        ctx.ok(key, f"{width}: also runs for CancelledError / GreenletExit / KeyboardInterrupt")
                    elif covered_by is not None:
                        ctx.ok(key, f"{width}, and the BaseException-wide sibling handler at line {covered_by.lineno} performs the same undo")
                    else:
                        ctx.violation(
                            key,
                            f"`{width}` in {f.qualname} undoes ({', '.join(shorts)}) and re-raises, but it is narrower than "
                            "BaseException: asyncio.CancelledError (task cancelled / timed out while the driver call inside "
                            "the try block is awaiting), greenlet.GreenletExit and KeyboardInterrupt are not `Exception`s, so "
                            f"the undo is skipped on cancellation and the pool's accounting ({', '.join(shorts)}) leaks",
                            f"{m.path}:{h.lineno}")
    # the bridge that delivers a cancellation to the code above
    gs = ctx.func(f"{CONC}::greenlet_spawn")
    ctx.functions_analysed.add(gs.key)
    pm = gs.module.parents()
    awaits = [n for n in walk_local(gs.node) if isinstance(n, ast.Await)]
    ctx.require(awaits, "greenlet_spawn awaits nothing (unknown idiom)")
    from ..astutil import enclosing_try
    bad = []
    for aw in awaits:
        ok = False
        for t, part in enclosing_try(pm, aw):
            if part != "body":
                continue
            for h in t.handlers:
                if _handler_is_base_wide(h) and any((call_name(c) or "").split(".")[-1] == "throw" for c in calls_in(ast.Module(body=h.body, type_ignores=[]))):
                    ok = True
        if not ok:
            bad.append(aw.lineno)
    ctx.check(not bad, gs.key + ":await-forwards-base-exception",
              f"the await at line {bad} is not inside a try whose BaseException-wide handler throws the exception into the "
              "greenlet: a cancellation of the task is not seen by the sync code (no rollback, no checkin; the greenlet is abandoned)",
              "every await: except BaseException -> context.throw(...)", gs.loc)


# ---------------------------------------------------------------------- C29-R6 (filtered views inherit the parent's filters)
RES = "engine/result.py"


def _self_writes(ix, cls, stop_names=("__init__",)):
    """{attr: [method keys]} assigned as `self.attr = ...` by a non-constructor method of `cls` or its bases."""
    from ..astutil import attr_stores
    out = {}
    for k in ix.mro(cls):
        for name, f in k.methods.items():
            if name in stop_names or f.type_only:
                continue
            for d, node, st in attr_stores(f.node):
                if d.startswith("self.") and d.count(".") == 1 and not isinstance(st, ast.Delete):
                    out.setdefault(d[5:], []).append(f.key)
    return out


def _ctor_attr_sources(init):
    """{attr: {constructor parameters it may be read from}} - `p.attr` directly or through a local alias of
    parameters (`src = a if a is not None else b`, `src = a or b`, `src = p`)."""
    params = [p for p in init.params if p != "self"]
    binds = {}
    for n, v, st in name_stores(init.node):
        if v is not None:
            binds.setdefault(n, []).append(v)

    def origin(name, depth=0):
        if name in params and name not in binds:
            return {name}
        out = {name} if name in params else set()
        if depth > 3:
            return out
        for v in binds.get(name, []):
            parts = [v]
            if isinstance(v, ast.IfExp):
                parts = [v.body, v.orelse]
            elif isinstance(v, ast.BoolOp):
                parts = v.values
            for e in parts:
                if isinstance(e, ast.Name):
                    out |= origin(e.id, depth + 1)
        return out

    res = {}
    for n in ast.walk(init.node):
        if isinstance(n, ast.Attribute) and isinstance(n.value, ast.Name) and isinstance(n.ctx, ast.Load) and n.value.id != "self":
            src = origin(n.value.id)
            if src:
                res.setdefault(n.attr, set()).update(src)
    return res


def _bind_call(call, init):
    params = [p for p in init.params if p != "self"]
    out = {}
    for i, a in enumerate(call.args):
        if isinstance(a, ast.Starred) or i >= len(params):
            break
        out[params[i]] = a
    for k in call.keywords:
        if k.arg is not None:
            out[k.arg] = k.value
    return out


@R.rule("C29-R6", floor=4, template="T-SIBLING/T-FLOW",
        desc="sync and async result objects agree on what a filtered view (scalars()/mappings()) is built from: the "
             "state a view constructor copies from its result argument (_unique_filter_state, _metadata, ...) and that "
             "generative modifiers of the parent (unique(), columns(), ...) write on the parent itself must reach the "
             "view - the view is constructed from `self`, or the attribute is copied from self onto the new view")
def r6(ctx):
    ix = ctx.index
    filt = ix.cls(f"{RES}::FilterResult")
    n_sites = 0
    for rel in (RES, ARES):
        m = ix.module(rel)
        views = {c.name: c for c in ix._all_classes(m) if c is not filt and filt in ix.mro(c)}
        for cls in sorted(ix._all_classes(m), key=lambda c: c.node.lineno):
            writes = None
            for name, f in sorted(cls.methods.items()):
                if f.type_only or name == "__init__":
                    continue
                for c in calls_in(f.node):
                    v = views.get(call_name(c) or "")
                    if v is None:
                        continue
                    ctx.require(c.args or c.keywords, f"{f.key}: {v.name}() constructed without a result")
                    init = ix.resolve_method(v, "__init__")
                    ctx.require(init is not None and len(init.params) >= 2, f"{v.key}: no constructor taking a result")
                    ctx.functions_analysed.add(f.key)
                    ctx.functions_analysed.add(init.key)
                    if writes is None:
                        writes = _self_writes(ix, cls)
                    sources = _ctor_attr_sources(init)
                    bound_args = _bind_call(c, init)
                    carried = sorted(a for a in sources if a in writes and a != "_real_result")
                    n_sites += 1
                    key = f"{f.key}:view-source[{v.name}]"
                    arg = c.args[0] if c.args else c.keywords[0].value

                    def from_self(a):
                        given = [bound_args[p] for p in sources[a] if p in bound_args
                                 and not (isinstance(bound_args[p], ast.Constant) and bound_args[p].value is None)]
                        return any(isinstance(x, ast.Name) and x.id == "self" for x in given)
                    if all(from_self(a) for a in carried):
                        ctx.ok(key, f"{v.name}({', '.join(unparse(a) for a in c.args)}{', ...' if c.keywords else ''}): the view copies "
                                    f"{carried} from the object the modifiers write (self)")
                        continue
                    # constructed from another object: every carried attribute must be copied from self onto the view
                    bound = [n for n, val, st in name_stores(f.node) if val is c]
                    fixed = {a for a in carried if from_self(a)}
                    if bound:
                        from ..astutil import attr_stores
                        for d, node, st in attr_stores(f.node):
                            if d.startswith(bound[0] + ".") and isinstance(st, ast.Assign) and any(
                                    isinstance(x, ast.Attribute) and isinstance(x.value, ast.Name) and x.value.id == "self"
                                    and x.attr == d.split(".", 1)[1] for x in ast.walk(st.value)):
                                fixed.add(d.split(".", 1)[1])
                    lost = [a for a in carried if a not in fixed]
                    if not lost:
                        ctx.ok(key, f"{v.name}({unparse(arg)}, ...): nothing the parent's modifiers write is read from the argument"
                               if not carried else f"{v.name}({unparse(arg)}, ...) and {carried} copied from self")
                        continue
                    who = "; ".join(f"{a} is written by {', '.join(sorted({k.split('::')[1] for k in writes[a]})[:3])}" for a in lost)
                    ctx.violation(
                        key,
                        f"{cls.name}.{name}() builds {v.name} from `{unparse(arg)}`, but {v.name}.__init__ copies {lost} from "
                        f"that argument while the parent's modifiers set them on the {cls.name} itself ({who}): filters applied "
                        f"before {name}() (e.g. .unique(), .columns()) are silently dropped - the sync API, which passes "
                        "`self`, keeps them",
                        f"{m.path}:{c.lineno}")
    ctx.require(n_sites >= 4, f"only {n_sites} filtered-view construction sites found")


# ---------------------------------------------------------------------- C29-R7 (greenlet_spawn drives the greenlet until it is dead) -- str2-o
def _guard_atoms_at(g, node):
    from ..astutil import test_atoms
    out = set()
    for t, pol in g.edge_guards(node):
        out.update(test_atoms(t, pol))
    return out


@R.rule("C29-R7", floor=3, template="T-PATH",
        desc="greenlet_spawn is the only thing that resumes the sync code suspended in await_(): whatever the awaited driver call "
             "produces -- a value or ANY exception, a cancellation included -- is handed to the greenlet (switch / throw), the "
             "greenlet's answer becomes the next thing to await, and the coroutine is left (return / raise) only once the greenlet "
             "is dead; a handler that throws and then leaves abandons the sync side in the middle of its clean-up, which itself awaits "
             "(invalidate -> terminate -> checkin)")
def r7(ctx):
    from ..astutil import ancestors, enclosing_try
    gs = ctx.func(f"{CONC}::greenlet_spawn")
    ctx.functions_analysed.add(gs.key)
    g = ctx.cfg(gs)
    pm = gs.module.parents()
    awaits = [n for n in walk_local(gs.node) if isinstance(n, ast.Await)]
    ctx.require(awaits and all(isinstance(a.value, ast.Name) for a in awaits), "greenlet_spawn does not await a local holding the greenlet's request (unknown idiom)")
    seen = {}
    for aw in awaits:
        var = aw.value.id
        loop = next((a for a in ancestors(pm, aw) if isinstance(a, (ast.While, ast.For, ast.AsyncFor))), None)
        ctx.require(loop is not None, "the await of greenlet_spawn is not inside a driver loop")
        heads = g.nodes_for(loop)
        at = g.nodes_containing(aw)
        ctx.require(heads and at, "greenlet_spawn: loop / await not found on the CFG")

        def hands(attr):
            """CFG nodes `var = <greenlet>.attr(...)`"""
            out, recv = [], set()
            for n in g.nodes:
                st = n.stmt
                if n.kind == "stmt" and isinstance(st, (ast.Assign, ast.AnnAssign)) and isinstance(getattr(st, "value", None), ast.Call) \
                        and isinstance(st.value.func, ast.Attribute) and st.value.func.attr == attr:
                    tg = st.targets if isinstance(st, ast.Assign) else [st.target]
                    if any(isinstance(t, ast.Name) and t.id == var for t in tg):
                        out.append(n.id)
                        recv.add(dotted(st.value.func.value))
            return out, recv
        sw, r1_ = hands("switch")
        th, r2_ = hands("throw")
        recv = (r1_ | r2_) - {None}
        ctx.require(len(recv) == 1, f"greenlet_spawn: `{var}` is not bound from <greenlet>.switch()/.throw() of one greenlet object ({sorted(map(str, recv))})")
        gl = next(iter(recv))

        def follow(a, b, lab):
            # normal edges, plus the edge by which an explicit `raise` leaves
            return lab != "exc" or (g.nodes[a].kind == "stmt" and isinstance(g.nodes[a].stmt, ast.Raise))
        ends = list(heads) + [g.exit, g.raise_exit]
        # (a) the awaited value goes back into the greenlet
        w = g.must_pass(at, ends, sw, edge_ok=follow)
        ctx.check(bool(sw) and w is None, gs.key + ":awaited-value-switched-in",
                  f"after `await {var}` completes normally the loop can go on (or the coroutine end) without `{var} = {gl}.switch(<value>)`: the sync code "
                  "waiting in await_() is never resumed with the driver's answer", f"value -> {var} = {gl}.switch(value) -> loop", gs.loc, w)
        # (b) every handler around the await throws the exception into the greenlet and keeps driving
        n_h = 0
        for t, part in enclosing_try(pm, aw):
            if part != "body" or not any(a is loop for a in ancestors(pm, t)):
                continue
            for h in t.handlers:
                n_h += 1
                width = "bare" if h.type is None else unparse(h.type)
                base = f"{gs.key}:handler[{width}]:thrown-in-and-driven-on"
                k = seen.get(base, 0)
                seen[base] = k + 1
                key = base if k == 0 else f"{base}#{k + 1}"
                H = g.nodes_for(h)
                ctx.require(H, f"greenlet_spawn: handler `{width}` not found on the CFG")
                w = g.must_pass(H, ends, th, edge_ok=follow)
                ctx.check(bool(th) and w is None, key,
                          f"`except {width}` around `await {var}` can finish (fall through, re-raise or return) without `{var} = {gl}.throw(...)`: the exception "
                          f"-- for this handler e.g. a task cancellation or timeout -- either never reaches the sync code, or is thrown in once and the greenlet's "
                          f"answer (the next awaitable of its clean-up: rollback, terminate, checkin) is dropped, so the greenlet is abandoned half-way, the "
                          f"connection record is never checked in and pool.checkedout() stays up",
                          f"{var} = {gl}.throw(...) on every path, then back to the loop", f"{gs.module.path}:{h.lineno}", w)
        ctx.require(n_h >= 1, "the await of greenlet_spawn has no exception handler inside the driver loop")
        # (c) the coroutine is left only when the greenlet is dead
        dead = f"{gl}.dead"
        leaving = []
        for n in sorted(g.reachable(at)):
            nd = g.nodes[n]
            if nd.kind == "stmt" and isinstance(nd.stmt, (ast.Return, ast.Raise)) and not nd.copy:
                if (dead, True) not in _guard_atoms_at(g, n):
                    leaving.append(f"line {nd.stmt.lineno}: `{unparse(nd.stmt)[:50]}`")
        ctx.check(not leaving, gs.key + ":left-only-when-greenlet-dead",
                  f"greenlet_spawn can return / raise while the greenlet may still be alive ({'; '.join(leaving)}; not dominated by `{dead}`): the sync function "
                  "is abandoned in the middle of an await_() and whatever it holds (a checked-out connection record, an open transaction) is never released",
                  f"every return / raise after the first await is dominated by `{dead}`", gs.loc)


# ---------------------------------------------------------------------- C29-R8 (constructor parameters reach the sync object) -- str2-o
CTOR_MODULES = (AENG, ASES, ASCO)


def _reduce(e, facts, canon):
    """`e` with conditional expressions / `a or b` / `a and b` decided by the scenario cut down to the operand that is the value."""
    class T(ast.NodeTransformer):
        def visit_IfExp(self, n):
            self.generic_visit(n)
            v = ev3(n.test, facts, canon)
            return n if v is None else (n.body if v else n.orelse)

        def visit_BoolOp(self, n):
            self.generic_visit(n)
            vals = list(n.values)
            while len(vals) > 1:
                v = ev3(vals[0], facts, canon)
                if v is None:
                    break
                if isinstance(n.op, ast.Or):
                    if v:
                        return vals[0]
                    vals = vals[1:]
                else:
                    if not v:
                        return vals[0]
                    vals = vals[1:]
            return vals[0] if len(vals) == 1 else ast.BoolOp(op=n.op, values=vals)

        def visit_Lambda(self, n):
            return n
    import copy
    return T().visit(copy.deepcopy(e))


def _carries(sc, fr, expr, node, param, facts, canon, depth=0):
    """(True, '') when the value of `expr` at CFG node `node` is computed from parameter `param` on every scenario-consistent path;
    else (False, description of a definition that is not)."""
    r = _reduce(sc.resolve(expr, node), facts, canon)
    if isinstance(r, ast.Constant):
        return False, f"the constant `{unparse(r)}`"
    if param in names_in(r):
        return True, ""
    if depth < 4:
        for nm in sorted(names_in(r)):
            if nm not in fr.defs or nm in fr.opaque:
                continue
            rd = sc.reaching(nm, node)
            if not rd:
                continue
            bad = None
            for d in sorted(rd, key=lambda x: -1 if x is None else x):
                v = fr.defs[nm].get(d) if d is not None else None
                if v is None:
                    bad = f"`{nm}` unbound / deleted on one path"
                    break
                ok, why = _carries(sc, fr, v, d, param, facts, canon, depth + 1)
                if not ok:
                    bad = f"`{nm} = {unparse(v)[:40]}` (line {getattr(v, 'lineno', '?')}) still reaches it: {why}" if why.startswith("the constant") or not why else why
                    break
            if bad is None:
                return True, ""
            return False, bad
    return False, f"`{unparse(r)[:60]}` does not read `{param}`"


@R.rule("C29-R8", floor=5, template="T-FLOW",
        desc="what a constructor of ext.asyncio hands on under a parameter's own name -- a keyword of the call that builds the proxied "
             "sync object (AsyncSession -> Session(bind=, binds=)), an entry of the **kw it stores (async_sessionmaker) -- is computed "
             "from that parameter whenever the parameter is given, independently of the other parameters (path-sensitive reaching "
             "definitions per scenario); a parameter the sync constructor also has is handed on at all")
def r8(ctx):
    ix = ctx.index
    from ..index import ClassInfo
    n_inst = 0
    for rel in CTOR_MODULES:
        m = ix.module(rel)
        for cls in sorted(ix._all_classes(m), key=lambda c: c.node.lineno):
            init = cls.methods.get("__init__")
            if init is None or init.type_only:
                continue
            a = init.node.args
            params = [x.arg for x in a.posonlyargs + a.args + a.kwonlyargs if x.arg not in ("self", "cls")]
            from ..astutil import func_defaults
            defaults = func_defaults(init.node)
            # sinks: keyword `p=<v>` of a call, `<dict>["p"] = <v>`
            sinks = {}
            for n in walk_local(init.node):
                if isinstance(n, ast.Call):
                    for k in n.keywords:
                        if k.arg in params:
                            sinks.setdefault(k.arg, []).append(("call", n, k.value))
                elif isinstance(n, ast.Assign):
                    for t in n.targets:
                        if isinstance(t, ast.Subscript) and isinstance(t.value, ast.Name) and isinstance(t.slice, ast.Constant) and t.slice.value in params:
                            sinks.setdefault(t.slice.value, []).append(("store", n, n.value))  # kw["p"] = ... / a local dict of arguments
            # parameters that the constructor of the proxied class has too must be handed on
            dropped = []
            for n in walk_local(init.node):
                if not (isinstance(n, ast.Call) and any(k.arg in params for k in n.keywords)):
                    continue
                tgt = None
                d = dotted(n.func) or ""
                if d.startswith("self.") and d.count(".") == 1:
                    owner, vals = ix.class_attr_nodes(cls, d[5:])
                    for v in vals:
                        if owner is not None and isinstance(v, (ast.Name, ast.Attribute)):
                            r = ix.resolve(owner.module, dotted(v))
                            tgt = r if isinstance(r, ClassInfo) else tgt
                elif d:
                    r = ix.resolve(m, d)
                    tgt = r if isinstance(r, ClassInfo) else None
                if tgt is None:
                    continue
                ti = ix.resolve_method(tgt, "__init__")
                if ti is None:
                    continue
                given = {k.arg for k in n.keywords}
                for p_ in params:
                    if p_ in ti.params and p_ not in given and p_ not in sinks:
                        dropped.append((p_, tgt.name, n))
            if not sinks and not dropped:
                continue
            ctx.functions_analysed.add(init.key)
            g = ctx.cfg(init)
            for p_, tname, call in dropped:
                n_inst += 1
                ctx.violation(f"{init.key}:param[{p_}]", f"{cls.name}.__init__ accepts `{p_}`, which {tname}.__init__ has too, but `{unparse(call.func)}(...)` is not given it: "
                              f"the same program behaves differently through the async API", f"{m.path}:{call.lineno}")
            for p_, sk in sorted(sinks.items()):
                n_inst += 1
                dflt = defaults.get(p_)
                optional = isinstance(dflt, ast.Constant) and dflt.value is None
                # "given": for a parameter that defaults to None, a value that is not None and truthy (an engine, a non-empty map)

                def canon(txt, p_=p_):
                    if txt == p_:
                        return ("GIVEN", True)
                    if txt == f"{p_} is None":
                        return ("GIVEN", False)
                    return None
                facts = {"GIVEN": True} if optional else {}
                fr = FlowResolver(g, init.node, canon)
                sc = fr.scenario(**facts)
                problems, notes = [], []
                nodes = []
                for kind, n, v in sk:
                    at = [x for x in (g.nodes_containing(n) if kind == "call" else g.nodes_for(n)) if x in sc.live]
                    nodes += at
                    for x in at:
                        ok, why = _carries(sc, fr, v, x, p_, facts, canon)
                        what = f"`{p_}=` of `{unparse(n.func)[:50]}(...)`" if kind == "call" else f"`{unparse(n.targets[0])}`"
                        if ok:
                            notes.append(f"{what} <- {unparse(_reduce(sc.resolve(v, x), facts, canon))[:60]}")
                        else:
                            problems.append(f"when `{p_}` is given, {what} is `{unparse(v)[:40]}`, which is not computed from `{p_}` on every path ({why}): "
                                            f"the value depends on the OTHER constructor arguments, the sync object is built without it and the same "
                                            f"program has other database effects than through the sync API")
                w = g.must_pass([g.entry], [g.exit], nodes, edge_ok=sc.edge_ok) if nodes else ["(no live hand-over site)"]
                if w is not None:
                    problems.append(f"when `{p_}` is given, a path through the constructor hands it on nowhere")
                ctx.check(not problems, f"{init.key}:param[{p_}]", "; ".join(dict.fromkeys(problems)), "; ".join(dict.fromkeys(notes)), init.loc, w if problems else None)
    ctx.require(n_inst >= 1, "no constructor of ext.asyncio hands a parameter on under its own name")


# ---------------------------------------------------------------------- self-test battery
R.mutant("async-commit-runs-rollback", AENG,
         sub("        await greenlet_spawn(self._proxied.commit)\n\n    async def rollback(self) -> None:\n        \"\"\"Roll back the transaction that is currently in progress.",
             "        await greenlet_spawn(self._proxied.rollback)\n\n    async def rollback(self) -> None:\n        \"\"\"Roll back the transaction that is currently in progress."), "C29-R1")
R.mutant("async-session-flush-drops-objects", ASES,
         sub("        await greenlet_spawn(self.sync_session.flush, objects=objects)", "        await greenlet_spawn(self.sync_session.flush)"), "C29-R1")
R.mutant("async-session-merge-swapped-keywords", ASES,
         sub("            self.sync_session.merge, instance, load=load, options=options\n", "            self.sync_session.merge, instance, load=options, options=load\n"), "C29-R1")
R.mutant("async-exec-driver-sql-positional-swap", AENG,
         sub("            self._proxied.exec_driver_sql,\n            statement,\n            parameters,\n            execution_options,\n", "            self._proxied.exec_driver_sql,\n            statement,\n            execution_options,\n            parameters,\n"), "C29-R1")
R.mutant("proxy-marker-unknown-attribute", AENG,
         sub("        \"closed\",\n        \"invalidated\",\n        \"dialect\",\n", "        \"closed\",\n        \"invalidated\",\n        \"is_invalid\",\n        \"dialect\",\n"), "C29-R1")
R.mutant("generated-proxy-reads-other-name", AENG,
         sub("        return self._proxied.invalidated\n", "        return self._proxied.closed\n"), "C29-R1")
R.mutant("connection-aexit-unshielded", AENG,
         sub("        task = asyncio.create_task(self.close())\n        await asyncio.shield(task)\n\n    # START PROXY METHODS AsyncConnection", "        await self.close()\n\n    # START PROXY METHODS AsyncConnection"), "C29-R2")
R.mutant("session-aexit-unshielded", ASES,
         sub("        task = asyncio.create_task(self.close())\n        await asyncio.shield(task)\n\n    def _maker_context_manager", "        await self.close()\n\n    def _maker_context_manager"), "C29-R2")
R.mutant("stream-close-unshielded", AENG,
         sub("            task = asyncio.create_task(ar.close())\n            await asyncio.shield(task)\n", "            await ar.close()\n"), "C29-R2")
R.mutant("session-ctx-manager-partial-shield", ASES,
         sub("        task = asyncio.create_task(go())\n        await asyncio.shield(task)\n", "        await self.trans.__aexit__(type_, value, traceback)\n        task = asyncio.create_task(go())\n        await asyncio.shield(task)\n"), "C29-R2")
R.mutant("new-unshielded-aexit", AENG,
         sub("class AsyncTransaction(\n", "class _AsyncConnCtx:\n    async def __aexit__(self, type_: Any, value: Any, traceback: Any) -> None:\n        await self.conn.close()\n\n\nclass AsyncTransaction(\n"), "C29-R2")
R.mutant("async-one-or-none-flags", ARES,
         sub("        return await greenlet_spawn(self._only_one_row, True, False, True)", "        return await greenlet_spawn(self._only_one_row, False, False, True)"), "C29-R3")
R.mutant("async-scalar-result-one-no-raise", ARES,
         sub("        return await greenlet_spawn(self._only_one_row, True, True, False)", "        return await greenlet_spawn(self._only_one_row, True, False, False)", count=3), "C29-R3")
R.mutant("reset-io-regardless-of-asyncio-safe", POOL,
         sub("        if not asyncio_safe:\n            return\n\n        if pool._reset_on_return is reset_rollback:", "        if pool._reset_on_return is reset_rollback:"), "C29-R4")
R.mutant("finalize-asyncio-safe-always-true", POOL,
         sub("        can_manipulate_connection = not is_gc_cleanup\n", "        can_manipulate_connection = True\n"), "C29-R4")
R.mutant("finalize-no-detach-under-gc", POOL,
         sub("        detach = connection_record is None or is_gc_cleanup\n", "        detach = connection_record is None\n"), "C29-R4")
R.mutant("finalize-close-instead-of-terminate", POOL,
         sub("        requires_terminate_for_close = (\n            pool._dialect.is_async and pool._dialect.has_terminate\n        )\n", "        requires_terminate_for_close = False\n"), "C29-R4")
# benign refactors
R.mutant("benign-aexit-inline-task", AENG,
         sub("        task = asyncio.create_task(self.close())\n        await asyncio.shield(task)\n\n    # START PROXY METHODS AsyncConnection", "        await asyncio.shield(asyncio.create_task(self.close()))\n\n    # START PROXY METHODS AsyncConnection"), None)
R.mutant("benign-rename-gc-flag", POOL, sub("is_gc_cleanup", "gc_cleanup", count=5), None)
R.mutant("benign-async-commit-local-alias", AENG,
         sub("        await greenlet_spawn(self._proxied.commit)\n\n    async def rollback(self) -> None:\n        \"\"\"Roll back the transaction that is currently in progress.",
             "        conn = self._proxied\n        await greenlet_spawn(conn.commit)\n\n    async def rollback(self) -> None:\n        \"\"\"Roll back the transaction that is currently in progress."), None)
# --- seeds (str-m) and their neighbourhood
_KW = "        return await greenlet_spawn(\n            self._only_one_row,\n            raise_for_second_row=%s,\n            raise_for_none=%s,\n            scalar=%s,\n        )"
R.mutant("seed2-async-one-or-none-keyword-flags-no-second-row-check", ARES,
         sub("        return await greenlet_spawn(self._only_one_row, True, False, False)", _KW % ("False", "False", "False"), count=3), "C29-R3")
R.mutant("benign-async-one-or-none-keyword-flags", ARES,
         sub("        return await greenlet_spawn(self._only_one_row, True, False, False)", _KW % ("True", "False", "False"), count=3), None)
_UNDO = "            except:\n                with util.safe_reraise():\n                    self._dec_overflow()\n                raise\n"
R.mutant("seed1-do-get-undo-handler-narrowed-to-exception", POOL_IMPL,
         sub(_UNDO, _UNDO.replace("except:", "except Exception:")), "C29-R5")
R.mutant("checkout-checkin-failed-handler-narrowed", POOL,
         sub("        except BaseException as err:\n            with util.safe_reraise():\n                rec._checkin_failed(err, _fairy_was_created=False)",
             "        except Exception as err:\n            with util.safe_reraise():\n                rec._checkin_failed(err, _fairy_was_created=False)"), "C29-R5")
R.mutant("greenlet-spawn-forwards-only-exception", CONC,
         sub("        except BaseException:\n", "        except Exception:\n"), "C29-R5")
R.mutant("benign-do-get-undo-handler-spelled-baseexception", POOL_IMPL,
         sub(_UNDO, _UNDO.replace("except:", "except BaseException:")), None)
R.mutant("benign-do-get-undo-handler-split", POOL_IMPL,
         sub(_UNDO, "            except Exception:\n                self._dec_overflow()\n                raise\n            except BaseException:\n                with util.safe_reraise():\n                    self._dec_overflow()\n                raise\n"), None)
R.mutant("benign-do-get-narrow-log-and-reraise", POOL_IMPL,
         sub(_UNDO, "            except exc.TimeoutError:\n                self.logger.debug(\"connect timed out\")\n                raise\n" + _UNDO), None)
R.mutant("sync-scalars-view-over-other-object", RES,
         sub("        return ScalarResult(self, index)\n", "        return ScalarResult(self.freeze()(), index)\n"), "C29-R6")
R.mutant("sync-mappings-view-over-other-object", RES,
         sub("        return MappingResult(self)\n", "        return MappingResult(self.freeze()())\n"), "C29-R6")
R.mutant("benign-sync-scalars-view-bound-to-local", RES,
         sub("        return ScalarResult(self, index)\n", "        view = ScalarResult(self, index)\n        return view\n"), None)
R.mutant("benign-sync-mappings-view-copies-state-afterwards", RES,
         sub("        return MappingResult(self)\n",
             "        view = MappingResult(self.freeze()())\n        view._unique_filter_state = self._unique_filter_state\n        view._metadata = self._metadata\n        return view\n"), None)

# --- robustify round (rob-F1): stored benign refactors rfF_4..6 (+ rfA_11) and their neighbourhood
_TX_START = ("        self.sync_transaction = self._assign_proxied(\n            await greenlet_spawn(\n"
             "                self.connection._proxied.begin_nested\n                if self.nested\n"
             "                else self.connection._proxied.begin\n            )\n        )\n")
R.mutant("benign-rfF5-transaction-start-target-in-local-if-else", AENG,
         sub(_TX_START, "        begin_fn: Callable[[], Transaction]\n        if self.nested:\n            begin_fn = self.connection._proxied.begin_nested\n"
                        "        else:\n            begin_fn = self.connection._proxied.begin\n\n"
                        "        sync_transaction = await greenlet_spawn(begin_fn)\n"
                        "        self.sync_transaction = self._assign_proxied(sync_transaction)\n"), None)
R.mutant("transaction-start-local-target-runs-commit", AENG,
         sub(_TX_START, "        if self.nested:\n            begin_fn = self.connection._proxied.begin_nested\n"
                        "        else:\n            begin_fn = self.connection._proxied.commit\n\n"
                        "        sync_transaction = await greenlet_spawn(begin_fn)\n"
                        "        self.sync_transaction = self._assign_proxied(sync_transaction)\n"), "C29-R1")
R.mutant("benign-transaction-start-two-exclusive-spawns", AENG,
         sub(_TX_START, "        conn = self.connection._proxied\n        if self.nested:\n            sync_transaction = await greenlet_spawn(conn.begin_nested)\n"
                        "        else:\n            sync_transaction = await greenlet_spawn(conn.begin)\n"
                        "        self.sync_transaction = self._assign_proxied(sync_transaction)\n"), None)
R.mutant("transaction-start-two-spawns-one-wrong", AENG,
         sub(_TX_START, "        conn = self.connection._proxied\n        if self.nested:\n            sync_transaction = await greenlet_spawn(conn.begin_nested)\n"
                        "        else:\n            sync_transaction = await greenlet_spawn(conn.close)\n"
                        "        self.sync_transaction = self._assign_proxied(sync_transaction)\n"), "C29-R1")
R.mutant("benign-rfF5-connection-start-unnested-await", AENG,
         sub("        self.sync_connection = self._assign_proxied(\n            await greenlet_spawn(self.sync_engine.connect)\n        )\n",
             "        sync_connection = await greenlet_spawn(self.sync_engine.connect)\n        self.sync_connection = self._assign_proxied(sync_connection)\n"), None)
R.mutant("benign-session-flush-argument-through-local", ASES,
         sub("        await greenlet_spawn(self.sync_session.flush, objects=objects)",
             "        to_flush = objects\n        await greenlet_spawn(self.sync_session.flush, objects=to_flush)"), None)
R.mutant("benign-async-commit-bound-method-in-local", AENG,
         sub("        await greenlet_spawn(self._proxied.commit)\n\n    async def rollback(self) -> None:\n        \"\"\"Roll back the transaction that is currently in progress.",
             "        commit = self._proxied.commit\n        await greenlet_spawn(commit)\n\n    async def rollback(self) -> None:\n        \"\"\"Roll back the transaction that is currently in progress."), None)
R.mutant("benign-exec-driver-sql-argument-through-local", AENG,
         sub("        result = await greenlet_spawn(\n            self._proxied.exec_driver_sql,\n            statement,\n            parameters,\n",
             "        params = parameters\n        result = await greenlet_spawn(\n            self._proxied.exec_driver_sql,\n            statement,\n            params,\n"), None)
R.mutant("exec-driver-sql-local-argument-lands-in-wrong-slot", AENG,
         sub("        result = await greenlet_spawn(\n            self._proxied.exec_driver_sql,\n            statement,\n            parameters,\n            execution_options,\n",
             "        params = parameters\n        result = await greenlet_spawn(\n            self._proxied.exec_driver_sql,\n            statement,\n            execution_options,\n            params,\n"), "C29-R1")
_FF_FLAGS = ("    dont_restore_gced = pool._dialect.is_async\n\n    if dont_restore_gced:\n"
             "        detach = connection_record is None or is_gc_cleanup\n        can_manipulate_connection = not is_gc_cleanup\n"
             "        can_close_or_terminate_connection = (\n            not pool._dialect.is_async or pool._dialect.has_terminate\n        )\n"
             "        requires_terminate_for_close = (\n            pool._dialect.is_async and pool._dialect.has_terminate\n        )\n\n"
             "    else:\n        detach = connection_record is None\n"
             "        can_manipulate_connection = can_close_or_terminate_connection = True\n        requires_terminate_for_close = False\n")
R.mutant("benign-rfF6-finalize-dialect-alias", POOL,
         sub(_FF_FLAGS, _FF_FLAGS.replace("    dont_restore_gced = pool._dialect.is_async\n", "    dialect = pool._dialect\n\n    dont_restore_gced = dialect.is_async\n")
             .replace("not pool._dialect.is_async or pool._dialect.has_terminate", "not dialect.is_async or dialect.has_terminate")
             .replace("pool._dialect.is_async and pool._dialect.has_terminate", "dialect.is_async and dialect.has_terminate")), None)
R.mutant("benign-rfA11-finalize-branches-inverted", POOL,
         sub(_FF_FLAGS, "    dont_restore_gced = pool._dialect.is_async\n\n    if not dont_restore_gced:\n        detach = connection_record is None\n"
                        "        can_manipulate_connection = True\n        can_close_or_terminate_connection = True\n        requires_terminate_for_close = False\n\n"
                        "    else:\n        detach = connection_record is None or is_gc_cleanup\n        can_manipulate_connection = not is_gc_cleanup\n"
                        "        can_close_or_terminate_connection = (\n            not pool._dialect.is_async or pool._dialect.has_terminate\n        )\n"
                        "        requires_terminate_for_close = (\n            pool._dialect.is_async and pool._dialect.has_terminate\n        )\n"), None)
R.mutant("benign-finalize-defaults-then-override-no-flag-local", POOL,
         sub(_FF_FLAGS, "    dont_restore_gced = pool._dialect.is_async\n\n    detach = connection_record is None\n    can_manipulate_connection = True\n"
                        "    can_close_or_terminate_connection = True\n    requires_terminate_for_close = False\n"
                        "    if pool._dialect.is_async:\n        detach = detach or is_gc_cleanup\n        can_manipulate_connection = not is_gc_cleanup\n"
                        "        can_close_or_terminate_connection = pool._dialect.has_terminate\n"
                        "        requires_terminate_for_close = pool._dialect.has_terminate\n"), None)
R.mutant("benign-finalize-flags-as-conditional-expressions", POOL,
         sub(_FF_FLAGS, "    dont_restore_gced = pool._dialect.is_async\n\n"
                        "    detach = (connection_record is None or is_gc_cleanup) if dont_restore_gced else connection_record is None\n"
                        "    can_manipulate_connection = not (dont_restore_gced and is_gc_cleanup)\n"
                        "    can_close_or_terminate_connection = not (pool._dialect.is_async and not pool._dialect.has_terminate)\n"
                        "    requires_terminate_for_close = dont_restore_gced and pool._dialect.has_terminate\n"), None)
R.mutant("benign-finalize-nested-gc-branches", POOL,
         sub(_FF_FLAGS, "    dont_restore_gced = pool._dialect.is_async\n\n    if dont_restore_gced:\n        if is_gc_cleanup:\n            detach = True\n"
                        "            can_manipulate_connection = False\n        else:\n            detach = connection_record is None\n"
                        "            can_manipulate_connection = True\n        can_close_or_terminate_connection = pool._dialect.has_terminate\n"
                        "        requires_terminate_for_close = can_close_or_terminate_connection\n"
                        "    else:\n        detach = connection_record is None\n"
                        "        can_manipulate_connection = can_close_or_terminate_connection = True\n        requires_terminate_for_close = False\n"), None)
R.mutant("finalize-defaults-then-override-forgets-asyncio-safe", POOL,
         sub(_FF_FLAGS, "    dont_restore_gced = pool._dialect.is_async\n\n    detach = connection_record is None\n    can_manipulate_connection = True\n"
                        "    can_close_or_terminate_connection = True\n    requires_terminate_for_close = False\n"
                        "    if pool._dialect.is_async:\n        detach = detach or is_gc_cleanup\n"
                        "        can_close_or_terminate_connection = pool._dialect.has_terminate\n"
                        "        requires_terminate_for_close = pool._dialect.has_terminate\n"), "C29-R4")
R.mutant("finalize-nested-gc-branches-detach-swapped", POOL,
         sub(_FF_FLAGS, "    dont_restore_gced = pool._dialect.is_async\n\n    if dont_restore_gced:\n        if not is_gc_cleanup:\n            detach = True\n"
                        "            can_manipulate_connection = True\n        else:\n            detach = connection_record is None\n"
                        "            can_manipulate_connection = False\n        can_close_or_terminate_connection = pool._dialect.has_terminate\n"
                        "        requires_terminate_for_close = can_close_or_terminate_connection\n"
                        "    else:\n        detach = connection_record is None\n"
                        "        can_manipulate_connection = can_close_or_terminate_connection = True\n        requires_terminate_for_close = False\n"), "C29-R4")
R.mutant("finalize-close-allowed-without-terminate", POOL,
         sub("        can_close_or_terminate_connection = (\n            not pool._dialect.is_async or pool._dialect.has_terminate\n        )\n",
             "        can_close_or_terminate_connection = True\n"), "C29-R4")
R.mutant("benign-reset-asyncio-safe-wraps-io-instead-of-early-return", POOL,
         sub("        if not asyncio_safe:\n            return\n\n        if pool._reset_on_return is reset_rollback:",
             "        driver_io_allowed = asyncio_safe\n        if not driver_io_allowed:\n            return\n\n        if pool._reset_on_return is reset_rollback:"), None)
_CONN_AEXIT = "        task = asyncio.create_task(self.close())\n        await asyncio.shield(task)\n\n    # START PROXY METHODS AsyncConnection"
R.mutant("benign-connection-aexit-shield-in-helper-coroutine", AENG,
         sub(_CONN_AEXIT, "        await self._close_shielded()\n\n    async def _close_shielded(self) -> None:\n"
                          "        closing = asyncio.ensure_future(self.close())\n        await asyncio.shield(closing)\n\n    # START PROXY METHODS AsyncConnection"), None)
R.mutant("connection-aexit-helper-coroutine-not-shielded", AENG,
         sub(_CONN_AEXIT, "        await self._close_shielded()\n\n    async def _close_shielded(self) -> None:\n"
                          "        await self.close()\n\n    # START PROXY METHODS AsyncConnection"), "C29-R2")
# the overflow undo of QueuePool._do_get as try/finally with a success flag: runs for every BaseException too; the
# handler instance disappears, which the (lowered) floor of C29-R5 must tolerate
R.mutant("benign-do-get-undo-in-finally-with-flag", POOL_IMPL,
         sub("            try:\n                return self._create_connection()\n" + _UNDO,
             "            created = False\n            try:\n                conn = self._create_connection()\n                created = True\n                return conn\n"
             "            finally:\n                if not created:\n                    self._dec_overflow()\n"), None)

# ---------------------------------------------------------------------- round-2 seeds (str2-o): C29-R7 / C29-R8
_GS_H = ("        except BaseException:\n            # this allows an exception to be raised within\n            # the moderated greenlet so that it can continue\n"
         "            # its expected flow.\n            result = context.throw(*sys.exc_info())\n")
_GS_ELSE = "        else:\n            result = context.switch(value)\n"
R.mutant("seed3-greenlet-spawn-cancellation-thrown-in-then-reraised", CONC,
         sub(_GS_H, "        except asyncio.CancelledError:\n            context.throw(*sys.exc_info())\n            raise\n" + _GS_H), "C29-R7")
R.mutant("greenlet-spawn-throws-but-drops-the-greenlets-answer", CONC, sub(_GS_H, "        except BaseException:\n            context.throw(*sys.exc_info())\n"), "C29-R7")
R.mutant("greenlet-spawn-gives-up-after-throwing-a-cancellation", CONC,
         sub(_GS_H, "        except BaseException as err:\n            result = context.throw(*sys.exc_info())\n            if isinstance(err, asyncio.CancelledError):\n                raise\n"), "C29-R7")
R.mutant("greenlet-spawn-leaves-the-loop-after-an-exception", CONC, sub(_GS_H, _GS_H + "            break\n"), "C29-R7")
R.mutant("greenlet-spawn-awaited-value-not-switched-in", CONC, sub(_GS_H + _GS_ELSE, _GS_H + "        else:\n            context.switch(value)\n"), "C29-R7")
R.mutant("benign-greenlet-spawn-handler-split-by-exception-class", CONC,
         sub(_GS_H, "        except asyncio.CancelledError:\n            result = context.throw(*sys.exc_info())\n" + _GS_H), None)
R.mutant("benign-greenlet-spawn-handler-names-the-exception", CONC,
         sub(_GS_H, "        except BaseException as err:\n            result = context.throw(type(err), err, err.__traceback__)\n"), None)
R.mutant("benign-greenlet-spawn-exc-info-in-local", CONC,
         sub(_GS_H, "        except BaseException:\n            exc_info = sys.exc_info()\n            result = context.throw(*exc_info)\n"), None)
R.mutant("benign-greenlet-spawn-loop-with-explicit-dead-test", CONC,
         sub("    while not context.dead:\n        switch_occurred = True\n", "    while True:\n        if context.dead:\n            break\n        switch_occurred = True\n"), None)
_AS_BINDS = ("        if binds:\n            self.binds = binds\n            sync_binds = {\n                key: engine._get_sync_engine_or_connection(b)\n"
             "                for key, b in binds.items()\n            }\n")
_AS_CALL = "            self.sync_session_class(bind=sync_bind, binds=sync_binds, **kw)\n"
R.mutant("seed4-async-session-binds-only-without-bind", ASES, sub("\n" + _AS_BINDS, _AS_BINDS.replace("        if binds:", "        elif binds:")), "C29-R8")
R.mutant("async-session-binds-ignored-when-bind-given", ASES, sub(_AS_BINDS, _AS_BINDS.replace("        if binds:", "        if binds and not bind:")), "C29-R8")
R.mutant("async-session-ctor-does-not-pass-binds", ASES, sub(_AS_CALL, "            self.sync_session_class(bind=sync_bind, **kw)\n"), "C29-R8")
R.mutant("async-session-ctor-binds-fed-from-bind", ASES, sub(_AS_CALL, "            self.sync_session_class(bind=sync_bind, binds=sync_bind, **kw)\n"), "C29-R8")
R.mutant("async-sessionmaker-info-kept-only-without-bind", ASES,
         sub("        if info is not None:\n            kw[\"info\"] = info\n        self.kw = kw\n        self.class_ = class_\n",
             "        if info is not None and bind is None:\n            kw[\"info\"] = info\n        self.kw = kw\n        self.class_ = class_\n"), "C29-R8")
R.mutant("async-sessionmaker-expire-on-commit-constant", ASES,
         sub("        kw[\"expire_on_commit\"] = expire_on_commit\n        if info is not None:\n            kw[\"info\"] = info\n        self.kw = kw\n        self.class_ = class_\n",
             "        kw[\"expire_on_commit\"] = True\n        if info is not None:\n            kw[\"info\"] = info\n        self.kw = kw\n        self.class_ = class_\n"), "C29-R8")
R.mutant("benign-async-session-binds-as-conditional-expression", ASES,
         sub(_AS_BINDS, "        if binds:\n            self.binds = binds\n        sync_binds = (\n            {\n                key: engine._get_sync_engine_or_connection(b)\n"
                        "                for key, b in binds.items()\n            }\n            if binds\n            else None\n        )\n"), None)
R.mutant("benign-async-session-binds-branch-inverted", ASES,
         sub(_AS_BINDS, "        if not binds:\n            pass\n        else:\n            self.binds = binds\n            sync_binds = {\n                key: engine._get_sync_engine_or_connection(b)\n"
                        "                for key, b in binds.items()\n            }\n"), None)
R.mutant("benign-async-session-binds-translated-by-helper", ASES,
         chain(sub(_AS_BINDS, "        if binds:\n            self.binds = binds\n            sync_binds = self._sync_binds_of(binds)\n"),
               sub("    sync_session_class: Type[Session] = Session\n",
                   "    @staticmethod\n    def _sync_binds_of(binds: Any) -> Any:\n        return {\n            key: engine._get_sync_engine_or_connection(b)\n            for key, b in binds.items()\n        }\n\n"
                   "    sync_session_class: Type[Session] = Session\n")), None)
R.mutant("benign-async-session-arguments-collected-in-a-dict", ASES,
         sub(_AS_CALL, "            self.sync_session_class(**dict(kw, bind=sync_bind, binds=sync_binds))\n"), None)
R.mutant("benign-async-sessionmaker-kw-update-call", ASES,
         sub("        kw[\"bind\"] = bind\n        kw[\"autoflush\"] = autoflush\n        kw[\"expire_on_commit\"] = expire_on_commit\n        if info is not None:\n            kw[\"info\"] = info\n        self.kw = kw\n        self.class_ = class_\n",
             "        kw.update(\n            bind=bind, autoflush=autoflush, expire_on_commit=expire_on_commit\n        )\n        if info is None:\n            pass\n        else:\n            kw[\"info\"] = info\n        self.kw = kw\n        self.class_ = class_\n"), None)
