"""Helpers shared by the pool / engine / event / asyncio rule modules (C23..C29).

* `reraise_view(fn)`  -- copy of a function AST in which every `with util.safe_reraise():` block
  ends in a bare `raise` (the context manager re-raises the exception being handled when its
  block completes; the engine CFG treats a `with` body as falling through).
* `PathSense` -- path-sensitive reachability over the engine CFG: branch outcomes on simple
  names (`x`, `not x`, `x is None`) and constant assignments (`flag = True`) are remembered along
  a path, so correlated branches (`if rec: ... if rec and ...:`) do not yield infeasible
  witnesses.
* small CFG pattern helpers (call nodes by callee, test edges by atom).
"""

from __future__ import annotations

import ast
import copy
from collections import deque
from typing import Callable, Dict, FrozenSet, Iterable, List, Optional, Sequence, Set, Tuple

from ..astutil import (
    ScopeNode, call_name, calls_in, dotted, name_stores, own_exprs, test_atoms, unparse,
)

# ---------------------------------------------------------------------- safe_reraise view
_KEEP: Dict[int, Tuple[ast.AST, ast.AST]] = {}


def is_safe_reraise(st: ast.AST) -> bool:
    if not isinstance(st, (ast.With, ast.AsyncWith)):
        return False
    for it in st.items:
        e = it.context_expr
        if isinstance(e, ast.Call):
            nm = call_name(e) or ""
            if nm == "safe_reraise" or nm.endswith(".safe_reraise"):
                return True
    return False


def reraise_view(fn: ast.AST) -> ast.AST:
    """Function AST equal to `fn` except that `with safe_reraise():` bodies end with `raise`.
    Unchanged statements keep their identity (so `g.nodes_for(stmt)` keeps working for them);
    compound statements on the way to a rewritten `with` are shallow copies (their `.test`,
    `.items`, handler `.type` expressions keep identity)."""
    hit = _KEEP.get(id(fn))
    if hit is not None and hit[0] is fn:
        return hit[1]

    def xs(stmts):
        out, ch = [], False
        for st in stmts:
            n = x(st)
            ch = ch or (n is not st)
            out.append(n)
        return out, ch

    def x(st):
        if isinstance(st, ScopeNode):
            return st
        new = {}
        for fld in ("body", "orelse", "finalbody"):
            lst = getattr(st, fld, None)
            if isinstance(lst, list) and lst and isinstance(lst[0], ast.stmt):
                o, ch = xs(lst)
                if ch:
                    new[fld] = o
        if isinstance(st, ast.Try):
            hs, hch = [], False
            for h in st.handlers:
                o, ch = xs(h.body)
                if ch:
                    h2 = copy.copy(h)
                    h2.body = o
                    hs.append(h2)
                    hch = True
                else:
                    hs.append(h)
            if hch:
                new["handlers"] = hs
        if isinstance(st, ast.Match):
            cs, cch = [], False
            for c in st.cases:
                o, ch = xs(c.body)
                if ch:
                    c2 = copy.copy(c)
                    c2.body = o
                    cs.append(c2)
                    cch = True
                else:
                    cs.append(c)
            if cch:
                new["cases"] = cs
        if is_safe_reraise(st):
            body = new.get("body", list(st.body))
            r = ast.Raise(exc=None, cause=None)
            ln = getattr(st, "end_lineno", st.lineno)
            r.lineno = r.end_lineno = ln
            r.col_offset = r.end_col_offset = 0
            new["body"] = body + [r]
        if new:
            st2 = copy.copy(st)
            for k, v in new.items():
                setattr(st2, k, v)
            return st2
        return st

    body, ch = xs(fn.body)
    if not ch:
        view = fn
    else:
        view = copy.copy(fn)
        view.body = body
    _KEEP[id(fn)] = (fn, view)
    return view


def rcfg(ctx, f, strict_exc: bool = False):
    """CFG of FuncInfo `f` with safe_reraise blocks modelled as re-raising.
    strict_exc=True: only `except BaseException` / bare `except` stop exception propagation
    (`except Exception` lets KeyboardInterrupt / CancelledError / GreenletExit through)."""
    ctx.functions_analysed.add(f.key)
    if strict_exc:
        return ctx.cfg(reraise_view(f.node), exception_is_catch_all=False)
    return ctx.cfg(reraise_view(f.node))


_LOG_LEVELS = {"debug", "info", "warning", "warn", "error", "exception", "critical", "log"}


def is_logging_call(nm: str) -> bool:
    parts = nm.split(".")
    if len(parts) >= 2 and parts[-1] in _LOG_LEVELS and parts[-2] in ("logger", "log", "_logger", "_log"):
        return True
    return nm in ("util.warn", "util.warn_limited", "warn", "warnings.warn")


def calm(g):
    """edge_ok: statements whose only calls are logging / warning calls do not raise
    (assumption recorded in the evidence: diagnostics are not a fault source)."""
    s = set()
    pure = ("isinstance", "issubclass", "len", "bool", "id", "type")
    for n in g.nodes:
        cs = own_calls(n)
        if cs and n.kind in ("stmt", "test") and not isinstance(n.stmt, (ast.Raise, ast.Assert)) \
                and all(call_name(c) in pure for c in cs):
            s.add(n.id)
            continue
        if cs and n.kind == "stmt" and isinstance(n.stmt, ast.Expr):
            names = [call_name(c) for c in cs]
            outer = call_name(n.stmt.value) if isinstance(n.stmt.value, ast.Call) else None
            if outer and is_logging_call(outer) and all(
                nm is None or is_logging_call(nm) or nm in ("bool", "len", "str", "repr", "id") or nm.endswith(".join")
                for nm in names
            ):
                s.add(n.id)

    def ok(a, b, lab):
        return not (a in s and lab == "exc")
    return ok


def quiet(g):
    """edge_ok: entering `with util.safe_reraise():` cannot itself raise (constructing the context
    manager only captures sys.exc_info()); without this every handler that uses it would appear to
    have an exceptional exit before its cleanup."""
    s = {n.id for n in g.nodes if n.kind == "with_enter" and is_safe_reraise(n.stmt)}

    def ok(a, b, lab):
        return not (a in s and lab == "exc")
    return ok


# ---------------------------------------------------------------------- node / edge patterns
def own_calls(n) -> List[ast.Call]:
    """Calls evaluated by CFG node `n` itself (not by nested blocks)."""
    if n.stmt is None or n.kind in ("with_exit", "handler", "join"):
        return []
    if not isinstance(n.stmt, ast.stmt):
        return []
    out = []
    for part in own_exprs(n.stmt):
        out.extend(calls_in(part))
    return out


def call_nodes(g, pred: Callable[[str, ast.Call], bool]) -> List[int]:
    """CFG nodes whose own expression contains a call with pred(dotted callee, call) true."""
    out = []
    for n in g.nodes:
        for c in own_calls(n):
            nm = call_name(c)
            if nm is not None and pred(nm, c):
                out.append(n.id)
                break
    return out


def calls_ending(g, *suffixes: str) -> List[int]:
    return call_nodes(g, lambda nm, c: any(nm == s or nm.endswith("." + s) for s in suffixes))


def outcome(g, a: int, lab) -> Optional[str]:
    """Branch outcome carried by edge label `lab` leaving node `a`.  Engine quirk: when the false
    continuation of an `if`/`while`/`for` is the head of the enclosing loop, the CFG relabels that
    edge 'loop'; a 'loop' edge leaving a test/for node directly is therefore its false outcome
    (the true outcome always enters the non-empty body first)."""
    if lab in ("true", "false"):
        return lab
    if lab == "loop" and g.nodes[a].kind in ("test", "for"):
        return "false"
    return None


def test_edges(g, atom_pred: Callable[[str, bool], bool]) -> List[Tuple[int, str, int]]:
    """[(test node, label, successor)] for branch edges whose outcome implies an atom
    (text, polarity) accepted by atom_pred.  `if a and b:` true edge implies a and b."""
    out = []
    for n in g.nodes:
        if n.kind != "test":
            continue
        for b, lab0 in g.succ[n.id]:
            lab = outcome(g, n.id, lab0)
            if lab is None:
                continue
            for txt, pol in test_atoms(n.stmt.test, lab == "true"):
                if atom_pred(txt, pol):
                    out.append((n.id, lab0, b))
                    break
    return out


def cut_edges(edges: Iterable[Tuple[int, str, int]]):
    """edge_ok predicate that refuses the given (node, label, succ) edges."""
    s = {(a, lab) for a, lab, _ in edges}

    def ok(a, b, lab):
        return (a, lab) not in s
    return ok


def both(*preds):
    preds = [p for p in preds if p is not None]

    def ok(a, b, lab):
        return all(p(a, b, lab) for p in preds)
    return ok


def cut_normal_out(nodes: Iterable[int]):
    """edge_ok: leave the given nodes only through their exceptional edges."""
    s = set(nodes)

    def ok(a, b, lab):
        return not (a in s and lab != "exc")
    return ok


def cut_exc_out(nodes: Iterable[int]):
    s = set(nodes)

    def ok(a, b, lab):
        return not (a in s and lab == "exc")
    return ok


# ---------------------------------------------------------------------- path-sensitive search
def _implied(txt: str, pol: bool) -> List[Tuple[str, bool]]:
    out = [(txt, pol)]
    if txt.endswith(" is None"):
        base = txt[: -len(" is None")]
        if pol:
            out.append((base, False))        # x is None  => x falsy
    else:
        if pol:
            out.append((txt + " is None", False))  # x truthy => x is not None
    return out


class PathSense:
    """Reachability where facts about simple names are carried along the path.

    Facts: (atom text, polarity) for atoms that are a bare Name or `Name is None`.
    Sources: branch edges (conjunctive atoms of the test), `assert`, and constant assignments
    `name = True/False/None`.  A fact about a name is dropped when the name is rebound."""

    def __init__(self, g):
        self.g = g
        self._binds: Dict[int, Set[str]] = {}
        self._consts: Dict[int, List[Tuple[str, bool]]] = {}
        for n in g.nodes:
            st = n.stmt
            if st is None or n.kind in ("with_exit", "join"):
                continue
            names: Set[str] = set()
            if n.kind == "handler":
                if getattr(st, "name", None):
                    names.add(st.name)
            elif n.kind in ("stmt", "for", "with_enter"):
                if isinstance(st, (ast.Assign, ast.AnnAssign, ast.AugAssign, ast.For, ast.AsyncFor, ast.With, ast.AsyncWith)):
                    holder = ast.Module(body=[], type_ignores=[])
                    # name_stores walks children: wrap the statement's own parts
                    tmp = copy.copy(st)
                    for fld in ("body", "orelse", "finalbody"):
                        if hasattr(tmp, fld) and isinstance(getattr(tmp, fld), list):
                            setattr(tmp, fld, [])
                    holder.body = [tmp]
                    for nm, v, _ in name_stores(holder):
                        names.add(nm)
                elif isinstance(st, ast.Delete):
                    for t in st.targets:
                        if isinstance(t, ast.Name):
                            names.add(t.id)
                for part in own_exprs(st) if isinstance(st, ast.stmt) else []:
                    for x in ast.walk(part):
                        if isinstance(x, ast.NamedExpr) and isinstance(x.target, ast.Name):
                            names.add(x.target.id)
                if isinstance(st, ast.Assign) and len(st.targets) == 1 and isinstance(st.targets[0], ast.Name) \
                        and isinstance(st.value, ast.Constant) and (st.value.value is None or isinstance(st.value.value, bool)):
                    nm = st.targets[0].id
                    if st.value.value is None:
                        self._consts[n.id] = [(nm + " is None", True), (nm, False)]
                    elif st.value.value:
                        self._consts[n.id] = [(nm, True), (nm + " is None", False)]
                    else:
                        self._consts[n.id] = [(nm, False), (nm + " is None", False)]
            if names:
                self._binds[n.id] = names

    @staticmethod
    def _tracked(txt: str) -> Optional[str]:
        base = txt[: -len(" is None")] if txt.endswith(" is None") else txt
        return base if base.isidentifier() else None

    def _enter(self, facts: FrozenSet[Tuple[str, bool]], b: int) -> FrozenSet[Tuple[str, bool]]:
        names = self._binds.get(b)
        if names:
            facts = frozenset(f for f in facts if self._tracked(f[0]) not in names)
        cs = self._consts.get(b)
        if cs:
            facts = facts | frozenset(cs)
        return facts

    @classmethod
    def _eval3(cls, e: ast.expr, facts) -> Optional[bool]:
        """Three-valued truth of a test under the known facts (None = unknown)."""
        if isinstance(e, ast.UnaryOp) and isinstance(e.op, ast.Not):
            v = cls._eval3(e.operand, facts)
            return None if v is None else (not v)
        if isinstance(e, ast.BoolOp):
            vals = [cls._eval3(v, facts) for v in e.values]
            if isinstance(e.op, ast.And):
                if any(v is False for v in vals):
                    return False
                return True if all(v is True for v in vals) else None
            if any(v is True for v in vals):
                return True
            return False if all(v is False for v in vals) else None
        if isinstance(e, ast.Constant) and isinstance(e.value, (bool, type(None))):
            return bool(e.value)
        for txt, pol in test_atoms(e, True)[:1] if not isinstance(e, ast.BoolOp) else []:
            if (txt, True) in facts:
                return pol
            if (txt, False) in facts:
                return not pol
        return None

    def _edge(self, facts, a: int, lab) -> Optional[FrozenSet[Tuple[str, bool]]]:
        n = self.g.nodes[a]
        atoms: List[Tuple[str, bool]] = []
        if n.kind == "test" and outcome(self.g, a, lab) is not None:
            v = self._eval3(n.stmt.test, facts)
            if v is not None and v != (outcome(self.g, a, lab) == "true"):
                return None
        if n.kind == "test" and outcome(self.g, a, lab) is not None:
            atoms = test_atoms(n.stmt.test, outcome(self.g, a, lab) == "true")
        elif n.kind == "stmt" and isinstance(n.stmt, ast.Assert) and lab != "exc":
            atoms = test_atoms(n.stmt.test, True)
        new = set()
        for txt, pol in atoms:
            if self._tracked(txt) is None:
                continue
            for t2, p2 in _implied(txt, pol):
                if (t2, not p2) in facts:
                    return None
                new.add((t2, p2))
        return facts | new if new else facts

    def witness(
        self,
        starts: Iterable[int],
        targets: Iterable[int],
        avoid: Iterable[int] = (),
        edge_ok=None,
        start_edge_ok=None,
        init_facts: Iterable[Tuple[str, bool]] = (),
    ) -> Optional[List[str]]:
        """Feasible path start->target avoiding `avoid` (human readable) or None."""
        g = self.g
        avoid = set(avoid)
        targets = set(targets)
        f0 = frozenset(init_facts)
        prev = {}
        dq = deque()
        startset = set()
        for s in starts:
            if s in avoid and start_edge_ok is None:
                continue
            st = (s, self._enter(f0, s))
            startset.add(st)
            prev[st] = None
            dq.append(st)
        while dq:
            cur = dq.popleft()
            a, facts = cur
            for b, lab in g.succ[a]:
                if b in avoid:
                    continue
                if cur in startset and start_edge_ok is not None and not start_edge_ok(a, b, lab):
                    continue
                if edge_ok is not None and not edge_ok(a, b, lab):
                    continue
                f2 = self._edge(facts, a, lab)
                if f2 is None:
                    continue
                f2 = self._enter(f2, b)
                nxt = (b, f2)
                if nxt in prev:
                    continue
                prev[nxt] = cur
                if b in targets:
                    path = []
                    c = nxt
                    while c is not None:
                        path.append(c[0])
                        c = prev[c]
                    path.reverse()
                    return g.describe_path(path)
                dq.append(nxt)
        return None

    def must_pass(self, starts, targets, through, edge_ok=None, start_edge_ok=None, init_facts=()):
        return self.witness(starts, targets, avoid=through, edge_ok=edge_ok,
                            start_edge_ok=start_edge_ok, init_facts=init_facts)


def must_pass(g, starts, targets, through, edge_ok=None, start_edge_ok=None):
    """g.must_pass, except that a start node which is itself a `through` node counts as passed
    (the engine query does not test start nodes against `through`)."""
    through = set(through)
    starts = [s for s in starts if s not in through]
    if not starts:
        return None
    return g.must_pass(starts, targets, through, edge_ok=edge_ok, start_edge_ok=start_edge_ok)


def loc_of(f, node=None) -> str:
    ln = getattr(node, "lineno", None) if node is not None else None
    return f"{f.module.path}:{ln or f.node.lineno}"


def kw_or_pos(call: ast.Call, name: str, pos: Optional[int] = None) -> Optional[ast.expr]:
    for k in call.keywords:
        if k.arg == name:
            return k.value
    if pos is not None and pos < len(call.args):
        return call.args[pos]
    return None


def is_true(node) -> bool:
    return isinstance(node, ast.Constant) and node.value is True


def is_false(node) -> bool:
    return isinstance(node, ast.Constant) and node.value is False


# ---------------------------------------------------------------------- who-may-write scans (T-OWN)
def owner_key(m, node: ast.AST) -> str:
    """`relpath::Class.method` of the outermost function containing `node` (nested helper functions
    and lambdas are attributed to the method that defines them); `relpath::Class` /
    `relpath::<module>` for class / module level statements."""
    pm = m.parents()
    chain = []
    cur = pm.get(node)
    while cur is not None:
        if isinstance(cur, (ast.FunctionDef, ast.AsyncFunctionDef, ast.ClassDef)):
            chain.append(cur)
        cur = pm.get(cur)
    chain.reverse()
    names = []
    for c in chain:
        names.append(c.name)
        if isinstance(c, (ast.FunctionDef, ast.AsyncFunctionDef)):
            break
    return f"{m.relpath}::{'.'.join(names) if names else '<module>'}"


def attr_store_sites(ix, attr: str):
    """Every store / augmented store / delete of an attribute named `attr` in the package:
    [(owner key, dotted target, statement, module)].  Modules are pre-filtered by a cheap text
    test (the attribute name must occur in the source at all)."""
    from ..astutil import attr_stores
    out = []
    for m in ix.all_modules():
        if attr not in m.source:
            continue
        for d, tgt, st in attr_stores(m.tree, into_nested=True):
            if d.rsplit(".", 1)[-1] == attr:
                out.append((owner_key(m, st), d, st, m))
        # setattr(x, "attr", v) / object.__setattr__(x, "attr", v)
        for n in ast.walk(m.tree):
            if isinstance(n, ast.Call) and (call_name(n) or "").rsplit(".", 1)[-1] in ("setattr", "__setattr__", "delattr"):
                if any(isinstance(a, ast.Constant) and a.value == attr for a in n.args):
                    out.append((owner_key(m, n), f"setattr:{attr}", n, m))
    return out


# ---------------------------------------------------------------------- tiny declared-type resolver
def _ann_class(ix, m, ann: Optional[ast.expr]):
    """ClassInfo named by an annotation (`X`, `Optional[X]`, `"X"`), else None."""
    from ..index import ClassInfo
    if ann is None:
        return None
    if isinstance(ann, ast.Constant) and isinstance(ann.value, str):
        try:
            ann = ast.parse(ann.value, mode="eval").body
        except SyntaxError:
            return None
    if isinstance(ann, ast.Subscript) and (dotted(ann.value) or "").split(".")[-1] in ("Optional", "ClassVar", "Final"):
        return _ann_class(ix, m, ann.slice)
    d = dotted(ann)
    if not d:
        return None
    r = ix.resolve(m, d)
    return r if isinstance(r, ClassInfo) else None


def receiver_class(ix, m, store_stmt: ast.AST, receiver: str):
    """Declared class of the receiver expression (`self`, `param`, `self.attr`) of an attribute
    store inside module m, read from parameter / class-level annotations; None if unknown."""
    pm = m.parents()
    fn = cls = None
    cur = pm.get(store_stmt)
    while cur is not None:
        if fn is None and isinstance(cur, (ast.FunctionDef, ast.AsyncFunctionDef)):
            fn = cur
        if isinstance(cur, ast.ClassDef):
            cls = cur
            break
        cur = pm.get(cur)
    ci = None
    if cls is not None:
        for c in ix._all_classes(m):
            if c.node is cls:
                ci = c
    parts = receiver.split(".")
    if parts == ["self"] or parts == ["cls"]:
        return ci
    if len(parts) == 1 and fn is not None:
        a = fn.args
        for arg in a.posonlyargs + a.args + a.kwonlyargs:
            if arg.arg == parts[0]:
                return _ann_class(ix, m, arg.annotation)
        return None
    if len(parts) == 2 and parts[0] == "self" and ci is not None:
        for k in ix.mro(ci):
            for st in k.node.body:
                if isinstance(st, ast.AnnAssign) and isinstance(st.target, ast.Name) and st.target.id == parts[1]:
                    r = _ann_class(ix, k.module, st.annotation)
                    if r is not None:
                        return r
        return None
    return None


# ---------------------------------------------------------------------- more exception-edge assumptions
def fin_quiet(g):
    """edge_ok: statements of a `finally` block do not raise themselves (obligations placed in a
    finally are judged under the assumption that the clean-up code runs to completion)."""
    s = {n.id for n in g.nodes if n.copy}

    def ok(a, b, lab):
        return not (a in s and lab == "exc")
    return ok


def _trivial_body(fn: ast.AST) -> bool:
    body = [s for s in fn.body if not (isinstance(s, ast.Expr) and isinstance(s.value, ast.Constant))]
    if len(body) != 1:
        return False
    st = body[0]
    if isinstance(st, ast.Raise):
        return True  # abstract placeholder (`raise NotImplementedError()`): never the run-time target
    return isinstance(st, ast.Return) and st.value is not None and not any(
        isinstance(x, (ast.Call, ast.Await, ast.Subscript)) for x in ast.walk(st.value))


def trivial_predicates(ctx, f):
    """edge_ok: test nodes of `f` whose calls are all argument-less `self.m()` where every
    definition of `m` in the hierarchy of f's class is a single `return <call-free expr>` cannot raise."""
    ix = ctx.index
    g_cache = {}

    def is_trivial(name: str) -> bool:
        if name in g_cache:
            return g_cache[name]
        root = f.cls
        ok = root is not None
        if ok:
            tops = [k for k in ix.mro(root) if name in k.methods] or [root]
            fam = set()
            for t in tops[-1:]:
                fam.add(t)
                fam.update(ix.subclasses(t))
            defs = [k.methods[name] for k in fam if name in k.methods]
            ok = bool(defs) and all(_trivial_body(d.node) for d in defs)
        g_cache[name] = ok
        return ok

    def make(g):
        s = set()
        for n in g.nodes:
            if n.kind != "test":
                continue
            cs = own_calls(n)
            if cs and all(
                (call_name(c) or "").startswith("self.") and (call_name(c) or "").count(".") == 1
                and not c.args and not c.keywords and is_trivial(call_name(c)[5:]) for c in cs
            ):
                s.add(n.id)

        def ok(a, b, lab):
            return not (a in s and lab == "exc")
        return ok
    return make
