"""Helpers of the rob-E1 robustification pass (C10, C14, C16).

Everything works on `ast` only -- nothing imports or runs SQLAlchemy.

* `TinyPy`           a concrete interpreter for small, data-structure level Python functions (lists / sets / dicts /
                     defaultdict, for / while / if, comprehensions, generators evaluated eagerly, calls of functions of the
                     same module).  It is used to *observe* what a small algorithm does with a probe input (which end of a
                     dependency pair does util.topological emit first; which pairs does CircularDependencyError report)
                     instead of matching the shape of its loops.  Anything outside the subset raises `Unsupported`
                     (-> the rule exits 2).
* `once_bound` / `expand`   copy propagation of locals bound exactly once
* `cfg_atoms`        dominating branch outcomes of a statement from the CFG (early return / continue, nested ifs, inverted
                     if/else all give the same atoms), optionally with once-bound locals expanded
* `virtual_return`   `r = X; r.append(Y); r.extend(Z); return r`  ->  the expression `X + [Y] + Z`
"""

from __future__ import annotations

import ast
import collections
import copy
from typing import Dict, Iterable, List, Optional, Sequence, Tuple

from ..astutil import guard_atoms, name_stores, test_atoms, unparse, walk_local


class Unsupported(Exception):
    pass


class Raised(Exception):
    """The interpreted code executed `raise <Call>`: the call node and the environment it would be evaluated in."""

    def __init__(self, node: ast.Raise, env, interp):
        super().__init__(unparse(node)[:80])
        self.node = node
        self.env = env
        self.interp = interp

    def exc_name(self) -> str:
        e = self.node.exc
        if isinstance(e, ast.Call):
            e = e.func
        return unparse(e).rsplit(".", 1)[-1] if e is not None else ""

    def arg(self, pos: int, name: str):
        """value of the positional / keyword argument of the raised constructor call"""
        e = self.node.exc
        if not isinstance(e, ast.Call):
            raise Unsupported("raise of a non-call")
        for k in e.keywords:
            if k.arg == name:
                return self.interp.ev(k.value, self.env)
        if pos < len(e.args) and not any(isinstance(a, ast.Starred) for a in e.args):
            return self.interp.ev(e.args[pos], self.env)
        raise Unsupported(f"argument `{name}` of `{unparse(e)[:60]}` not found")


class _Return(Exception):
    def __init__(self, value):
        self.value = value


class _Break(Exception):
    pass


class _Continue(Exception):
    pass


class _Closure:
    def __init__(self, node, env):
        self.node = node
        self.env = env


_SAFE_BUILTINS = {
    "list": list, "set": set, "dict": dict, "tuple": tuple, "frozenset": frozenset, "len": len, "sorted": sorted,
    "reversed": lambda x: list(reversed(x)), "enumerate": lambda *a: list(enumerate(*a)), "zip": lambda *a: list(zip(*a)),
    "range": range, "min": min, "max": max, "any": any, "all": all, "bool": bool, "iter": iter, "next": next,
    "sum": sum, "str": str, "int": int, "repr": repr, "id": id, "isinstance": None,
}
_SAFE_METHODS = {
    list: {"append", "extend", "pop", "index", "remove", "insert", "reverse", "copy", "count", "sort", "clear"},
    tuple: {"index", "count"},
    set: {"add", "discard", "remove", "update", "difference", "difference_update", "union", "intersection",
          "intersection_update", "isdisjoint", "issubset", "issuperset", "copy", "pop", "clear", "symmetric_difference"},
    frozenset: {"difference", "union", "intersection", "isdisjoint", "issubset", "issuperset", "copy", "symmetric_difference"},
    dict: {"get", "items", "keys", "values", "setdefault", "pop", "update", "copy", "clear"},
    str: {"join", "format", "startswith", "endswith", "split", "strip", "lower", "upper"},
}
_DEFAULTDICT_NAMES = ("defaultdict",)


class TinyPy:
    """Concrete interpreter; `functions` {name: ast.FunctionDef} are the functions of the analysed module that may be
    called by (unqualified) name.  Generator functions are evaluated eagerly and return the list of yielded values."""

    def __init__(self, functions: Dict[str, ast.FunctionDef], free: Optional[Dict[str, object]] = None, budget: int = 200000,
                 max_depth: int = 8):
        self.functions = functions
        self.free = dict(free or {})
        self.budget = budget
        self.max_depth = max_depth
        self._yields: List[List[object]] = []
        self._depth = 0

    # ------------------------------------------------------------------------------------------ calls
    def call(self, fn: ast.FunctionDef, args: Sequence[object] = (), kwargs: Optional[Dict[str, object]] = None, closure=None):
        kwargs = dict(kwargs or {})
        a = fn.args
        if a.vararg or a.kwarg:
            raise Unsupported(f"signature of {getattr(fn, 'name', '<lambda>')}")
        pos = [x.arg for x in a.posonlyargs + a.args]
        if len(args) > len(pos):
            raise Unsupported(f"too many arguments for {getattr(fn, 'name', '<lambda>')}")
        env = dict(closure or {})
        env.update(zip(pos, args))
        defaults = dict(zip(pos[len(pos) - len(a.defaults):], a.defaults))
        defaults.update({x.arg: d for x, d in zip(a.kwonlyargs, a.kw_defaults) if d is not None})
        for p in pos[len(args):] + [x.arg for x in a.kwonlyargs]:
            if p in kwargs:
                env[p] = kwargs.pop(p)
            elif p in defaults:
                env[p] = self.ev(defaults[p], {})
            else:
                raise Unsupported(f"missing argument `{p}`")
        if kwargs:
            raise Unsupported(f"unexpected keyword arguments {sorted(kwargs)}")
        if isinstance(fn, ast.Lambda):
            return self.ev(fn.body, env)
        self._depth += 1
        if self._depth > self.max_depth:
            raise Unsupported("call depth")
        is_gen = any(isinstance(n, (ast.Yield, ast.YieldFrom)) for n in walk_local(fn))
        if is_gen:
            self._yields.append([])
        try:
            try:
                self.run(fn.body, env)
                ret = None
            except _Return as r:
                ret = r.value
            except (_Break, _Continue):
                raise Unsupported("break/continue outside a loop")
            if is_gen:
                return self._yields[-1]
            return ret
        finally:
            self._depth -= 1
            if is_gen:
                self._yields.pop()

    # ------------------------------------------------------------------------------------------ statements
    def _tick(self):
        self.budget -= 1
        if self.budget < 0:
            raise Unsupported("step budget exhausted")

    def run(self, body: Sequence[ast.stmt], env):
        for st in body:
            self._tick()
            if isinstance(st, ast.Expr):
                if not isinstance(st.value, ast.Constant):
                    self.ev(st.value, env)
            elif isinstance(st, ast.Assign):
                v = self.ev(st.value, env)
                for t in st.targets:
                    self._store(t, v, env)
            elif isinstance(st, ast.AnnAssign):
                if st.value is not None:
                    self._store(st.target, self.ev(st.value, env), env)
            elif isinstance(st, ast.AugAssign):
                cur = self.ev(_as_load(st.target), env)
                rhs = self.ev(st.value, env)
                self._store(st.target, self._aug(st.op, cur, rhs, st), env)
            elif isinstance(st, ast.Return):
                raise _Return(self.ev(st.value, env) if st.value is not None else None)
            elif isinstance(st, ast.If):
                self.run(st.body if self.ev(st.test, env) else st.orelse, env)
            elif isinstance(st, ast.For):
                broke = False
                for x in self._iterate(self.ev(st.iter, env)):
                    self._tick()
                    self._store(st.target, x, env)
                    try:
                        self.run(st.body, env)
                    except _Break:
                        broke = True
                        break
                    except _Continue:
                        continue
                if not broke:
                    self.run(st.orelse, env)
            elif isinstance(st, ast.While):
                broke = False
                while self.ev(st.test, env):
                    self._tick()
                    try:
                        self.run(st.body, env)
                    except _Break:
                        broke = True
                        break
                    except _Continue:
                        continue
                if not broke:
                    self.run(st.orelse, env)
            elif isinstance(st, ast.Pass):
                pass
            elif isinstance(st, ast.Break):
                raise _Break()
            elif isinstance(st, ast.Continue):
                raise _Continue()
            elif isinstance(st, ast.Raise):
                raise Raised(st, dict(env), self)
            elif isinstance(st, ast.FunctionDef):
                env[st.name] = _Closure(st, env)
            elif isinstance(st, ast.Assert):
                if not self.ev(st.test, env):
                    raise Raised(ast.Raise(exc=ast.Name(id="AssertionError", ctx=ast.Load()), cause=None), dict(env), self)
            elif isinstance(st, ast.Delete):
                for t in st.targets:
                    if isinstance(t, ast.Subscript):
                        del self.ev(t.value, env)[self.ev(t.slice, env)]
                    elif isinstance(t, ast.Name):
                        env.pop(t.id, None)
                    else:
                        raise Unsupported(unparse(st))
            else:
                raise Unsupported(f"statement `{unparse(st).splitlines()[0][:80]}`")

    def _aug(self, op, cur, rhs, st):
        try:
            if isinstance(op, ast.Add):
                if isinstance(cur, list):
                    cur.extend(rhs)
                    return cur
                return cur + rhs
            if isinstance(op, ast.Sub):
                if isinstance(cur, set):
                    cur.difference_update(rhs)
                    return cur
                return cur - rhs
            if isinstance(op, ast.BitOr):
                if isinstance(cur, set):
                    cur.update(rhs)
                    return cur
                return cur | rhs
            if isinstance(op, ast.BitAnd):
                if isinstance(cur, set):
                    cur.intersection_update(rhs)
                    return cur
                return cur & rhs
        except TypeError as e:
            raise Unsupported(f"{unparse(st)[:60]}: {e}")
        raise Unsupported(unparse(st)[:60])

    def _iterate(self, v):
        if isinstance(v, (list, tuple, set, frozenset, dict, str, range)) or type(v).__name__ in ("dict_items", "dict_keys", "dict_values"):
            return list(v)
        raise Unsupported(f"iteration over {type(v).__name__}")

    def _store(self, t, v, env):
        if isinstance(t, ast.Name):
            env[t.id] = v
        elif isinstance(t, (ast.Tuple, ast.List)):
            vals = self._iterate(v)
            if any(isinstance(e, ast.Starred) for e in t.elts) or len(vals) != len(t.elts):
                raise Unsupported(f"unpacking into `{unparse(t)}`")
            for e, x in zip(t.elts, vals):
                self._store(e, x, env)
        elif isinstance(t, ast.Subscript):
            recv = self.ev(t.value, env)
            if not isinstance(recv, (list, dict)):
                raise Unsupported(f"item store on {type(recv).__name__}")
            try:
                recv[self.ev(t.slice, env)] = v
            except (TypeError, IndexError, KeyError) as e:
                raise Unsupported(f"{unparse(t)}: {e}")
        else:
            raise Unsupported(f"assignment target `{unparse(t)}`")

    # ------------------------------------------------------------------------------------------ expressions
    def ev(self, e, env):
        self._tick()
        if isinstance(e, ast.Constant):
            return e.value
        if isinstance(e, ast.Name):
            if e.id in env:
                return env[e.id]
            if e.id in self.free:
                return self.free[e.id]
            if e.id in self.functions:
                return _Closure(self.functions[e.id], {})
            if e.id in _SAFE_BUILTINS and _SAFE_BUILTINS[e.id] is not None:
                return _SAFE_BUILTINS[e.id]
            if e.id in _DEFAULTDICT_NAMES:
                return collections.defaultdict
            raise Unsupported(f"name `{e.id}`")
        if isinstance(e, ast.Attribute):
            if e.attr in _DEFAULTDICT_NAMES:
                return collections.defaultdict
            if e.attr == "OrderedDict":
                return dict
            if e.attr in ("OrderedSet",):
                raise Unsupported("OrderedSet")
            recv = self.ev(e.value, env)
            for tp, names in _SAFE_METHODS.items():
                if isinstance(recv, tp) and e.attr in names:
                    return getattr(recv, e.attr)
            raise Unsupported(f"attribute `{unparse(e)[:60]}` of {type(recv).__name__}")
        if isinstance(e, ast.Tuple):
            return tuple(self._elts(e.elts, env))
        if isinstance(e, ast.List):
            return list(self._elts(e.elts, env))
        if isinstance(e, ast.Set):
            return set(self._elts(e.elts, env))
        if isinstance(e, ast.Dict):
            out = {}
            for k, v in zip(e.keys, e.values):
                if k is None:
                    out.update(self.ev(v, env))
                else:
                    out[self.ev(k, env)] = self.ev(v, env)
            return out
        if isinstance(e, ast.UnaryOp):
            v = self.ev(e.operand, env)
            if isinstance(e.op, ast.Not):
                return not v
            if isinstance(e.op, ast.USub) and isinstance(v, int):
                return -v
            raise Unsupported(unparse(e)[:60])
        if isinstance(e, ast.BoolOp):
            v = None
            for x in e.values:
                v = self.ev(x, env)
                if isinstance(e.op, ast.And) and not v:
                    return v
                if isinstance(e.op, ast.Or) and v:
                    return v
            return v
        if isinstance(e, ast.IfExp):
            return self.ev(e.body if self.ev(e.test, env) else e.orelse, env)
        if isinstance(e, ast.Compare):
            left = self.ev(e.left, env)
            for op, c in zip(e.ops, e.comparators):
                right = self.ev(c, env)
                try:
                    r = _CMP[type(op)](left, right)
                except KeyError:
                    raise Unsupported(unparse(e)[:60])
                except TypeError as ex:
                    raise Unsupported(f"{unparse(e)[:60]}: {ex}")
                if not r:
                    return False
                left = right
            return True
        if isinstance(e, ast.BinOp):
            a, b = self.ev(e.left, env), self.ev(e.right, env)
            try:
                if isinstance(e.op, ast.Add):
                    return a + b
                if isinstance(e.op, ast.Sub):
                    return a - b
                if isinstance(e.op, ast.BitOr):
                    return a | b
                if isinstance(e.op, ast.BitAnd):
                    return a & b
                if isinstance(e.op, ast.Mod) and isinstance(a, str):
                    return a % b
                if isinstance(e.op, ast.Mult) and isinstance(a, (int, list, str)) and isinstance(b, (int, list, str)):
                    return a * b
            except TypeError as ex:
                raise Unsupported(f"{unparse(e)[:60]}: {ex}")
            raise Unsupported(unparse(e)[:60])
        if isinstance(e, ast.Subscript):
            recv = self.ev(e.value, env)
            if not isinstance(recv, (list, tuple, dict, str)):
                raise Unsupported(f"subscript of {type(recv).__name__}")
            if isinstance(e.slice, ast.Slice):
                lo, hi, stp = (None if x is None else self.ev(x, env) for x in (e.slice.lower, e.slice.upper, e.slice.step))
                return recv[lo:hi:stp]
            try:
                return recv[self.ev(e.slice, env)]
            except (KeyError, IndexError, TypeError) as ex:
                raise Unsupported(f"{unparse(e)[:60]}: {type(ex).__name__}")
        if isinstance(e, (ast.ListComp, ast.SetComp, ast.GeneratorExp, ast.DictComp)):
            return self._comp(e, env)
        if isinstance(e, ast.Lambda):
            return _Closure(e, env)
        if isinstance(e, ast.Yield):
            if not self._yields:
                raise Unsupported("yield outside a generator")
            self._yields[-1].append(self.ev(e.value, env) if e.value is not None else None)
            return None
        if isinstance(e, ast.YieldFrom):
            if not self._yields:
                raise Unsupported("yield outside a generator")
            self._yields[-1].extend(self._iterate(self.ev(e.value, env)))
            return None
        if isinstance(e, ast.NamedExpr) and isinstance(e.target, ast.Name):
            v = self.ev(e.value, env)
            env[e.target.id] = v
            return v
        if isinstance(e, ast.Call):
            return self._call(e, env)
        if isinstance(e, ast.JoinedStr):
            return "".join(str(self.ev(v.value, env)) if isinstance(v, ast.FormattedValue) else str(v.value) for v in e.values)
        if isinstance(e, ast.Starred):
            raise Unsupported("starred expression")
        raise Unsupported(f"expression `{unparse(e)[:60]}`")

    def _elts(self, elts, env):
        out = []
        for x in elts:
            if isinstance(x, ast.Starred):
                out.extend(self._iterate(self.ev(x.value, env)))
            else:
                out.append(self.ev(x, env))
        return out

    def _comp(self, e, env):
        out: List[object] = []

        def rec(i, env2):
            if i == len(e.generators):
                if isinstance(e, ast.DictComp):
                    out.append((self.ev(e.key, env2), self.ev(e.value, env2)))
                else:
                    out.append(self.ev(e.elt, env2))
                return
            gen = e.generators[i]
            if gen.is_async:
                raise Unsupported("async comprehension")
            for x in self._iterate(self.ev(gen.iter, env2)):
                self._tick()
                env3 = dict(env2)
                self._store(gen.target, x, env3)
                if all(self.ev(c, env3) for c in gen.ifs):
                    rec(i + 1, env3)

        rec(0, dict(env))
        if isinstance(e, ast.SetComp):
            return set(out)
        if isinstance(e, ast.DictComp):
            return dict(out)
        return out

    def _call(self, e: ast.Call, env):
        fn = self.ev(e.func, env)
        args = self._elts(e.args, env)
        kwargs = {}
        for k in e.keywords:
            if k.arg is None:
                raise Unsupported("**kwargs call")
            kwargs[k.arg] = self.ev(k.value, env)
        if isinstance(fn, _Closure):
            return self.call(fn.node, args, kwargs, closure=fn.env)
        if fn is collections.defaultdict:
            if len(args) != 1 or args[0] not in (set, list, dict, int) or kwargs:
                raise Unsupported(unparse(e)[:60])
            return collections.defaultdict(args[0])
        if fn in (sorted, min, max) and "key" in kwargs:
            key = kwargs.pop("key")
            if isinstance(key, _Closure):
                kwargs["key"] = lambda x, key=key: self.call(key.node, [x], {}, closure=key.env)
            else:
                kwargs["key"] = key
        if fn in (any, all, sum, list, set, tuple, frozenset, sorted, min, max) and len(args) == 1:
            args = [self._iterate(args[0]) if not isinstance(args[0], (int, type(None))) else args[0]]
        if callable(fn):
            try:
                return fn(*args, **kwargs)
            except Raised:
                raise
            except (TypeError, ValueError, KeyError, IndexError, AttributeError, StopIteration) as ex:
                raise Unsupported(f"{unparse(e)[:60]}: {type(ex).__name__}: {ex}")
        raise Unsupported(f"call of `{unparse(e.func)[:60]}`")


_CMP = {
    ast.Is: lambda a, b: a is b, ast.IsNot: lambda a, b: a is not b, ast.Eq: lambda a, b: a == b,
    ast.NotEq: lambda a, b: a != b, ast.In: lambda a, b: a in b, ast.NotIn: lambda a, b: a not in b,
    ast.Lt: lambda a, b: a < b, ast.LtE: lambda a, b: a <= b, ast.Gt: lambda a, b: a > b, ast.GtE: lambda a, b: a >= b,
}


def _as_load(t):
    t2 = copy.deepcopy(t)
    for n in ast.walk(t2):
        if hasattr(n, "ctx"):
            n.ctx = ast.Load()
    return t2


def module_functions(module) -> Dict[str, ast.FunctionDef]:
    """{name: FunctionDef} of the plain module-level functions of an indexed module"""
    return {n.name: n for n in module.tree.body if isinstance(n, ast.FunctionDef)}


# ---------------------------------------------------------------------------------------------- locals
def once_bound(fnode) -> Dict[str, ast.expr]:
    """{local: value} for names bound exactly once inside `fnode` by a plain `name = value` / `name: T = value`
    (parameters, loop / with / except targets, tuple unpacking, augmented assignment, walrus excluded).  Cached on the node."""
    cached = getattr(fnode, "_rob_e1_once_bound", None)
    if cached is not None:
        return cached
    counts: Dict[str, int] = {}
    vals: Dict[str, ast.expr] = {}
    for n, v, st in name_stores(fnode):
        counts[n] = counts.get(n, 0) + 1
        if v is not None and isinstance(st, (ast.Assign, ast.AnnAssign)) and \
                (isinstance(st, ast.AnnAssign) or (len(st.targets) == 1 and isinstance(st.targets[0], ast.Name))):
            vals[n] = v
        else:
            counts[n] += 1
    for n in walk_local(fnode):
        if isinstance(n, ast.NamedExpr) and isinstance(n.target, ast.Name):
            counts[n.target.id] = counts.get(n.target.id, 0) + 2
        elif isinstance(n, ast.ExceptHandler) and n.name:
            counts[n.name] = counts.get(n.name, 0) + 2
        elif isinstance(n, ast.AugAssign) and isinstance(n.target, ast.Name):
            counts[n.target.id] = counts.get(n.target.id, 0) + 2
    params = set()
    a = getattr(fnode, "args", None)
    if a is not None:
        params = {x.arg for x in a.posonlyargs + a.args + a.kwonlyargs}
        if a.vararg:
            params.add(a.vararg.arg)
        if a.kwarg:
            params.add(a.kwarg.arg)
    out = {n: v for n, v in vals.items() if counts.get(n) == 1 and n not in params}
    try:
        fnode._rob_e1_once_bound = out
    except Exception:
        pass
    return out


class _Subst(ast.NodeTransformer):
    def __init__(self, mapping):
        self.mapping = mapping

    def visit_Name(self, node):
        if isinstance(node.ctx, ast.Load) and node.id in self.mapping:
            return copy.deepcopy(self.mapping[node.id])
        return node


def expand(expr: ast.AST, defs: Dict[str, ast.expr], keep: Iterable[str] = (), depth: int = 4, pred=None) -> ast.AST:
    """`expr` with once-bound locals replaced (repeatedly) by their values; `pred(value)` restricts which bindings are
    expanded (e.g. only pure attribute chains)."""
    keep = set(keep)
    m = {k: v for k, v in defs.items() if k not in keep and (pred is None or pred(v))}
    for _ in range(depth):
        names = {n.id for n in ast.walk(expr) if isinstance(n, ast.Name) and isinstance(n.ctx, ast.Load)}
        if not (names & set(m)):
            break
        expr = ast.fix_missing_locations(_Subst(m).visit(copy.deepcopy(expr)))
    return expr


def is_attr_chain(v) -> bool:
    """`a.b.c` rooted at a name (a pure alias: reading it again gives the same object unless something re-assigns it)"""
    if not isinstance(v, (ast.Attribute, ast.Name)):
        return False
    while isinstance(v, ast.Attribute):
        v = v.value
    return isinstance(v, ast.Name)


def resolve_name(e, defs: Dict[str, ast.expr], depth: int = 4):
    while depth > 0 and isinstance(e, ast.Name) and e.id in defs:
        e = defs[e.id]
        depth -= 1
    return e


# ---------------------------------------------------------------------------------------------- guards
def cfg_guards(g, stmt) -> List[Tuple[ast.expr, bool]]:
    """[(test expr, polarity)] branch outcomes dominating EVERY CFG copy of `stmt` (intersection over finally copies)."""
    nodes = g.nodes_for(stmt)
    if not nodes:
        return []
    per = [g.edge_guards(n) for n in nodes]
    out = list(per[0])
    for other in per[1:]:
        keys = {(id(t), p) for t, p in other}
        out = [(t, p) for t, p in out if (id(t), p) in keys]
    return out


def cfg_atoms(g, stmt, defs: Optional[Dict[str, ast.expr]] = None, keep: Iterable[str] = (), pred=None, extra=()):
    """atoms [(text, polarity)] of the CFG guards of `stmt` (+ `extra` lexical guards, e.g. of a comprehension);
    with `defs`, once-bound locals inside the tests are expanded first (both spellings are reported)."""
    guards = list(cfg_guards(g, stmt)) + list(extra)
    atoms = list(guard_atoms(guards))
    if defs:
        for t, p in guards:
            t2 = expand(t, defs, keep, pred=pred)
            for a in test_atoms(t2, p):
                if a not in atoms:
                    atoms.append(a)
    return atoms


def enclosing_stmt_of(pm, node):
    cur = node
    while cur is not None and not isinstance(cur, ast.stmt):
        cur = pm.get(cur)
    return cur


def comp_guards(pm, node, stop=None) -> List[Tuple[ast.expr, bool]]:
    """Guards between `node` and its statement that statement-level guards do not see: the `if` clauses of the
    comprehensions whose element `node` belongs to, ternaries and and/or operands."""
    from ..astutil import lexical_guards
    st = enclosing_stmt_of(pm, node)
    if st is None or st is node:
        return []
    out = list(lexical_guards(pm, node, stop=st))
    child, cur = node, pm.get(node)
    while cur is not None and cur is not st:
        if isinstance(cur, (ast.ListComp, ast.SetComp, ast.GeneratorExp)) and child is cur.elt or \
                isinstance(cur, ast.DictComp) and (child is cur.key or child is cur.value):
            for gen in cur.generators:
                out.extend((t, True) for t in gen.ifs)
        child, cur = cur, pm.get(cur)
    return out


# ---------------------------------------------------------------------------------------------- result lists
def virtual_return(fnode) -> Optional[Tuple[ast.Return, ast.expr]]:
    """(return statement, value expression) of a function with one value-returning `return`.  A result list that is
    built in steps in the function's top-level block -- `r = X` ... `r.append(Y)` / `r.extend(Z)` / `r += Z` ...
    `return r` -- is folded into the expression `X + [Y] + Z` (fresh nodes, positions of the originals)."""
    rets = [r for r in walk_local(fnode) if isinstance(r, ast.Return) and r.value is not None]
    if len(rets) != 1:
        return None
    ret = rets[0]
    v = ret.value
    if not isinstance(v, ast.Name) or ret not in fnode.body:
        return ret, v
    name = v.id
    binds = [(val, st) for n, val, st in name_stores(fnode) if n == name]
    if len(binds) != 1 or binds[0][0] is None or binds[0][1] not in fnode.body:
        return ret, v
    expr, st0 = binds[0]
    i0, i1 = fnode.body.index(st0), fnode.body.index(ret)
    # every other use of the name between the binding and the return must be one of the growth statements
    uses = [n for st in fnode.body[i0 + 1:i1] for n in ast.walk(st) if isinstance(n, ast.Name) and n.id == name]
    grown = 0
    for st in fnode.body[i0 + 1:i1]:
        add = None
        if isinstance(st, ast.Expr) and isinstance(st.value, ast.Call) and isinstance(st.value.func, ast.Attribute) \
                and isinstance(st.value.func.value, ast.Name) and st.value.func.value.id == name and len(st.value.args) == 1 \
                and not st.value.keywords:
            if st.value.func.attr == "append":
                add = ast.List(elts=[st.value.args[0]], ctx=ast.Load())
            elif st.value.func.attr == "extend":
                add = st.value.args[0]
        elif isinstance(st, ast.AugAssign) and isinstance(st.op, ast.Add) and isinstance(st.target, ast.Name) and st.target.id == name:
            add = st.value
        if add is not None:
            if any(isinstance(n, ast.Name) and n.id == name for n in ast.walk(add)):
                return ret, v
            grown += 1
            if not hasattr(add, "lineno"):
                ast.copy_location(add, st)
            expr = ast.copy_location(ast.BinOp(left=expr, op=ast.Add(), right=add), st)
    if grown != len(uses):
        return ret, v   # the list is used in some other way in between: leave it to the caller's idiom check
    return ret, expr


# ---------------------------------------------------------------------------------------------- propositional guards
def _formula(test):
    """boolean structure of a test over normalised atom texts: ('atom', text) | ('not', f) | ('and', [f..]) | ('or', [f..])"""
    if isinstance(test, ast.UnaryOp) and isinstance(test.op, ast.Not):
        return ("not", _formula(test.operand))
    if isinstance(test, ast.BoolOp):
        return ("and" if isinstance(test.op, ast.And) else "or", [_formula(v) for v in test.values])
    atoms = test_atoms(test, True)
    if len(atoms) == 1:
        text, pol = atoms[0]
        return ("atom", text) if pol else ("not", ("atom", text))
    return ("atom", unparse(test))


def _atoms_of(fm, out):
    if fm[0] == "atom":
        out.add(fm[1])
    elif fm[0] == "not":
        _atoms_of(fm[1], out)
    else:
        for x in fm[1]:
            _atoms_of(x, out)


def _eval_formula(fm, val):
    if fm[0] == "atom":
        return val[fm[1]]
    if fm[0] == "not":
        return not _eval_formula(fm[1], val)
    if fm[0] == "and":
        return all(_eval_formula(x, val) for x in fm[1])
    return any(_eval_formula(x, val) for x in fm[1])


def guards_imply(guards, atom_text: str, value: bool, defs: Optional[Dict[str, ast.expr]] = None, max_atoms: int = 10) -> bool:
    """Do the branch outcomes `guards` [(test, polarity)] entail `atom_text == value`?  Decided by enumerating the truth
    assignments of the atoms (the atoms are treated as independent propositions: sound for an 'is entailed' answer).
    `if a and b: raise` followed by `if a: return` entails `not b` at the return -- which a per-test atom split cannot see."""
    fms = []
    for t, p in guards:
        if defs:
            t = expand(t, defs)
        fm = _formula(t)
        fms.append(fm if p else ("not", fm))
    names = set()
    for fm in fms:
        _atoms_of(fm, names)
    if atom_text not in names:
        return False
    names = sorted(names)
    if len(names) > max_atoms:
        # fall back to the conjunctive split
        return (atom_text, value) in guard_atoms(guards)
    sat = False
    for bits in range(1 << len(names)):
        val = {n: bool(bits >> i & 1) for i, n in enumerate(names)}
        if all(_eval_formula(fm, val) for fm in fms):
            sat = True
            if val[atom_text] != value:
                return False
    return sat
