"""C48 -- Pending changes survive dropped references (strong-reference lifetime)."""

from __future__ import annotations

import ast
from typing import Dict, List, Set

from ..astutil import calls_in, dotted, name_stores, unparse, walk_local, walk_stmts
from ..cfg import no_exc
from ..report import Registry, sub
from ._helpers_rules_d import attr_store_nodes, call_nodes, callee_is, const_is, guard_atom_set, qualname

R = Registry(
    "C48",
    title="Pending changes survive the application dropping its references",
    decides=(
        "InstanceState._modified_event takes a strong reference to the instance and enters the state into the "
        "identity map's _modified set on every path that marks an attached state modified; _strong_obj is written "
        "only by the enumerated functions and is cleared only where the modified flag is reset or the state leaves "
        "its session on the same path; attaching an already-modified state re-establishes the strong reference; "
        "the identity map itself stores states (weakly referencing their objects) and keeps modified states in a "
        "strong set."
    ),
    not_decided="garbage-collector timing; that every mutation API reaches _modified_event (C38/C49 cover mutators).",
)

STATE = "orm/state.py"
SESSION = "orm/session.py"
IDENT = "orm/identity.py"
IS = f"{STATE}::InstanceState"


def _test_nodes(g, text: str) -> List[int]:
    return [n.id for n in g.nodes if n.kind == "test" and unparse(n.stmt.test) == text]


@R.rule("C48-R1", floor=4, template="T-PATH",
        desc="_modified_event: every normal path that sets modified=True on an attached state assigns "
             "_strong_obj = self.obj() and adds the state to instance_dict._modified")
def r1(ctx):
    f = ctx.func(f"{IS}._modified_event")
    g = ctx.cfg(f)
    mod = attr_store_nodes(g, "modified", lambda v: const_is(v, True), "self")
    ctx.require(mod, "_modified_event never sets self.modified = True")
    strong = attr_store_nodes(g, "_strong_obj", lambda v: not const_is(v, None), "self")
    sid_tests = set(_test_nodes(g, "self.session_id"))
    w = g.must_pass(mod, [g.exit], strong, edge_ok=lambda a, b, l: l != "exc" and not (a in sid_tests and l == "false"))
    ctx.check(w is None and bool(strong) and bool(sid_tests), f"{f.key}:strong-reference",
              "a path marks an attached state modified without assigning self._strong_obj", "modified=True & session_id -> _strong_obj assigned", f.loc, w)
    # the value is the instance itself
    objs = {n for n, v, st in name_stores(f.node) if isinstance(v, ast.Call) and callee_is(v, "self.obj")}
    val_ok = bool(strong) and all((isinstance(g.node(n).stmt.value, ast.Name) and g.node(n).stmt.value.id in objs)
                                  or (isinstance(g.node(n).stmt.value, ast.Call) and callee_is(g.node(n).stmt.value, "self.obj")) for n in strong)
    ctx.check(val_ok, f"{f.key}:strong-reference-is-the-instance", "_strong_obj is not assigned the result of self.obj()", "_strong_obj = self.obj()", f.loc)
    # membership in the identity map's modified set
    idict = {n for n, v, st in name_stores(f.node) if isinstance(v, ast.Call) and callee_is(v, "self._instance_dict")}
    adds = call_nodes(g, lambda c: isinstance(c.func, ast.Attribute) and c.func.attr == "add" and isinstance(c.func.value, ast.Attribute) and c.func.value.attr == "_modified"
                      and dotted(c.func.value.value) in idict and c.args and dotted(c.args[0]) == "self")
    id_tests = {t for nm in idict for t in _test_nodes(g, nm)}
    w = g.must_pass(mod, [g.exit], adds, edge_ok=lambda a, b, l: l != "exc" and not (a in id_tests and l == "false"))
    ctx.check(w is None and bool(adds), f"{f.key}:enters-modified-set", "a path marks a state modified without adding it to its identity map's _modified set",
              "instance_dict._modified.add(self) whenever an identity map is linked", f.loc, w)
    # entry condition: also taken for an attached state that has no strong reference yet
    t = None
    for n in g.nodes:
        if n.kind == "test" and any(b in mod or mod[0] in g.reachable([b], avoid=[n.id]) for b, lab in g.succ[n.id] if lab == "true"):
            if "modified" in unparse(n.stmt.test):
                t = n.stmt.test
    good = False
    if isinstance(t, ast.BoolOp) and isinstance(t.op, ast.Or):
        parts = [unparse(v) for v in t.values]
        has_not_mod = "not self.modified" in parts
        has_attached = any(isinstance(v, ast.BoolOp) and isinstance(v.op, ast.And) and {unparse(x) for x in v.values} == {"self.session_id", "self._strong_obj is None"} for v in t.values)
        good = has_not_mod and has_attached
    ctx.check(good, f"{f.key}:entry-condition", "the block is not entered for `not modified` OR `attached without strong reference`",
              "(session_id and _strong_obj is None) or not modified", f.loc)


# writers of _strong_obj, frozen with reasons (T-OWN)
STRONG_OWNERS = {
    f"{STATE}::InstanceState._modified_event": "establishes the reference",
    f"{SESSION}::Session._after_attach": "re-establishes it for a state modified while unattached",
    f"{STATE}::InstanceState._commit_all_states": "flush / full load: changes are written",
    f"{STATE}::InstanceState._expire": "expire: pending changes are discarded",
    f"{STATE}::InstanceState._detach_states": "the state leaves its session",
    f"{STATE}::InstanceState._detach": "the state leaves its session",
    f"{STATE}::InstanceState._cleanup": "weakref callback: the object is already gone",
}


@R.rule("C48-R2", floor=12, template="T-OWN/T-PATH",
        desc="_strong_obj is written only by the enumerated functions; it is cleared only where modified is reset "
             "(or already false) or session_id is cleared on the same path")
def r2(ctx):
    found = {}
    for m in ctx.index.all_modules():
        if "_strong_obj" not in m.source:
            continue
        pm = m.parents()
        for n in ast.walk(m.tree):
            if isinstance(n, ast.Attribute) and n.attr == "_strong_obj" and isinstance(n.ctx, (ast.Store, ast.Del)):
                q = qualname(pm, n)
                if q == "InstanceState":
                    continue  # class-level default
                found.setdefault(f"{m.relpath}::{q}", f"{m.path}:{n.lineno}")
    for fk, loc in sorted(found.items()):
        ctx.check(fk in STRONG_OWNERS, f"{fk}:writes-_strong_obj", "_strong_obj is written outside the enumerated owners", STRONG_OWNERS.get(fk, ""), loc)
    # every clearing site
    for fk in sorted(found):
        if fk not in STRONG_OWNERS:
            continue
        f = ctx.func(fk)
        g = ctx.cfg(f)
        clears = [n.id for n in g.nodes if n.kind == "stmt" and isinstance(n.stmt, ast.Assign) and const_is(n.stmt.value, None)
                  and any(isinstance(t, ast.Attribute) and t.attr == "_strong_obj" for t in n.stmt.targets)]
        for i, c in enumerate(clears):
            st = g.node(c).stmt
            recv = [dotted(t.value) for t in st.targets if isinstance(t, ast.Attribute) and t.attr == "_strong_obj"][0]
            key = f"{fk}:clear" + (f":{i}" if i else "")
            same_stmt = any(isinstance(t, ast.Attribute) and t.attr == "session_id" and dotted(t.value) == recv for t in st.targets)
            if same_stmt:
                ctx.ok(key, "session_id cleared in the same statement")
                continue
            resets = [n.id for n in g.nodes if n.kind == "stmt" and isinstance(n.stmt, ast.Assign)
                      and ((const_is(n.stmt.value, False) and any(isinstance(t, ast.Attribute) and t.attr == "modified" and dotted(t.value) == recv for t in n.stmt.targets))
                           or (const_is(n.stmt.value, None) and any(isinstance(t, ast.Attribute) and t.attr == "session_id" and dotted(t.value) == recv for t in n.stmt.targets)))]
            mod_tests = set(_test_nodes(g, f"{recv}.modified"))
            # a path to the clear that neither resets modified / session_id nor has observed modified == False
            w = g.witness([g.entry], [c], avoid=resets, edge_ok=lambda a, b, l: l != "exc" and not (a in mod_tests and l == "false"))
            ctx.check(w is None, key, f"{recv}._strong_obj is cleared on a path where the state may stay modified and attached: its pending change can be garbage collected",
                      "modified reset / session_id cleared on every path to the clear", f.loc, None if w is None else g.describe_path(w))


@R.rule("C48-R3", floor=2, template="T-GUARD",
        desc="Session._after_attach re-establishes the strong reference exactly for `modified and _strong_obj is None`, "
             "with the attached instance")
def r3(ctx):
    f = ctx.func(f"{SESSION}::Session._after_attach")
    g = ctx.cfg(f)
    state_p, obj_p = f.params[1], f.params[2]
    stores = attr_store_nodes(g, "_strong_obj", None, state_p)
    ctx.require(stores, "_after_attach does not assign state._strong_obj")
    want = {(f"{state_p}.modified", True), (f"{state_p}._strong_obj is None", True)}
    good = all(guard_atom_set(g, n) == want for n in stores) and all(dotted(g.node(n).stmt.value) == obj_p for n in stores)
    ctx.check(good, f"{f.key}:reestablish", "the strong reference is not re-established exactly when the attached state is modified and has none",
              "if state.modified and state._strong_obj is None: state._strong_obj = obj", f.loc)
    # callers hand in the state's own object
    bad = []
    m = ctx.index.module(SESSION)
    n_calls = 0
    for fn in ctx.index.all_functions(m):
        for c in calls_in(fn.node):
            if callee_is(c, "self._after_attach") and len(c.args) == 2:
                n_calls += 1
                st_arg, obj_arg = c.args
                binds = [v for n, v, s in name_stores(fn.node) if isinstance(obj_arg, ast.Name) and n == obj_arg.id and v is not None]
                ok = bool(binds) and all(isinstance(v, ast.Call) and isinstance(v.func, ast.Attribute) and v.func.attr == "obj" and unparse(v.func.value) == unparse(st_arg) for v in binds)
                if not ok and not (isinstance(obj_arg, ast.Name) and obj_arg.id in fn.params):
                    bad.append(f"{fn.key}: _after_attach({unparse(st_arg)}, {unparse(obj_arg)})")
    ctx.check(not bad and n_calls >= 3, f"{f.key}:callers-pass-own-object", f"callers pass an object that is not `state.obj()`: {bad}", f"{n_calls} call sites pass state.obj()", f.loc)


@R.rule("C48-R4", floor=4, template="T-FLOW",
        desc="states reference their object weakly (with the cleanup callback); the identity map stores states, not "
             "objects; incoming modified states enter the strong _modified set and removed ones leave it")
def r4(ctx):
    cls = ctx.index.cls(IS)
    bad = []
    n = 0
    for name, f in sorted(cls.methods.items()):
        for st in walk_stmts(f.node.body):
            if isinstance(st, ast.Assign) and any(isinstance(t, ast.Attribute) and t.attr == "obj" and dotted(t.value) == "self" for t in st.targets):
                n += 1
                v = st.value
                dead = isinstance(v, ast.Lambda) and const_is(v.body, None)  # "object already gone": holds nothing
                if not dead and not (isinstance(v, ast.Call) and callee_is(v, "weakref.ref") and len(v.args) == 2 and dotted(v.args[1]) == "self._cleanup"):
                    bad.append(f"{name}: self.obj = {unparse(v)}")
    ctx.check(n >= 2 and not bad, f"{IS}:weak-object-reference", f"InstanceState.obj is not a weakref with the _cleanup callback: {bad}", f"{n} bindings: weakref.ref(obj, self._cleanup)", cls.loc)
    wid = ctx.index.cls(f"{IDENT}::_WeakInstanceDict")
    bad = []
    n = 0
    for name, f in wid.methods.items():
        for st in walk_stmts(f.node.body):
            if isinstance(st, ast.Assign):
                for t in st.targets:
                    if isinstance(t, ast.Subscript) and isinstance(t.value, ast.Attribute) and t.value.attr == "_dict":
                        n += 1
                        if not (isinstance(st.value, ast.Name) and len(f.params) > 1 and st.value.id == f.params[1]):
                            bad.append(f"{name}: {unparse(st)}")
    ctx.check(n >= 3 and not bad, f"{IDENT}::_WeakInstanceDict:stores-states", f"the identity map stores something other than the state parameter: {bad}", f"{n} stores of the state", wid.loc)
    base = ctx.index.cls(f"{IDENT}::IdentityMap")
    inc = base.methods.get("_manage_incoming_state")
    rem = base.methods.get("_manage_removed_state")
    ctx.require(inc is not None and rem is not None, "IdentityMap lacks _manage_incoming_state/_manage_removed_state")
    g = ctx.cfg(inc)
    adds = call_nodes(g, lambda c: callee_is(c, "self._modified.add") and c.args and dotted(c.args[0]) == inc.params[1])
    good = bool(adds) and all(guard_atom_set(g, a) == {(f"{inc.params[1]}.modified", True)} for a in adds)
    init = base.methods.get("__init__")
    strongset = init is not None and any(isinstance(st, ast.Assign) and any(dotted(t) == "self._modified" for t in st.targets) and isinstance(st.value, ast.Call) and callee_is(st.value, "set") for st in walk_stmts(init.node.body))
    ctx.check(good and strongset, f"{inc.key}:modified-states-enter-strong-set", "a modified state entering the identity map is not added to the strong _modified set", "if state.modified: self._modified.add(state); _modified is a set()", inc.loc)
    g = ctx.cfg(rem)
    disc = call_nodes(g, lambda c: (callee_is(c, "self._modified.discard") or callee_is(c, "self._modified.remove")) and c.args and dotted(c.args[0]) == rem.params[1])
    ctx.check(bool(disc), f"{rem.key}:removed-states-leave-set", "a state removed from the identity map stays in _modified", "self._modified.discard(state)", rem.loc)


# ---------------------------------------------------------------------- self-test battery
R.mutant("modified-event-strong-ref-when-unattached", STATE, sub("            if self.session_id:\n                self._strong_obj = inst\n\n                # if identity", "            if not self.session_id:\n                self._strong_obj = inst\n            else:\n                # if identity"), "C48-R1")
R.mutant("modified-event-strong-ref-only-first", STATE, sub("            if self.session_id:\n                self._strong_obj = inst\n\n                # if identity map already had modified objects,\n                # assume autobegin already occurred, else check\n                # for autobegin\n                if not has_modified:\n",
                                                            "            if self.session_id:\n                # if identity map already had modified objects,\n                # assume autobegin already occurred, else check\n                # for autobegin\n                if not has_modified:\n                    self._strong_obj = inst\n"), "C48-R1")
R.mutant("modified-event-not-in-set", STATE, sub("                has_modified = bool(instance_dict._modified)\n                instance_dict._modified.add(self)\n", "                has_modified = bool(instance_dict._modified)\n"), "C48-R1")
R.mutant("modified-event-entry-only-unmodified", STATE, sub("        if (self.session_id and self._strong_obj is None) or not self.modified:\n", "        if not self.modified:\n"), "C48-R1")
R.mutant("strong-obj-cleared-in-commit-partial", STATE, sub("        self.expired = False\n\n        self.expired_attributes.difference_update(\n            set(keys).intersection(dict_)\n        )\n", "        self.expired = False\n        self._strong_obj = None\n\n        self.expired_attributes.difference_update(\n            set(keys).intersection(dict_)\n        )\n"), "C48-R2")
R.mutant("expire-keeps-modified-flag", STATE, sub("            modified_set.discard(self)\n            self.committed_state.clear()\n            self.modified = False\n", "            modified_set.discard(self)\n            self.committed_state.clear()\n"), "C48-R2")
R.mutant("commit-all-clears-before-reset", STATE, sub("            state.modified = state.expired = False\n            state._strong_obj = None\n", "            state.expired = False\n            state._strong_obj = None\n"), "C48-R2")
R.mutant("attach-does-not-reestablish", SESSION, sub("        if state.modified and state._strong_obj is None:\n            state._strong_obj = obj\n", "        if state.modified and state._strong_obj is not None:\n            state._strong_obj = obj\n"), "C48-R3")
R.mutant("attach-wrong-object", SESSION, sub("        if state.modified and state._strong_obj is None:\n            state._strong_obj = obj\n", "        if state.modified and state._strong_obj is None:\n            state._strong_obj = state\n"), "C48-R3")
R.mutant("state-strong-object-ref", STATE, sub("        self.obj = weakref.ref(obj, self._cleanup)\n        self.committed_state = {}\n", "        self.obj = weakref.ref(obj)\n        self.committed_state = {}\n"), "C48-R4")
R.mutant("incoming-state-not-tracked", IDENT, sub("        state._instance_dict = self._wr\n\n        if state.modified:\n            self._modified.add(state)\n", "        state._instance_dict = self._wr\n"), "C48-R4")
R.mutant("identity-map-stores-object", IDENT, sub("        self._dict[key] = state\n        self._manage_incoming_state(state)\n        return True\n", "        self._dict[key] = state.obj()\n        self._manage_incoming_state(state)\n        return True\n"), "C48-R4")
# benign
R.mutant("benign-rename-inst", STATE, sub("            inst = self.obj()\n            if self.session_id:\n                self._strong_obj = inst\n", "            target = self.obj()\n            inst = target\n            if self.session_id:\n                self._strong_obj = target\n"), None)
R.mutant("benign-expire-reorder", STATE, sub("        self._strong_obj = None\n\n        if \"_pending_mutations\" in self.__dict__:\n            del self.__dict__[\"_pending_mutations\"]\n", "        if \"_pending_mutations\" in self.__dict__:\n            del self.__dict__[\"_pending_mutations\"]\n\n        self._strong_obj = None\n"), None)
