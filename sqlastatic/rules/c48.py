"""C48 -- Pending changes survive dropped references (strong-reference lifetime)."""

from __future__ import annotations

import ast
import itertools
from typing import Dict, List, Optional, Set

from ..astutil import attr_stores as _attr_stores, test_atoms, nested_functions, calls_in, dotted, name_stores, own_exprs, unparse, walk_local, walk_stmts
from ..cfg import no_exc
from ..report import Registry, chain, sub
from ._helpers_rules_d import attr_store_nodes, call_nodes, callee_is, const_is, guard_atom_set, qualname
from ._helpers_rob_g2 import calls_of_name, normal_form, owners_through_helpers, resolve_name, single_defs

R = Registry(
    "C48",
    title="Pending changes survive the application dropping its references",
    decides=(
        "InstanceState._modified_event takes a strong reference to the instance and enters the state into the "
        "identity map's _modified set on every path that marks an attached state modified; _strong_obj is written "
        "only by the enumerated functions and is cleared only where the modified flag is reset or the state leaves "
        "its session on the same path; attaching an already-modified state re-establishes the strong reference; "
        "the identity map itself stores states (weakly referencing their objects) and keeps modified states in a "
        "strong set; a state whose modified flag is reset leaves that strong set on the same path, and every caller of a "
        "flag-resetting function hands in the identity map (or deals with a state that is in no session)."
    ),
    not_decided="garbage-collector timing; that every mutation API reaches _modified_event (C38/C49 cover mutators).",
)

STATE = "orm/state.py"
SESSION = "orm/session.py"
IDENT = "orm/identity.py"
IS = f"{STATE}::InstanceState"


# ---------------------------------------------------------------------- facts about a state, three-valued
# The rules below never match the *shape* of an `if`: a test is evaluated three-valued over a few named facts about the
# state (`<recv>.modified`, `<recv>.session_id` truthy, `<recv>._strong_obj is None`, "an identity map is linked"),
# everything else in it is unknown.  An edge of the CFG is left out of a path query when the assumed facts make the
# test come out the other way (so `if not self.session_id: return`, `if self.session_id: ...`, a flag local and a
# conjunction with something unrelated are all understood alike).
def _fact(e, recv="self", linked=()):
    """(fact name, polarity) for an atom about the state `recv`, or None."""
    if isinstance(e, ast.Attribute) and dotted(e.value) == recv:
        if e.attr == "modified":
            return ("modified", True)
        if e.attr == "session_id":
            return ("attached", True)
    if isinstance(e, ast.Name) and e.id in linked:
        return ("linked", True)
    if isinstance(e, ast.Compare) and len(e.ops) == 1 and const_is(e.comparators[0], None) and isinstance(e.ops[0], (ast.Is, ast.IsNot)):
        pos = isinstance(e.ops[0], ast.Is)
        if dotted(e.left) == f"{recv}._strong_obj":
            return ("no-strong-ref", pos)
        if dotted(e.left) == f"{recv}.session_id":
            return ("attached", not pos)
        if isinstance(e.left, ast.Name) and e.left.id in linked:
            return ("linked", not pos)
    return None


def _tv(e, val, env=None, recv="self", linked=(), depth=0):
    """three-valued truth of test `e` when the facts in `val` ({fact: bool}) are known and nothing else is"""
    env = env or {}
    if isinstance(e, ast.BoolOp):
        vs = [_tv(v, val, env, recv, linked, depth) for v in e.values]
        if isinstance(e.op, ast.And):
            return False if any(v is False for v in vs) else (True if all(v is True for v in vs) else None)
        return True if any(v is True for v in vs) else (False if all(v is False for v in vs) else None)
    if isinstance(e, ast.UnaryOp) and isinstance(e.op, ast.Not):
        v = _tv(e.operand, val, env, recv, linked, depth)
        return None if v is None else not v
    if isinstance(e, ast.Call) and isinstance(e.func, ast.Name) and e.func.id == "bool" and len(e.args) == 1 and not e.keywords:
        return _tv(e.args[0], val, env, recv, linked, depth)
    if isinstance(e, ast.Name) and e.id in env and e.id not in linked and depth < 4:
        return _tv(env[e.id], val, env, recv, linked, depth + 1)
    fa = _fact(e, recv, linked)
    if fa and fa[0] in val:
        return val[fa[0]] == fa[1]
    return None


def _assuming(g, val, env=None, recv="self", linked=()):
    """edge_ok: normal edges only, and no branch outcome that contradicts the assumed facts"""
    def ok(a, b, lab):
        if lab == "exc":
            return False
        n = g.nodes[a]
        if n.kind == "test" and lab in ("true", "false"):
            t = getattr(n.stmt, "test", None)
            if t is not None:
                v = _tv(t, val, env, recv, linked)
                if v is not None and v != (lab == "true"):
                    return False
        return True
    return ok


def _bool_env(fn) -> Dict[str, ast.expr]:
    """single-assignment locals (conditions / aliases spelled through a local)"""
    return single_defs(fn)


def _nf(ctx, f, keep=()):
    """normal form: extracted helpers inlined (also `state._helper(...)` on another object), call-free
    single-assignment locals resolved"""
    # (`InstanceState._instance_dict` is a class-level placeholder that every instance overwrites with a weakref:
    #  the call is never the method of that name)
    return normal_form(ctx, f, keep=tuple(keep) + ("_instance_dict", "obj"), alias="all")


def _is_obj_call(v, recv="self") -> bool:
    return isinstance(v, ast.Call) and not v.args and not v.keywords and dotted(v.func) == f"{recv}.obj"


@R.rule("C48-R1", floor=4, template="T-PATH",
        desc="_modified_event: every normal path that sets modified=True on an attached state assigns "
             "_strong_obj = self.obj() and adds the state to instance_dict._modified")
def r1(ctx):
    f0 = ctx.func(f"{IS}._modified_event")
    f = _nf(ctx, f0)
    g = ctx.cfg(f)
    env = _bool_env(f.node)
    mod = attr_store_nodes(g, "modified", lambda v: const_is(v, True), "self")
    ctx.require(mod, "_modified_event never sets self.modified = True")
    strong = attr_store_nodes(g, "_strong_obj", lambda v: not const_is(v, None), "self")
    # an attached state: branch outcomes that mean `not self.session_id` are not on the paths in question
    w = g.must_pass(mod, [g.exit], strong, edge_ok=_assuming(g, {"attached": True}, env))
    # ... and the exemption really is about attachment: without it the store is NOT on every path (otherwise the
    # rule would not have understood the guard) -- or the store is unconditional, which is fine too
    ctx.check(w is None and bool(strong), f"{f.key}:strong-reference",
              "a path marks an attached state modified without assigning self._strong_obj", "modified=True & session_id -> _strong_obj assigned", f.loc, w)
    # the value is the instance itself
    binds: Dict[str, list] = {}
    for n, v, st in name_stores(f.node):
        binds.setdefault(n, []).append(v)
    objs = {n for n, vs in binds.items() if vs and all(v is not None and _is_obj_call(resolve_name(v, env)) for v in vs)}

    def is_inst(v, depth=0):
        v = resolve_name(v, env)
        return _is_obj_call(v) or (isinstance(v, ast.Name) and v.id in objs)
    val_ok = bool(strong) and all(is_inst(g.node(n).stmt.value) for n in strong)
    ctx.check(val_ok, f"{f.key}:strong-reference-is-the-instance", "_strong_obj is not assigned the result of self.obj()", "_strong_obj = self.obj()", f.loc)
    # membership in the identity map's modified set
    idict = {n for n, vs in binds.items() if vs and all(isinstance(v, ast.Call) and callee_is(v, "self._instance_dict") for v in vs)}

    def is_idict(e):
        e = resolve_name(e, {k: v for k, v in env.items() if k not in idict})
        return (isinstance(e, ast.Name) and e.id in idict) or (isinstance(e, ast.Call) and callee_is(e, "self._instance_dict"))

    def is_modset(e):
        e = resolve_name(e, env)
        return isinstance(e, ast.Attribute) and e.attr == "_modified" and is_idict(e.value)
    adds = call_nodes(g, lambda c: isinstance(c.func, ast.Attribute) and c.func.attr == "add" and is_modset(c.func.value)
                      and len(c.args) == 1 and dotted(c.args[0]) == "self")
    w = g.must_pass(mod, [g.exit], adds, edge_ok=_assuming(g, {"linked": True}, {k: v for k, v in env.items() if k not in idict}, linked=idict))
    ctx.check(w is None and bool(adds), f"{f.key}:enters-modified-set", "a path marks a state modified without adding it to its identity map's _modified set",
              "instance_dict._modified.add(self) whenever an identity map is linked", f.loc, w)
    # entry condition: also taken for an attached state that has no strong reference yet.  Decided as a
    # boolean function of the three facts (modified, attached, no strong reference); locals bound once are
    # inlined, anything else in the test is a free variable (the implication must hold for all its values).
    guards = [(t, pol) for t, pol in g.edge_guards(mod[0])]
    relevant = [(t, pol) for t, pol in guards if _FACTS & _atoms_of(t, env)]
    # (dominating tests that mention none of the three facts are about something else and are ignored)
    free = sorted({a for t, _ in relevant for a in _atoms_of(t, env)} | _FACTS)
    missing = []
    ctx.require(len(free) <= 12, "_modified_event: entry condition has too many free atoms")
    for bits in itertools.product((False, True), repeat=len(free)):
        val = dict(zip(free, bits))
        entered = all(_truth(t, val, env) == pol for t, pol in relevant)
        if entered:
            continue
        if not val["modified"] and "an unmodified state" not in missing:
            missing.append("an unmodified state")
        if val["attached"] and val["no-strong-ref"] and val["modified"] and "a modified attached state that has no strong reference" not in missing:
            missing.append("a modified attached state that has no strong reference")
    ctx.check(not missing, f"{f.key}:entry-condition",
              f"the block that marks the state modified and takes the strong reference is skipped for {' and for '.join(missing)} "
              f"(guard: {' and '.join(('' if pol else 'not ') + '(' + unparse(t) + ')' for t, pol in relevant)}): a state left "
              f"modified+attached without _strong_obj (e.g. after an error inside the block) is never repaired",
              "entered whenever `not modified` or `attached and _strong_obj is None`", f.loc)


_FACTS = {"modified", "attached", "no-strong-ref"}


def _atoms_of(e, env, depth=0) -> Set[str]:
    if isinstance(e, ast.BoolOp):
        return set().union(*[_atoms_of(v, env, depth) for v in e.values])
    if isinstance(e, ast.UnaryOp) and isinstance(e.op, ast.Not):
        return _atoms_of(e.operand, env, depth)
    if isinstance(e, ast.Call) and isinstance(e.func, ast.Name) and e.func.id == "bool" and len(e.args) == 1 and not e.keywords:
        return _atoms_of(e.args[0], env, depth)
    if isinstance(e, ast.Name) and e.id in env and depth < 4:
        return _atoms_of(env[e.id], env, depth + 1)
    fa = _fact(e)
    return {fa[0]} if fa else {"?" + unparse(e)}


def _truth(e, val, env, depth=0) -> bool:
    if isinstance(e, ast.BoolOp):
        vs = [_truth(v, val, env, depth) for v in e.values]
        return all(vs) if isinstance(e.op, ast.And) else any(vs)
    if isinstance(e, ast.UnaryOp) and isinstance(e.op, ast.Not):
        return not _truth(e.operand, val, env, depth)
    if isinstance(e, ast.Call) and isinstance(e.func, ast.Name) and e.func.id == "bool" and len(e.args) == 1 and not e.keywords:
        return _truth(e.args[0], val, env, depth)
    if isinstance(e, ast.Name) and e.id in env and depth < 4:
        return _truth(env[e.id], val, env, depth + 1)
    fa = _fact(e)
    if fa:
        return val[fa[0]] == fa[1]
    return val["?" + unparse(e)]


# writers of _strong_obj, frozen with reasons (T-OWN)
STRONG_OWNERS = {
    f"{STATE}::InstanceState._modified_event": "establishes the reference",
    f"{SESSION}::Session._after_attach": "re-establishes it for a state modified while unattached",
    f"{STATE}::InstanceState._commit_all_states": "flush / full load: changes are written",
    f"{STATE}::InstanceState._expire": "expire: pending changes are discarded",
    f"{STATE}::InstanceState._detach_states": "the state leaves its session",
    f"{STATE}::InstanceState._detach": "the state leaves its session",
    f"{STATE}::InstanceState._cleanup": "weakref callback: the object is already gone",
}


def _clear_nodes(g):
    """[(cfg node, receiver text)] of `<recv>._strong_obj = None` (also as one target of a chained assignment)"""
    out = []
    for n in g.nodes:
        if n.kind == "stmt" and isinstance(n.stmt, ast.Assign) and const_is(n.stmt.value, None):
            for t in n.stmt.targets:
                if isinstance(t, ast.Attribute) and t.attr == "_strong_obj" and dotted(t.value):
                    out.append((n.id, dotted(t.value)))
    return out


def _unjustified_clear(g, c, recv, env):
    """witness of a path to the clear `c` on which the state may stay modified and attached, or None"""
    st = g.node(c).stmt
    if any(isinstance(t, ast.Attribute) and t.attr == "session_id" and dotted(t.value) == recv for t in st.targets):
        return None
    resets = [n.id for n in g.nodes if n.kind == "stmt" and isinstance(n.stmt, ast.Assign)
              and ((const_is(n.stmt.value, False) and any(isinstance(t, ast.Attribute) and t.attr == "modified" and dotted(t.value) == recv for t in n.stmt.targets))
                   or (const_is(n.stmt.value, None) and any(isinstance(t, ast.Attribute) and t.attr == "session_id" and dotted(t.value) == recv for t in n.stmt.targets)))]
    # a path to the clear that neither resets modified / session_id nor has observed modified == False / detached
    return g.witness([g.entry], [c], avoid=resets, edge_ok=_assuming(g, {"modified": True, "attached": True}, env, recv=recv))


@R.rule("C48-R2", floor=12, template="T-OWN/T-PATH",
        desc="_strong_obj is written only by the enumerated functions (or private helpers all of whose callers are); it is "
             "cleared only where modified is reset (or already false) or session_id is cleared on the same path")
def r2(ctx):
    found = {}
    for m in ctx.index.all_modules():
        if "_strong_obj" not in m.source:
            continue
        pm = m.parents()
        for n in ast.walk(m.tree):
            if isinstance(n, ast.Attribute) and n.attr == "_strong_obj" and isinstance(n.ctx, (ast.Store, ast.Del)):
                q = qualname(pm, n)
                if q == "InstanceState":
                    continue  # class-level default
                found.setdefault(f"{m.relpath}::{q}", f"{m.path}:{n.lineno}")
    owners = set()
    helpers = {}
    for fk, loc in sorted(found.items()):
        acts_for = owners_through_helpers(ctx.index, fk, STRONG_OWNERS) if ctx.index.has(fk) or fk in STRONG_OWNERS else None
        if fk in STRONG_OWNERS:
            owners.add(fk)
            ctx.ok(f"{fk}:writes-_strong_obj", STRONG_OWNERS[fk])
        elif acts_for:
            # an extracted private helper: every call site lies in an enumerated owner
            helpers[fk] = acts_for
            for a in acts_for:
                if a not in found and a not in owners:
                    # (keeps the instance count invariant under the extraction: the owner still writes, through the helper)
                    ctx.ok(f"{a}:writes-_strong_obj", STRONG_OWNERS[a] + f" (through helper {fk.split('::')[1]})")
            owners.update(acts_for)
            ctx.ok(f"{fk}:writes-_strong_obj", "private helper called only by " + ", ".join(a.split("::")[1] for a in acts_for))
        else:
            extra = ""
            if ctx.index.has(fk):
                # say what the stray write does: a clear that leaves the state modified and attached loses pending changes
                try:
                    sf = ctx.func(fk)
                    sg = ctx.cfg(sf)
                    for c, recv in _clear_nodes(sg):
                        if _unjustified_clear(sg, c, recv, _bool_env(sf.node)) is not None:
                            extra = (f": it clears {recv}._strong_obj on a path where the state may stay modified and attached -- the object is then "
                                     f"only weakly referenced and its pending change is lost when the application drops it")
                except Exception:
                    extra = ""
            ctx.violation(f"{fk}:writes-_strong_obj", "_strong_obj is written outside the enumerated owners" + extra, loc)
    # every clearing site, seen in the owner with its helpers inlined
    inlined_into = {}
    for fk in sorted(owners):
        f = _nf(ctx, ctx.func(fk))
        for hk in f.inlined:
            inlined_into.setdefault(hk, set()).add(fk)
        g = ctx.cfg(f)
        env = _bool_env(f.node)
        for i, (c, recv) in enumerate(_clear_nodes(g)):
            key = f"{fk}:clear" + (f":{i}" if i else "")
            w = _unjustified_clear(g, c, recv, env)
            ctx.check(w is None, key, f"{recv}._strong_obj is cleared on a path where the state may stay modified and attached: its pending change can be garbage collected",
                      "modified reset / session_id cleared on every path to the clear", f.loc, None if w is None else g.describe_path(w))
    # a helper that could not be inlined into (all of) its callers must justify its clears by itself
    for hk, acts_for in sorted(helpers.items()):
        if set(acts_for) <= inlined_into.get(hk, set()):
            continue
        f = ctx.func(hk)
        g = ctx.cfg(f)
        for i, (c, recv) in enumerate(_clear_nodes(g)):
            w = _unjustified_clear(g, c, recv, _bool_env(f.node))
            ctx.check(w is None, f"{hk}:clear" + (f":{i}" if i else ""),
                      f"helper clears {recv}._strong_obj without resetting modified / session_id itself and is not analysable in its callers",
                      "justified inside the helper", f.loc, None if w is None else g.describe_path(w))


def _reestablish_nodes(g, recv, env):
    """CFG nodes `<recv>._strong_obj = <v>` (v not None) that stand exactly under `recv.modified and recv._strong_obj is None`
    (whatever the spelling: nested ifs, early returns, a flag local): [(node, value expr)], and the other stores"""
    good, other = [], []
    for n in attr_store_nodes(g, "_strong_obj", lambda v: not const_is(v, None), recv):
        guards = g.edge_guards(n)
        rel = [(t, pol) for t, pol in guards if _tv(t, {"modified": True, "no-strong-ref": True, "attached": True}, env, recv) is not None
               or _tv(t, {"modified": False, "no-strong-ref": False, "attached": False}, env, recv) is not None]
        exact = True
        for m_, ns_ in itertools.product((False, True), repeat=2):
            outcomes = [_tv(t, {"modified": m_, "no-strong-ref": ns_}, env, recv) for t, pol in rel]
            # (guards that mention neither fact -- or an unknown besides them -- make the store rarer than demanded)
            reached = all(o is not None and o == pol for o, (t, pol) in zip(outcomes, rel))
            if reached != (m_ and ns_):
                exact = False
        (good if exact and len(rel) == len(guards) else other).append(n)
    return good, other


@R.rule("C48-R3", floor=2, template="T-GUARD",
        desc="Session._after_attach re-establishes the strong reference exactly for `modified and _strong_obj is None`, "
             "with the attached instance")
def r3(ctx):
    f0 = ctx.func(f"{SESSION}::Session._after_attach")
    f = _nf(ctx, f0)
    g = ctx.cfg(f)
    state_p, obj_p = f.params[1], f.params[2]
    env = _bool_env(f.node)
    good, other = _reestablish_nodes(g, state_p, env)
    ctx.require(good or other, "_after_attach does not assign state._strong_obj")
    val_ok = all(dotted(resolve_name(g.node(n).stmt.value, env)) == obj_p for n in good + other)
    ctx.check(bool(good) and not other and val_ok, f"{f.key}:reestablish", "the strong reference is not re-established exactly when the attached state is modified and has none",
              "if state.modified and state._strong_obj is None: state._strong_obj = obj", f.loc)
    # callers hand in the state's own object
    bad = []
    m = ctx.index.module(SESSION)
    n_calls = 0
    for fn in ctx.index.all_functions(m):
        for c in calls_in(fn.node):
            if callee_is(c, "self._after_attach") and len(c.args) == 2:
                n_calls += 1
                st_arg, obj_arg = c.args
                binds = [v for n, v, s in name_stores(fn.node) if isinstance(obj_arg, ast.Name) and n == obj_arg.id and v is not None]
                ok = bool(binds) and all(isinstance(v, ast.Call) and isinstance(v.func, ast.Attribute) and v.func.attr == "obj" and unparse(v.func.value) == unparse(st_arg) for v in binds)
                if isinstance(obj_arg, ast.Call) and isinstance(obj_arg.func, ast.Attribute) and obj_arg.func.attr == "obj" and unparse(obj_arg.func.value) == unparse(st_arg):
                    ok = True
                if not ok and not (isinstance(obj_arg, ast.Name) and obj_arg.id in fn.params):
                    bad.append(f"{fn.key}: _after_attach({unparse(st_arg)}, {unparse(obj_arg)})")
    ctx.check(not bad and n_calls >= 3, f"{f.key}:callers-pass-own-object", f"callers pass an object that is not `state.obj()`: {bad}", f"{n_calls} call sites pass state.obj()", f.loc)


@R.rule("C48-R4", floor=4, template="T-FLOW",
        desc="states reference their object weakly (with the cleanup callback); the identity map stores states, not "
             "objects; incoming modified states enter the strong _modified set and removed ones leave it")
def r4(ctx):
    cls = ctx.index.cls(IS)
    bad = []
    n = 0
    for name, f in sorted(cls.methods.items()):
        for st in walk_stmts(f.node.body):
            if isinstance(st, ast.Assign) and any(isinstance(t, ast.Attribute) and t.attr == "obj" and dotted(t.value) == "self" for t in st.targets):
                n += 1
                v = st.value
                dead = isinstance(v, ast.Lambda) and const_is(v.body, None)  # "object already gone": holds nothing
                if not dead and not (isinstance(v, ast.Call) and callee_is(v, "weakref.ref") and len(v.args) == 2 and dotted(v.args[1]) == "self._cleanup"):
                    bad.append(f"{name}: self.obj = {unparse(v)}")
    ctx.check(n >= 2 and not bad, f"{IS}:weak-object-reference", f"InstanceState.obj is not a weakref with the _cleanup callback: {bad}", f"{n} bindings: weakref.ref(obj, self._cleanup)", cls.loc)
    wid = ctx.index.cls(f"{IDENT}::_WeakInstanceDict")
    bad = []
    n = 0
    for name, f in wid.methods.items():
        env = single_defs(f.node)
        for st in walk_stmts(f.node.body):
            if isinstance(st, ast.Assign):
                for t in st.targets:
                    if isinstance(t, ast.Subscript) and isinstance(t.value, ast.Attribute) and t.value.attr == "_dict":
                        n += 1
                        v = resolve_name(st.value, env)
                        if not (isinstance(v, ast.Name) and len(f.params) > 1 and v.id == f.params[1]):
                            bad.append(f"{name}: {unparse(st)}")
    ctx.check(n >= 3 and not bad, f"{IDENT}::_WeakInstanceDict:stores-states", f"the identity map stores something other than the state parameter: {bad}", f"{n} stores of the state", wid.loc)
    base = ctx.index.cls(f"{IDENT}::IdentityMap")
    inc = base.methods.get("_manage_incoming_state")
    rem = base.methods.get("_manage_removed_state")
    ctx.require(inc is not None and rem is not None, "IdentityMap lacks _manage_incoming_state/_manage_removed_state")
    inc_n = _nf(ctx, inc)
    g = ctx.cfg(inc_n)
    sp = inc.params[1]
    env = _bool_env(inc_n.node)

    def modset(e):
        e = resolve_name(e, env)
        return dotted(e) == "self._modified"
    adds = call_nodes(g, lambda c: isinstance(c.func, ast.Attribute) and c.func.attr == "add" and modset(c.func.value) and c.args and dotted(c.args[0]) == sp)
    # every modified incoming state is added: no normal path from entry to exit avoids the add when `state.modified`
    w = g.must_pass([g.entry], [g.exit], adds, edge_ok=_assuming(g, {"modified": True}, env, recv=sp)) if adds else ["no add"]
    init = base.methods.get("__init__")
    strongset = init is not None and any(isinstance(st, ast.Assign) and any(dotted(t) == "self._modified" for t in st.targets) and isinstance(st.value, ast.Call) and callee_is(st.value, "set") for st in walk_stmts(init.node.body))
    ctx.check(w is None and strongset, f"{inc.key}:modified-states-enter-strong-set", "a modified state entering the identity map is not added to the strong _modified set", "if state.modified: self._modified.add(state); _modified is a set()", inc.loc, w if isinstance(w, list) and w != ["no add"] else None)
    rem_n = _nf(ctx, rem)
    g = ctx.cfg(rem_n)
    env = _bool_env(rem_n.node)
    disc = call_nodes(g, lambda c: isinstance(c.func, ast.Attribute) and c.func.attr in ("discard", "remove") and modset(c.func.value) and c.args and dotted(c.args[0]) == rem.params[1])
    w = g.must_pass([g.entry], [g.exit], disc, edge_ok=_assuming(g, {"modified": True}, env, recv=rem.params[1])) if disc else ["no discard"]
    ctx.check(w is None, f"{rem.key}:removed-states-leave-set", "a state removed from the identity map stays in _modified", "self._modified.discard(state)", rem.loc)


def _block_and_index(pm, st):
    """(list of statements that contains st, index)"""
    par = pm.get(st)
    for fld in ("body", "orelse", "finalbody"):
        blk = getattr(par, fld, None)
        if isinstance(blk, list) and st in blk:
            return blk, blk.index(st)
    return None, -1


def _fresh_state(pm, st, recv: str) -> Optional[str]:
    """Is `recv` (a local) bound, on the straight line that leads to `st` (earlier in the same block or in an enclosing
    block), to the state of an instance created right there (`<manager>.new_instance()`): such a state has never been
    modified.  Returns a description or None."""

    def last_binding(name, stmt):
        """(statement, value) of the nearest binding of `name` that precedes `stmt` on the straight line; value None
        when the nearest binding is not a plain assignment (or sits inside a compound statement: may or may not run)"""
        cur = stmt
        while cur is not None and not isinstance(cur, (ast.FunctionDef, ast.AsyncFunctionDef, ast.Lambda)):
            blk, i = _block_and_index(pm, cur)
            if blk is not None:
                for k in range(i - 1, -1, -1):
                    s2 = blk[k]
                    if isinstance(s2, (ast.Assign, ast.AnnAssign)):
                        tg = s2.targets if isinstance(s2, ast.Assign) else [s2.target]
                        if any(isinstance(t, ast.Name) and t.id == name for t in tg) and s2.value is not None:
                            return s2, s2.value
                    if any(n == name for n, _, _ in name_stores(s2)):
                        return s2, None
            cur = pm.get(cur)
            while cur is not None and not isinstance(cur, (ast.stmt, ast.Lambda)):
                cur = pm.get(cur)
            if isinstance(cur, (ast.For, ast.AsyncFor, ast.While)) and any(n == name for n, _, _ in name_stores(cur)):
                return cur, None          # rebound somewhere in the loop we are in
        return None, None

    s1, v = last_binding(recv, st)
    if not (isinstance(v, ast.Call) and len(v.args) == 1 and isinstance(v.args[0], ast.Name) and not v.keywords):
        return None
    inst = v.args[0].id
    s2, v2 = last_binding(inst, s1)
    if isinstance(v2, ast.Call) and isinstance(v2.func, ast.Attribute) and v2.func.attr == "new_instance" and not v2.args:
        return f"{recv} = {unparse(v)}; {inst} = {unparse(v2)}"
    return None


def _attach_sites(snode):
    return [(d, st) for d, t, st in _attr_stores(snode) if d.endswith(".session_id")
            and isinstance(st, ast.Assign) and not const_is(st.value, None)]


def _attach_verdict(g, st, recv, env):
    """None when every way out of the function after `recv.session_id = <id>` (normal or exceptional) has settled the
    strong reference of an already-modified state -- passed a `recv._strong_obj = <not None>` store, or a branch outcome
    that shows `not (recv.modified and recv._strong_obj is None)` -- or when that was settled on every path before the
    store; else a witness path (list[str]) / a message."""
    strong = attr_store_nodes(g, "_strong_obj", lambda v: not const_is(v, None), recv)
    facts = {"modified": True, "no-strong-ref": True}

    def consistent(a, b, lab):
        n = g.nodes[a]
        if n.kind == "test" and lab in ("true", "false"):
            t = getattr(n.stmt, "test", None)
            if t is not None:
                v = _tv(t, facts, env, recv)
                if v is not None and v != (lab == "true"):
                    return False
        return True
    here = g.nodes_for(st)
    if not strong:
        return "never"
    w = g.witness(here, [g.exit, g.raise_exit], avoid=strong, edge_ok=consistent)
    if w is None:
        return None
    if g.witness([g.entry], here, avoid=strong, edge_ok=consistent) is None:
        return None       # settled before the attach on every path on which it is needed
    return g.describe_path(w)


@R.rule("C48-R5", floor=2, template="T-PATH",
        desc="every site that attaches a state to a session (`<state>.session_id = <non-None>`): the state is freshly "
             "created there, or the strong reference of an already-modified state is (re)established before ANY way "
             "out of the function after the store -- in particular before listeners, which may raise (extracted helpers "
             "are judged inlined into their callers)")
def r5(ctx):
    n_sites = 0
    done_callers = set()
    for m in ctx.index.all_modules():
        if "session_id" not in m.source or not m.relpath.startswith("orm/"):
            continue
        pm = m.parents()
        scopes = []
        for fn in sorted(ctx.index.all_functions(m), key=lambda x: x.key):
            if not _attach_sites(fn.node) and not any(_attach_sites(nf_) for nf_ in nested_functions(fn.node).values()):
                continue
            scopes.append((fn.key, None, fn))
            for nm, nf_ in sorted(nested_functions(fn.node).items()):
                scopes.append((f"{fn.key}.<locals>.{nm}", nf_, fn))
        for skey, snode, fn in scopes:
            raw_stores = _attach_sites(snode if snode is not None else fn.node)
            if not raw_stores:
                continue
            ctx.functions_analysed.add(fn.key)
            # fresh states are recognised on the original AST (block structure), the rest on the normal form
            fresh_recv = {}
            for d, st in raw_stores:
                recv = d.rsplit(".", 1)[0]
                fr = _fresh_state(pm, st, recv)
                if fr:
                    fresh_recv[recv] = fr
            if snode is None:
                nfm = _nf(ctx, fn)
                node = nfm.node
                g = ctx.cfg(nfm)
            else:
                node = snode
                g = ctx.cfg(snode)
            env = _bool_env(node)
            for d, st in _attach_sites(node):
                recv = d.rsplit(".", 1)[0]
                n_sites += 1
                key = f"{skey}:attach[{recv}]:strong-reference-before-any-exit"
                loc = f"{m.path}:{st.lineno}"
                if recv in fresh_recv:
                    ctx.ok(key, f"state of an instance created right there (never modified): {fresh_recv[recv]}")
                    continue
                w = _attach_verdict(g, st, recv, env)
                if w is None:
                    ctx.ok(key, "every way out after the attach has settled `modified and _strong_obj is None`")
                    continue
                # an extracted helper that only attaches: judged where it is called (inlined into each caller)
                name = fn.name
                sites = calls_of_name(ctx.index, name) if snode is None and name.startswith("_") and not name.endswith("__") else None
                via = []
                if sites:
                    for ok_, cm, c in sites:
                        if ok_ == fn.key or not ctx.index.has(ok_):
                            via = None
                            break
                        cf = _nf(ctx, ctx.func(ok_))
                        if fn.key not in cf.inlined:
                            via = None
                            break
                        via.append((ok_, cf))
                if via:
                    for ok_, cf in via:
                        if (ok_, fn.key) in done_callers:
                            continue
                        done_callers.add((ok_, fn.key))
                        cg = ctx.cfg(cf)
                        cenv = _bool_env(cf.node)
                        for d2, st2 in _attach_sites(cf.node):
                            if getattr(st2, "_inlined_from", None) is None and not any(getattr(a_, "_inlined_from", None) == fn.key for a_ in _anc_stmts(cf, st2)):
                                continue
                            r2_ = d2.rsplit(".", 1)[0]
                            w2 = _attach_verdict(cg, st2, r2_, cenv)
                            ctx.check(w2 is None, f"{ok_}:attach[{r2_}]:strong-reference-before-any-exit",
                                      _R5_MSG.format(st=unparse(st2), recv=r2_) + f" (attach performed by helper {fn.qualname})",
                                      f"helper {fn.qualname} inlined: settled before any exit", cf.loc, None if w2 is None or w2 == "never" else w2)
                    ctx.ok(key, "attaching helper, judged inlined into its callers: " + ", ".join(k.split("::")[1] for k, _ in via))
                    continue
                if w == "never":
                    ctx.violation(key, f"`{unparse(st)}` attaches a state that may already be modified, and the function never "
                                       f"gives it a strong reference under `{recv}.modified and {recv}._strong_obj is None`", loc)
                else:
                    ctx.violation(key, _R5_MSG.format(st=unparse(st), recv=recv), loc, w)
    ctx.require(n_sites >= 2, f"only {n_sites} attach site(s) found (expected Session._after_attach and the loader)")


_R5_MSG = ("after `{st}` the function can be left (a listener / callee raising) before the strong "
           "reference of an already-modified state is established: the state is attached and dirty but only "
           "weakly referenced, so its pending change is lost when the application drops the object")


def _anc_stmts(cf, st):
    cur = cf.pm.get(st)
    while cur is not None:
        yield cur
        cur = cf.pm.get(cur)


# ---------------------------------------------------------------------- R6: the strong `_modified` set follows the flag
# `IdentityMap._modified` is the strong set that pins dirty states (R1 / R4 put them in).  Its members must be modified:
# a state whose `modified` flag is reset (flush, full load, merge(load=False), expire) loses its strong reference at the
# same place (R2), so if it stayed in the set the set would hold a clean, weakly referenced state -- once the application
# drops the object the state is dead and the next flush trips over it ("Failed to add object to the flush context").
# The functions that reset the flag do not know the identity map themselves: it is *handed in* (the map, or its
# `_modified` set).  So the clause has two halves: inside the resetter the hand-in is used on every path to the reset,
# and every caller hands in the identity map -- or is provably dealing with a state that is in no session.
def _enclosing_fn_chain(pm, node):
    """function nodes enclosing `node`, innermost first"""
    out = []
    cur = pm.get(node)
    while cur is not None:
        if isinstance(cur, (ast.FunctionDef, ast.AsyncFunctionDef)):
            out.append(cur)
        cur = pm.get(cur)
    return out


def _fn_params(fn) -> List[str]:
    a = fn.args
    return [x.arg for x in a.posonlyargs + a.args + a.kwonlyargs]


def _scope_env(chain_) -> Dict[str, ast.expr]:
    """what a name read in the innermost function of `chain_` stands for: once-bound locals of it and of the enclosing
    functions (closure variables), an inner binding / parameter shadowing the outer ones"""
    env: Dict[str, ast.expr] = {}
    for fn in reversed(chain_):
        for nm in set(_fn_params(fn)) | {n for n, _, _ in name_stores(fn)}:
            env.pop(nm, None)
        env.update(single_defs(fn))
    return env


def _param_default_is_none(fn, name) -> Optional[bool]:
    """True: parameter has default None; False: no default; None: some other default"""
    a = fn.args
    pos = a.posonlyargs + a.args
    dflt = dict(zip([x.arg for x in pos[len(pos) - len(a.defaults):]], a.defaults))
    dflt.update({x.arg: d for x, d in zip(a.kwonlyargs, a.kw_defaults) if d is not None})
    if name not in dflt:
        return False
    return True if const_is(dflt[name], None) else None


class _Resetter:
    __slots__ = ("f", "handle", "kind", "why")

    def __init__(self, f, handle, kind, why):
        self.f, self.handle, self.kind, self.why = f, handle, kind, why


def _handle_of(x, env, params, recv):
    """classify the receiver `x` of `x.discard(<state>)`: ('set', param) -- a set handed in; ('map', param) -- an identity
    map handed in (`param._modified`); ('own', None) -- the state's own identity map; else None"""
    x = resolve_name(x, env)
    if isinstance(x, ast.Name) and x.id in params:
        return ("set", x.id)
    if isinstance(x, ast.Attribute) and x.attr == "_modified":
        v = resolve_name(x.value, env)
        if isinstance(v, ast.Name) and v.id in params:
            return ("map", v.id)
        if isinstance(v, ast.Call) and not v.args and callee_is(v, f"{recv}._instance_dict"):
            return ("own", None)
    return None


@R.rule("C48-R6", floor=8, template="T-PATH/T-FLOW",
        desc="every function that resets `<state>.modified = False` discards the state from the identity map's strong "
             "_modified set on every path to the reset on which the state is modified and the map was handed in; every call "
             "of such a function (and of wrappers that pass the hand-in through) hands in an identity map / its _modified "
             "set, or is reached only for a state that is in no session")
def r6(ctx):
    table: Dict[str, _Resetter] = {}
    # ---- half 1: the resetters
    for m in ctx.index.all_modules():
        if not m.relpath.startswith("orm/") or ".modified" not in m.source:
            continue
        for f0 in sorted(ctx.index.all_functions(m), key=lambda x: x.key):
            recvs = sorted({dotted(t.value) for st in walk_stmts(f0.node.body) if isinstance(st, ast.Assign) and const_is(st.value, False)
                            for t in st.targets if isinstance(t, ast.Attribute) and t.attr == "modified" and dotted(t.value)})
            if not recvs:
                continue
            ctx.require(len(recvs) == 1, f"{f0.key} resets the modified flag of several objects")
            recv = recvs[0]
            f = _nf(ctx, f0)
            g = ctx.cfg(f)
            env = _bool_env(f.node)
            resets = attr_store_nodes(g, "modified", lambda v: const_is(v, False), recv)
            ctx.require(resets, f"{f0.key}: the reset of {recv}.modified was lost in the normal form")
            key = f"{f0.key}:modified-reset[{recv}]:leaves-modified-set"
            params = set(f0.params)
            handles = {}
            disc = []
            for n in g.nodes:
                if n.stmt is None or n.kind in ("with_exit", "handler", "join") or not isinstance(n.stmt, ast.stmt):
                    continue
                for part in own_exprs(n.stmt):
                    for c in calls_in(part):
                        if isinstance(c.func, ast.Attribute) and c.func.attr in ("discard", "remove") and len(c.args) == 1 and dotted(c.args[0]) == recv:
                            h = _handle_of(c.func.value, env, params, recv)
                            if h is not None:
                                handles[h] = True
                                disc.append(n.id)
            if not disc:
                ctx.violation(key, f"{recv}.modified is reset to False but the state is never discarded from an identity map's _modified set: "
                                   f"the strong set keeps a clean state whose strong reference is dropped; after the application drops "
                                   f"the object the next flush fails on the dead state", f0.loc)
                continue
            ctx.require(len(handles) == 1, f"{f0.key}: the state is discarded from several different sets ({sorted(handles)})")
            (kind, handle), = handles
            # the local / parameter whose truth means "there is an identity map"
            linked = {handle} if kind == "map" else set()
            if kind == "own":
                linked = {nm for nm, v in env.items() if isinstance(v, ast.Call) and not v.args and callee_is(v, f"{recv}._instance_dict")}
            w = g.must_pass([g.entry], resets, disc, edge_ok=_assuming(g, {"modified": True, "linked": True}, {k: v for k, v in env.items() if k not in linked}, recv=recv, linked=linked))
            ctx.check(w is None, key,
                      f"a path resets {recv}.modified on a modified state without discarding it from the _modified set that was handed in "
                      f"(`{handle or recv + '._instance_dict()'}`): the strong set keeps a clean, weakly referenced state",
                      f"discarded from `{handle or 'its own identity map'}` ({kind}) on every path to the reset of a modified state", f0.loc, w)
            ctx.require(f0.name not in table, f"two functions called {f0.name} reset the modified flag")
            table[f0.name] = _Resetter(f0, handle, kind, "resets the flag")
    ctx.require(len(table) >= 2, f"only {len(table)} function(s) that reset <state>.modified = False and discard from a _modified set found")

    # ---- half 2: the call sites (fixpoint over wrappers that pass the hand-in through)
    def arg_for(call, r: _Resetter):
        """the expression handed in for r.handle at `call`, None when absent"""
        for k in call.keywords:
            if k.arg == r.handle:
                return k.value
            if k.arg is None:
                return k.value      # **kwargs: unknown
        ps = list(r.f.params)
        if r.f.cls is not None and "staticmethod" not in r.f.decorators and isinstance(call.func, ast.Attribute):
            ps = ps[1:]
        if r.handle in ps:
            i = ps.index(r.handle)
            if any(isinstance(a, ast.Starred) for a in call.args[:i + 1]):
                return call.args[0]
            if i < len(call.args):
                return call.args[i]
        return None

    def is_identity_map(e, kind, env, depth=0):
        e = resolve_name(e, env)
        if kind == "set":
            return isinstance(e, ast.Attribute) and e.attr == "_modified" and is_identity_map(e.value, "map", env)
        if isinstance(e, ast.Attribute) and e.attr == "identity_map":
            return True
        return isinstance(e, ast.Call) and not e.args and isinstance(e.func, ast.Attribute) and e.func.attr == "_instance_dict"

    done = set()
    work = sorted(table)
    seen_keys: Dict[str, int] = {}
    while work:
        name = work.pop(0)
        if name in done:
            continue
        done.add(name)
        r = table[name]
        defs_named = [fi for fi in ctx.index.all_functions() if fi.name == name]
        ctx.require(len(defs_named) == 1, f"several functions are called {name}: call sites cannot be attributed")
        sites = calls_of_name(ctx.index, name)
        ctx.require(sites is not None, f"{name} is also passed around as a value: its call sites cannot be enumerated")
        for ok_, m, call in sorted(sites, key=lambda t: (t[1].relpath, t[2].lineno, t[2].col_offset)):
            pm = m.parents()
            chain_ = _enclosing_fn_chain(pm, call)
            q = qualname(pm, call) or "<module>"
            base = f"{m.relpath}::{q}:{name}()"
            seen_keys[base] = seen_keys.get(base, 0) + 1
            key = base + (f"#{seen_keys[base]}" if seen_keys[base] > 1 else "") + ":identity-map-handed-in"
            loc = f"{m.path}:{call.lineno}"
            if chain_:
                ctx.functions_analysed.add(ok_)
            if r.kind == "own":
                # (kept as an instance so that the count does not depend on where the resetter finds the set)
                ctx.ok(key, f"{r.f.qualname} discards from the state's own identity map: nothing to hand in")
                continue
            env = _scope_env(chain_)
            a = arg_for(call, r)
            a_res = resolve_name(a, env) if a is not None else None
            if a_res is not None and not const_is(a_res, None):
                if isinstance(a_res, ast.Name) and chain_ and a_res.id in _fn_params(chain_[0]) and len(chain_) == 1 and ctx.index.has(ok_):
                    # a wrapper that passes its own parameter through: its callers owe the identity map
                    wf = ctx.func(ok_)
                    if wf.name not in table:
                        table[wf.name] = _Resetter(wf, a_res.id, r.kind, f"passes `{a_res.id}` through to {name}()")
                        work.append(wf.name)
                    ctx.ok(key, f"passes its own parameter `{a_res.id}` through (its callers are instances of this rule)")
                    continue
                if is_identity_map(a_res, r.kind, env):
                    ctx.ok(key, f"hands in `{unparse(a_res)}`")
                    continue
                ctx.require(False, f"{key}: cannot tell what `{unparse(a)}` (handed in as `{r.handle}`) is")
            # nothing handed in (absent with a None default, or None): only for a state that is in no session
            if a is None:
                ctx.require(_param_default_is_none(r.f.node, r.handle) is True, f"{key}: `{r.handle}` not found among the arguments")
            state_recv = dotted(call.func.value) if isinstance(call.func, ast.Attribute) else None
            w = "no receiver"
            if state_recv and chain_ and not (state_recv.split(".")[0][:1].isupper()):
                fn = chain_[0]
                g = ctx.cfg(fn)
                cn = [n.id for n in g.nodes if n.stmt is not None and isinstance(n.stmt, ast.stmt) and n.kind not in ("with_exit", "handler", "join")
                      and any(c is call for part in own_exprs(n.stmt) for c in calls_in(part))]
                ctx.require(cn, f"{key}: call not found in the CFG")
                w = g.witness([g.entry], cn, edge_ok=_assuming(g, {"attached": True}, single_defs(fn), recv=state_recv))
                w = None if w is None else g.describe_path(w)
            ctx.check(w is None, key,
                      f"`{unparse(call)[:120]}` resets the modified flag (and drops the strong reference) of a state that may be in a session "
                      f"without handing in that session's identity map{'' if r.kind == 'map' else chr(39) + 's _modified set'} (`{r.handle}` of "
                      f"{r.f.qualname}): the state stays in IdentityMap._modified, clean and only weakly referenced -- when the application "
                      f"drops the object, the next flush finds a dead state there and fails, losing every other pending change of that flush",
                      "reached only when the state is in no session", loc, w if isinstance(w, list) else None)


# ---------------------------------------------------------------------- self-test battery
R.mutant("modified-event-strong-ref-when-unattached", STATE, sub("            if self.session_id:\n                self._strong_obj = inst\n\n                # if identity", "            if not self.session_id:\n                self._strong_obj = inst\n            else:\n                # if identity"), "C48-R1")
R.mutant("modified-event-strong-ref-only-first", STATE, sub("            if self.session_id:\n                self._strong_obj = inst\n\n                # if identity map already had modified objects,\n                # assume autobegin already occurred, else check\n                # for autobegin\n                if not has_modified:\n",
                                                            "            if self.session_id:\n                # if identity map already had modified objects,\n                # assume autobegin already occurred, else check\n                # for autobegin\n                if not has_modified:\n                    self._strong_obj = inst\n"), "C48-R1")
R.mutant("modified-event-not-in-set", STATE, sub("                has_modified = bool(instance_dict._modified)\n                instance_dict._modified.add(self)\n", "                has_modified = bool(instance_dict._modified)\n"), "C48-R1")
R.mutant("modified-event-entry-only-unmodified", STATE, sub("        if (self.session_id and self._strong_obj is None) or not self.modified:\n", "        if not self.modified:\n"), "C48-R1")
R.mutant("strong-obj-cleared-in-commit-partial", STATE, sub("        self.expired = False\n\n        self.expired_attributes.difference_update(\n            set(keys).intersection(dict_)\n        )\n", "        self.expired = False\n        self._strong_obj = None\n\n        self.expired_attributes.difference_update(\n            set(keys).intersection(dict_)\n        )\n"), "C48-R2")
R.mutant("expire-keeps-modified-flag", STATE, sub("            modified_set.discard(self)\n            self.committed_state.clear()\n            self.modified = False\n", "            modified_set.discard(self)\n            self.committed_state.clear()\n"), "C48-R2")
R.mutant("commit-all-clears-before-reset", STATE, sub("            state.modified = state.expired = False\n            state._strong_obj = None\n", "            state.expired = False\n            state._strong_obj = None\n"), "C48-R2")
R.mutant("attach-does-not-reestablish", SESSION, sub("        if state.modified and state._strong_obj is None:\n            state._strong_obj = obj\n", "        if state.modified and state._strong_obj is not None:\n            state._strong_obj = obj\n"), "C48-R3")
R.mutant("attach-wrong-object", SESSION, sub("        if state.modified and state._strong_obj is None:\n            state._strong_obj = obj\n", "        if state.modified and state._strong_obj is None:\n            state._strong_obj = state\n"), "C48-R3")
R.mutant("state-strong-object-ref", STATE, sub("        self.obj = weakref.ref(obj, self._cleanup)\n        self.committed_state = {}\n", "        self.obj = weakref.ref(obj)\n        self.committed_state = {}\n"), "C48-R4")
R.mutant("incoming-state-not-tracked", IDENT, sub("        state._instance_dict = self._wr\n\n        if state.modified:\n            self._modified.add(state)\n", "        state._instance_dict = self._wr\n"), "C48-R4")
R.mutant("identity-map-stores-object", IDENT, sub("        self._dict[key] = state\n        self._manage_incoming_state(state)\n        return True\n", "        self._dict[key] = state.obj()\n        self._manage_incoming_state(state)\n        return True\n"), "C48-R4")
# benign
R.mutant("benign-rename-inst", STATE, sub("            inst = self.obj()\n            if self.session_id:\n                self._strong_obj = inst\n", "            target = self.obj()\n            inst = target\n            if self.session_id:\n                self._strong_obj = target\n"), None)
R.mutant("benign-expire-reorder", STATE, sub("        self._strong_obj = None\n\n        if \"_pending_mutations\" in self.__dict__:\n            del self.__dict__[\"_pending_mutations\"]\n", "        if \"_pending_mutations\" in self.__dict__:\n            del self.__dict__[\"_pending_mutations\"]\n\n        self._strong_obj = None\n"), None)

# ---- seeds C48_1 / C48_2 and neighbours (str-u)
_ENTRY = "        if (self.session_id and self._strong_obj is None) or not self.modified:\n"
_STRONG_EARLY = (
    "            inst = self.obj()\n"
    "            if self.session_id:\n"
    "                self._strong_obj = inst\n"
    "\n"
)
_AUTOBEGIN_TAIL = (
    "                        if session._transaction is None:\n"
    "                            session._autobegin_t()\n"
    "\n"
)
# seed 1: entry condition narrowed AND the strong reference taken only after the (raising) autobegin
R.mutant("modified-event-ref-after-autobegin-no-repair", STATE, chain(
    sub(_ENTRY, "        if not self.modified:\n"),
    sub(_STRONG_EARLY, "            inst = self.obj()\n            if self.session_id:\n"),
    sub(_AUTOBEGIN_TAIL, _AUTOBEGIN_TAIL + "                self._strong_obj = inst\n\n"),
), "C48-R1")
R.mutant("modified-event-entry-needs-both", STATE, sub(
    _ENTRY, "        if (self.session_id and self._strong_obj is None) and not self.modified:\n"), "C48-R1")
# benign: same boolean function, written through a local / with operands reordered
R.mutant("benign-entry-condition-through-local", STATE, sub(
    _ENTRY,
    "        needs_ref = self._strong_obj is None and self.session_id\n"
    "        if not self.modified or needs_ref:\n"), None)
_ATTACH = (
    "        state.session_id = self.hash_key\n"
    "        if state.modified and state._strong_obj is None:\n"
    "            state._strong_obj = obj\n"
    "        self.dispatch.after_attach(self, state)\n"
)
# seed 2: the strong reference of an already-modified state is established after the attach listeners
R.mutant("attach-strong-ref-after-listeners", SESSION, chain(
    sub(_ATTACH, "        state.session_id = self.hash_key\n        self.dispatch.after_attach(self, state)\n"),
    sub("            self.dispatch.transient_to_pending(self, state)\n\n    def __contains__",
        "            self.dispatch.transient_to_pending(self, state)\n"
        "        if state.modified and state._strong_obj is None:\n"
        "            state._strong_obj = obj\n\n    def __contains__"),
), "C48-R5")
R.mutant("attach-strong-ref-after-first-listener", SESSION, sub(
    _ATTACH,
    "        state.session_id = self.hash_key\n"
    "        self.dispatch.after_attach(self, state)\n"
    "        if state.modified and state._strong_obj is None:\n"
    "            state._strong_obj = obj\n"), "C48-R5")
R.mutant("loader-attaches-existing-state", "orm/loading.py", sub(
    "                instance = mapper.class_manager.new_instance()\n",
    "                instance = mapper.class_manager.new_instance() if refresh_state is None else refresh_state.obj()\n"), "C48-R5")
# benign: nested spelling of the same guard; reference settled before the attach
R.mutant("benign-attach-nested-guard", SESSION, sub(
    _ATTACH,
    "        state.session_id = self.hash_key\n"
    "        if state.modified:\n"
    "            if state._strong_obj is None:\n"
    "                state._strong_obj = obj\n"
    "        self.dispatch.after_attach(self, state)\n"), None)
R.mutant("benign-attach-ref-before-session-id", SESSION, sub(
    _ATTACH,
    "        if state.modified and state._strong_obj is None:\n"
    "            state._strong_obj = obj\n"
    "        state.session_id = self.hash_key\n"
    "        self.dispatch.after_attach(self, state)\n"), None)

# ---- rob-G2: benign refactoring families (stored diffs rfG_10 / rfG_12 and neighbours) + the breaking twins that show
# the rules still see through the same spellings
_ADD = "                has_modified = bool(instance_dict._modified)\n                instance_dict._modified.add(self)\n"
_ADD_ALIAS = ("                modified_states = instance_dict._modified\n"
              "                has_modified = bool(modified_states)\n"
              "                modified_states.add(self)\n")
_AUTOBEGIN_INLINE = (
    "                    # inline of autobegin, to ensure session transaction\n"
    "                    # snapshot is established\n"
    "                    try:\n"
    "                        session = _sessions[self.session_id]\n"
    "                    except KeyError:\n"
    "                        pass\n"
    "                    else:\n"
    "                        if session._transaction is None:\n"
    "                            session._autobegin_t()\n"
)
_COMMIT_DEF = "    def _commit(self, dict_: _InstanceDict, keys: Iterable[str]) -> None:\n"
_AUTOBEGIN_HELPER = (
    "    def _autobegin_owning_session(self) -> None:\n"
    "        try:\n"
    "            session = _sessions[self.session_id]\n"
    "        except KeyError:\n"
    "            pass\n"
    "        else:\n"
    "            if session._transaction is None:\n"
    "                session._autobegin_t()\n\n"
)
R.mutant("benign-modified-set-alias-and-autobegin-helper", STATE, chain(
    sub(_ADD, _ADD_ALIAS),
    sub(_AUTOBEGIN_INLINE, "                    self._autobegin_owning_session()\n"),
    sub(_COMMIT_DEF, _AUTOBEGIN_HELPER + _COMMIT_DEF),
), None)
R.mutant("modified-set-alias-never-added", STATE, sub(
    _ADD, "                modified_states = instance_dict._modified\n                has_modified = bool(modified_states)\n"), "C48-R1")
R.mutant("modified-set-alias-added-to-a-copy", STATE, sub(
    _ADD, "                modified_states = set(instance_dict._modified)\n                has_modified = bool(modified_states)\n                modified_states.add(self)\n"), "C48-R1")
# the strong reference taken by an extracted helper (with and without the attachment test inside it)
_HOLD_HELPER = "    def _hold_strong_ref(self, instance: Optional[object]) -> None:\n        self._strong_obj = instance\n\n"
R.mutant("benign-strong-ref-through-helper", STATE, chain(
    sub("            if self.session_id:\n                self._strong_obj = inst\n", "            if self.session_id:\n                self._hold_strong_ref(inst)\n"),
    sub(_COMMIT_DEF, _HOLD_HELPER + _COMMIT_DEF),
), None)
R.mutant("strong-ref-helper-holds-the-state-not-the-instance", STATE, chain(
    sub("            if self.session_id:\n                self._strong_obj = inst\n", "            if self.session_id:\n                self._hold_strong_ref(self)\n"),
    sub(_COMMIT_DEF, _HOLD_HELPER + _COMMIT_DEF),
), "C48-R1")
R.mutant("strong-ref-helper-called-from-a-non-owner", STATE, chain(
    sub("            if self.session_id:\n                self._strong_obj = inst\n", "            if self.session_id:\n                self._hold_strong_ref(inst)\n"),
    sub(_COMMIT_DEF, _HOLD_HELPER + _COMMIT_DEF),
    sub("        self.expired = False\n\n        self.expired_attributes.difference_update(\n            set(keys).intersection(dict_)\n        )\n",
        "        self.expired = False\n        self._hold_strong_ref(None)\n\n        self.expired_attributes.difference_update(\n            set(keys).intersection(dict_)\n        )\n"),
), "C48-R2")
R.mutant("benign-strong-ref-attachment-test-inverted", STATE, sub(
    "            inst = self.obj()\n            if self.session_id:\n                self._strong_obj = inst\n\n",
    "            inst = self.obj()\n            attached = bool(self.session_id)\n            if not attached:\n                pass\n            else:\n                self._strong_obj = inst\n\n"
    "            if attached:\n"), None)
R.mutant("benign-identity-map-test-is-not-none", STATE, sub(
    "            if instance_dict:\n" + _ADD + "            else:\n                has_modified = False\n",
    "            has_modified = False\n            if instance_dict is not None:\n" + _ADD), None)
# Session._after_attach: flag local, early return, helper on the state
_ATTACH_GUARD = "        if state.modified and state._strong_obj is None:\n            state._strong_obj = obj\n"
R.mutant("benign-attach-guard-through-flag-local", SESSION, sub(
    _ATTACH_GUARD, "        needs_strong_ref = state.modified and state._strong_obj is None\n        if needs_strong_ref:\n            state._strong_obj = obj\n"), None)
R.mutant("benign-attach-guard-de-morgan", SESSION, sub(
    _ATTACH_GUARD, "        if not (not state.modified or state._strong_obj is not None):\n            state._strong_obj = obj\n"), None)
R.mutant("attach-guard-flag-local-wrong", SESSION, sub(
    _ATTACH_GUARD, "        needs_strong_ref = state.modified or state._strong_obj is None\n        if needs_strong_ref:\n            state._strong_obj = obj\n"), "C48-R3")
_HOLD_IF_MOD = ("    def _hold_if_modified(self, instance: object) -> None:\n"
                "        if not self.modified:\n            return\n"
                "        if self._strong_obj is None:\n            self._strong_obj = instance\n\n")
_AFTER_ATTACH_DEF = "    def _after_attach(self, state: InstanceState[Any], obj: object) -> None:\n"
R.mutant("benign-attach-reestablish-through-session-helper", SESSION, chain(
    sub(_ATTACH_GUARD, "        self._hold_if_modified(state, obj)\n"),
    sub(_AFTER_ATTACH_DEF, "    def _hold_if_modified(self, state: InstanceState[Any], instance: object) -> None:\n"
                           "        if not state.modified:\n            return\n"
                           "        if state._strong_obj is None:\n            state._strong_obj = instance\n\n" + _AFTER_ATTACH_DEF),
), None)
R.mutant("attach-reestablish-helper-only-when-unmodified", SESSION, chain(
    sub(_ATTACH_GUARD, "        self._hold_if_modified(state, obj)\n"),
    sub(_AFTER_ATTACH_DEF, "    def _hold_if_modified(self, state: InstanceState[Any], instance: object) -> None:\n"
                           "        if state.modified:\n            return\n"
                           "        if state._strong_obj is None:\n            state._strong_obj = instance\n\n" + _AFTER_ATTACH_DEF),
), "C48-R3")
# the attach itself moved into a helper: judged inlined into _after_attach
_SET_SID = "        state.session_id = self.hash_key\n"
R.mutant("benign-attach-store-through-helper", SESSION, chain(
    sub(_SET_SID + _ATTACH_GUARD, "        self._bind_state(state)\n" + _ATTACH_GUARD),
    sub(_AFTER_ATTACH_DEF, "    def _bind_state(self, state: InstanceState[Any]) -> None:\n" + _SET_SID + "\n" + _AFTER_ATTACH_DEF),
), None)
R.mutant("attach-store-helper-called-after-listeners-too", SESSION, chain(
    sub(_SET_SID + _ATTACH_GUARD + "        self.dispatch.after_attach(self, state)\n",
        "        self._bind_state(state)\n        self.dispatch.after_attach(self, state)\n" + _ATTACH_GUARD),
    sub(_AFTER_ATTACH_DEF, "    def _bind_state(self, state: InstanceState[Any]) -> None:\n" + _SET_SID + "\n" + _AFTER_ATTACH_DEF),
), "C48-R5")
# clearing sites: flag local, helper on self / on the iterated state
_EXPIRE = "        if self.modified:\n            modified_set.discard(self)\n            self.committed_state.clear()\n            self.modified = False\n\n        self._strong_obj = None\n"
R.mutant("benign-expire-modified-flag-local", STATE, sub(
    _EXPIRE, "        was_modified = self.modified\n        if was_modified:\n            modified_set.discard(self)\n            self.committed_state.clear()\n            self.modified = False\n\n        self._strong_obj = None\n"), None)
R.mutant("benign-expire-early-clear-when-unmodified", STATE, sub(
    _EXPIRE, "        if not self.modified:\n            self._strong_obj = None\n        else:\n            modified_set.discard(self)\n            self.committed_state.clear()\n"
             "            self.modified = False\n            self._strong_obj = None\n"), None)
R.mutant("expire-clears-when-modified-keeps-flag", STATE, sub(
    _EXPIRE, "        if not self.modified:\n            pass\n        else:\n            modified_set.discard(self)\n            self.committed_state.clear()\n"
             "            self._strong_obj = None\n"), "C48-R2")
_FORGET = "    def _forget_session(self) -> None:\n        self.session_id = self._strong_obj = None\n\n"
_DISPOSE_DEF = "    def _dispose(self) -> None:\n"
R.mutant("benign-detach-and-cleanup-share-helper", STATE, chain(
    sub("        self.session_id = self._strong_obj = None\n", "        self._forget_session()\n", count=2),
    sub(_DISPOSE_DEF, _FORGET + _DISPOSE_DEF),
), None)
_DROP = "    def _drop_strong_ref(self) -> None:\n        self._strong_obj = None\n\n"
_COMMIT_ALL_TAIL = "            state.modified = state.expired = False\n            state._strong_obj = None\n"
R.mutant("benign-commit-all-clears-through-state-helper", STATE, chain(
    sub(_COMMIT_ALL_TAIL, "            state.modified = state.expired = False\n            state._drop_strong_ref()\n"),
    sub(_DISPOSE_DEF, _DROP + _DISPOSE_DEF),
), None)
R.mutant("commit-all-helper-clears-before-reset-is-dropped", STATE, chain(
    sub(_COMMIT_ALL_TAIL, "            state.expired = False\n            state._drop_strong_ref()\n"),
    sub(_DISPOSE_DEF, _DROP + _DISPOSE_DEF),
), "C48-R2")
R.mutant("drop-helper-also-called-by-partial-commit", STATE, chain(
    sub(_COMMIT_ALL_TAIL, "            state.modified = state.expired = False\n            state._drop_strong_ref()\n"),
    sub(_DISPOSE_DEF, _DROP + _DISPOSE_DEF),
    sub("        self.expired = False\n\n        self.expired_attributes.difference_update(\n            set(keys).intersection(dict_)\n        )\n",
        "        self.expired = False\n        self._drop_strong_ref()\n\n        self.expired_attributes.difference_update(\n            set(keys).intersection(dict_)\n        )\n"),
), "C48-R2")
# identity map side (C48-R4)
R.mutant("benign-incoming-state-early-return", IDENT, sub(
    "        if state.modified:\n            self._modified.add(state)\n", "        if not state.modified:\n            return\n        tracked = self._modified\n        tracked.add(state)\n"), None)
R.mutant("incoming-state-added-only-when-unmodified", IDENT, sub(
    "        if state.modified:\n            self._modified.add(state)\n", "        if not state.modified:\n            self._modified.add(state)\n"), "C48-R4")

_NEW_INST = "                instance = mapper.class_manager.new_instance()\n\n                dict_ = instance_dict(instance)\n                state = instance_state(instance)\n"
R.mutant("benign-loader-fresh-state-created-before-nested-block", "orm/loading.py", chain(
    sub(_NEW_INST, "                manager = mapper.class_manager\n                instance = manager.new_instance()\n                state = instance_state(instance)\n\n                dict_ = instance_dict(instance)\n"),
    sub("                # attach instance to session.\n                state.session_id = session_id\n",
        "                # attach instance to session.\n                if session_id is not None:\n                    state.session_id = session_id\n"),
), None)
R.mutant("loader-fresh-state-rebound-before-attach", "orm/loading.py", sub(
    "                # attach instance to session.\n                state.session_id = session_id\n",
    "                # attach instance to session.\n                if refresh_state is not None:\n                    state = refresh_state\n                state.session_id = session_id\n"), "C48-R5")

# ---- round 2 (str2-t): seed C48_4 (merge(load=False) resets history without the identity map) and its family (C48-R6);
# seed C48_3 (partial expire clears the strong reference) for C48-R2
_MERGE_RESET = "            merged_state._commit_all(merged_dict, self.identity_map)\n"
R.mutant("seed-merge-without-load-resets-history-without-identity-map", SESSION, sub(
    _MERGE_RESET, "            merged_state._commit_all(merged_dict)\n"), "C48-R6")
R.mutant("loader-full-refresh-resets-history-without-identity-map", "orm/loading.py", sub(
    "                        state._commit_all(dict_, session_identity_map)\n", "                        state._commit_all(dict_)\n"), "C48-R6")
R.mutant("flush-registers-persistent-without-identity-map", SESSION, sub(
    "            ((state, state.dict) for state in states), self.identity_map\n        )\n", "            ((state, state.dict) for state in states)\n        )\n"), "C48-R6")
_DISCARD = "            if instance_dict and state.modified:\n                instance_dict._modified.discard(state)\n"
R.mutant("commit-all-states-never-discards", STATE, sub(_DISCARD, ""), "C48-R6")
R.mutant("commit-all-states-discards-only-unmodified", STATE, sub(
    _DISCARD, "            if instance_dict and not state.modified:\n                instance_dict._modified.discard(state)\n"), "C48-R6")
R.mutant("expire-resets-flag-keeps-set-membership", STATE, sub(
    "        if self.modified:\n            modified_set.discard(self)\n            self.committed_state.clear()\n",
    "        if self.modified:\n            self.committed_state.clear()\n"), "C48-R6")
R.mutant("transient-to-detached-accepts-attached-state", SESSION, sub(
    "    if state.session_id or state.key:\n        raise sa_exc.InvalidRequestError(\"Given object must be transient\")\n",
    "    if state.key:\n        raise sa_exc.InvalidRequestError(\"Given object must be transient\")\n"), "C48-R6")
R.mutant("merge-reset-wrapper-drops-identity-map", SESSION, chain(
    sub(_MERGE_RESET, "            self._reset_history(merged_state, merged_dict)\n"),
    sub(_AFTER_ATTACH_DEF, "    def _reset_history(self, state: InstanceState[Any], dict_: Any) -> None:\n        state._commit_all(dict_, None)\n\n" + _AFTER_ATTACH_DEF),
), "C48-R6")
# benign spellings of the same hand-in
R.mutant("benign-merge-reset-identity-map-by-keyword", SESSION, sub(
    _MERGE_RESET, "            merged_state._commit_all(\n                merged_dict, instance_dict=self.identity_map\n            )\n"), None)
R.mutant("benign-merge-reset-identity-map-alias", SESSION, sub(
    _MERGE_RESET, "            session_map = self.identity_map\n            merged_state._commit_all(merged_dict, session_map)\n"), None)
R.mutant("benign-merge-reset-through-session-helper", SESSION, chain(
    sub(_MERGE_RESET, "            self._reset_history(merged_state, merged_dict)\n"),
    sub(_AFTER_ATTACH_DEF, "    def _reset_history(self, state: InstanceState[Any], dict_: Any) -> None:\n        state._commit_all(dict_, self.identity_map)\n\n" + _AFTER_ATTACH_DEF),
), None)
R.mutant("benign-merge-reset-through-mass-variant", SESSION, sub(
    _MERGE_RESET, "            statelib.InstanceState._commit_all_states(\n                [(merged_state, merged_dict)], self.identity_map\n            )\n"), None)
R.mutant("benign-commit-all-states-discard-inverted-branch", STATE, sub(
    _DISCARD, "            if not instance_dict or not state.modified:\n                pass\n            else:\n                tracked = instance_dict._modified\n                tracked.discard(state)\n"), None)
R.mutant("benign-commit-all-states-discard-from-own-identity-map", STATE, sub(
    _DISCARD, "            if state.modified:\n                own_map = state._instance_dict()\n                if own_map is not None:\n                    own_map._modified.discard(state)\n"), None)
R.mutant("benign-transient-check-split", SESSION, sub(
    "    if state.session_id or state.key:\n        raise sa_exc.InvalidRequestError(\"Given object must be transient\")\n",
    "    if state.session_id:\n        raise sa_exc.InvalidRequestError(\"Given object must be transient\")\n"
    "    if state.key:\n        raise sa_exc.InvalidRequestError(\"Given object must be transient\")\n"), None)
# seed C48_3: a non-owner clears the strong reference while the state stays modified and attached
_EXPIRE_ATTRS_POP = "            self.committed_state.pop(key, None)\n            if pending:\n                pending.pop(key, None)\n\n"
R.mutant("seed-partial-expire-clears-strong-reference", STATE, sub(
    _EXPIRE_ATTRS_POP + "        self.manager.dispatch.expire(self, attribute_names)\n",
    _EXPIRE_ATTRS_POP + "        if not self.committed_state:\n            self._strong_obj = None\n\n        self.manager.dispatch.expire(self, attribute_names)\n"), "C48-R2")
