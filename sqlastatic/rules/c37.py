"""C37 -- Both sides of a bidirectional relationship agree (mirror-operation table of the backref listeners)."""

from __future__ import annotations

import ast

from ..astutil import (
    ancestors, call_name, calls_in, const_str, dotted, guard_atoms, lexical_guards, nested_functions, parent_map, unparse, walk_local,
)
from ..cfg import no_exc
from ..report import Registry, sub
from ._helpers_rob_f2 import (
    atoms as _atoms, by_name, dominating_guards, env_of, guard_atom_exprs_at, guard_atoms_at, inline_local_calls, prune_edges, resolve_name,
)

R = Registry(
    "C37",
    title="Both sides of a bidirectional relationship always agree",
    decides=(
        "attributes._backref_listeners: the handler registered for each attribute event performs the mirror "
        "operation on the reverse attribute of the right object (set: pop from the OLD child's reverse impl and "
        "append to the NEW child's; append: append; remove: pop), passing the parent object and "
        "passive=PASSIVE_NO_FETCH; each mirror call is guarded by `initiator is not <token of that same impl>` "
        "(no ping-pong); listeners are registered append|set by uselist plus remove, retval+raw; the bulk "
        "collection replace fires removals = old - new and additions = new - old; impl mutators deliver their event "
        "before they change their own storage; list removers deliver the remove event in the phase the duplicate test "
        "presupposes; a loop that removes from / appends to the collection it walks (impls, CollectionAdapter, "
        "instrumentation wrappers) walks a snapshot, so every member gets its event."
    ),
    not_decided="agreement after flush and reload; slice operations on collections (C38); dynamic/write-only loaders.",
)

ATTR = "orm/attributes.py"
COLL = "orm/collections.py"
BL = f"{ATTR}::_backref_listeners"

#: relationship semantics: event on this side -> {(operation on the reverse attribute, which object)}
MIRROR = {
    "set": {("pop", "old"), ("append", "new")},
    "append": {("append", "new")},
    "remove": {("pop", "new")},
}
#: token of the reverse impl that must be excluded to stop the event ping-pong
GUARD_TOKEN = {"append": {"_append_token"}, "pop": {"_remove_token", "_replace_token"}}


def _registrations(ctx, f):
    """{event name: (handler name, kwargs, call node)} from event.listen(attribute, name, handler, ...)"""
    out = {}
    for c in calls_in(f.node):
        if call_name(c) == "event.listen" and len(c.args) >= 3 and const_str(c.args[1]) and isinstance(c.args[2], ast.Name):
            out[const_str(c.args[1])] = (c.args[2].id, {k.arg: unparse(k.value) for k in c.keywords}, c)
    ctx.require(out, f"{f.key}: no event.listen registrations found")
    return out


def _env(fn):
    """name -> [defining expressions] inside fn (tuple unpacking resolved element-wise)"""
    env = {}
    for n in walk_local(fn):
        if isinstance(n, ast.Assign):
            for t in n.targets:
                if isinstance(t, ast.Name):
                    env.setdefault(t.id, []).append(n.value)
                elif isinstance(t, ast.Tuple) and isinstance(n.value, ast.Tuple) and len(t.elts) == len(n.value.elts):
                    for a, b in zip(t.elts, n.value.elts):
                        if isinstance(a, ast.Name):
                            env.setdefault(a.id, []).append(b)
        elif isinstance(n, ast.AnnAssign) and n.value is not None and isinstance(n.target, ast.Name):
            env.setdefault(n.target.id, []).append(n.value)
    return env


class _Handler:
    """One backref handler with the local helpers it calls inlined (closures of _backref_listeners and functions of the
    module, up to three levels): the rules reason about `what the handler does under which branch outcomes`, wherever
    the statements are written."""

    def __init__(self, ctx, f, name):
        nf = nested_functions(f.node)
        ctx.require(name in nf, f"{BL}: handler {name} is not a local function")
        self.orig = nf[name]
        mod_funcs = {n: fi.node for n, fi in f.module.functions.items() if isinstance(getattr(fi, "node", None), ast.FunctionDef)}

        def resolve(n):
            if n in nf:
                return nf[n]
            return mod_funcs.get(n)

        self.fn, self.inlined = inline_local_calls(self.orig, by_name(resolve))
        self.name = name
        self.params = [a.arg for a in self.orig.args.args]
        self.pm = parent_map(self.fn)
        self.env = env_of(self.fn)
        self.g = ctx.cfg(self.fn)

    def guards(self, node):
        return guard_atom_exprs_at(self.g, self.pm, node, self.env)


def _handler(ctx, f, name) -> _Handler:
    cache = ctx.__dict__.setdefault("_c37_handlers", {})
    if name not in cache:
        cache[name] = _Handler(ctx, f, name)
    return cache[name]


def _impl_state(env, node, depth=4):
    """`S` when node denotes `S.manager[<k>].impl` (through single-definition aliases of the impl, the manager and the
    state), else None"""
    node = resolve_name(env, node)
    if isinstance(node, ast.Name):
        ds = [d for d in env.get(node.id, [])]
        if ds and depth > 0 and all(d is not None for d in ds):
            got = {_impl_state(env, d, depth - 1) for d in ds}
            return got.pop() if len(got) == 1 else None
        return None
    if not (isinstance(node, ast.Attribute) and node.attr == "impl" and isinstance(node.value, ast.Subscript)):
        return None
    mgr = resolve_name(env, node.value.value)
    if not (isinstance(mgr, ast.Attribute) and mgr.attr == "manager"):
        return None
    st = mgr.value
    # the state itself may be an alias of another local
    while isinstance(st, ast.Name):
        ds = env.get(st.id, [])
        if len(ds) == 1 and isinstance(ds[0], ast.Name):
            st = ds[0]
        else:
            break
    return st.id if isinstance(st, ast.Name) else None


def _mirror_calls(h, env=None):
    """[(op, impl text, call)] for X.append / X.pop / X.remove where X denotes `<S>.manager[key].impl`"""
    env = _env(h) if env is None else env
    out = []
    for c in calls_in(h):
        if isinstance(c.func, ast.Attribute) and c.func.attr in ("append", "pop", "remove"):
            if _impl_state(env, c.func.value) is not None:
                out.append((c.func.attr, unparse(c.func.value), c))
    out.sort(key=lambda t: (t[2].lineno, t[2].col_offset))
    return out, env


def _object_of(env, name, depth=0):
    """the handler parameter whose instance_state/instance_dict `name` is"""
    for d in env.get(name, []):
        d = resolve_name(env, d) if d is not None else d
        if isinstance(d, ast.Call) and (call_name(d) or "").split(".")[-1] in ("instance_state", "instance_dict") and d.args:
            a0 = resolve_name(env, d.args[0])
            if isinstance(a0, ast.Name):
                return a0.id
    return None


def _who(env, x, new_p, old_p):
    """('new'|'old'|None, state var, object param) of the impl expression x (ast or text)"""
    node = ast.parse(x, mode="eval").body if isinstance(x, str) else x
    sname = _impl_state(env, node)
    obj = _object_of(env, sname) if sname else None
    who = "new" if obj == new_p else ("old" if old_p and obj == old_p else None)
    return who, sname, obj


def _same_state(env, node, sname):
    n = node
    while isinstance(n, ast.Name) and n.id != sname:
        ds = env.get(n.id, [])
        if len(ds) == 1 and isinstance(ds[0], ast.Name):
            n = ds[0]
        else:
            break
    return isinstance(n, ast.Name) and n.id == sname


@R.rule("C37-R1", floor=6, template="T-SIBLING",
        desc="each backref handler performs the mirror operation of its event on the reverse impl of the right "
             "object, passing state.obj() (the parent) and passive=PASSIVE_NO_FETCH; retval handlers return the child")
def r1(ctx):
    f = ctx.func(BL)
    regs = _registrations(ctx, f)
    for evn, want in MIRROR.items():
        if evn not in regs:
            ctx.note(f"no listener for {evn} (reported by C37-R3)")
            continue
        hname = regs[evn][0]
        H = _handler(ctx, f, hname)
        h, env, g = H.fn, H.env, H.g
        ps = H.params
        ctx.require(len(ps) >= 3, f"{BL}.{hname}: signature not understood")
        st_p, new_p = ps[0], ps[1]
        old_p = ps[2] if evn == "set" else None
        calls, _ = _mirror_calls(h, env)
        seen = set()
        for op, x, c in calls:
            who, sname, obj = _who(env, c.func.value, new_p, old_p)
            norm_op = "pop" if op in ("pop", "remove") else op
            key = f"{BL}.{hname}:{norm_op}:{who or obj}"
            loc = f"{f.module.path}:{c.lineno}"
            probs = []
            if (norm_op, who) not in want:
                probs.append(f"'{evn}' event must mirror as {sorted(want)} but performs {norm_op} on the "
                             f"{who or obj} object's reverse attribute")
            if op == "remove":
                probs.append("uses impl.remove (raises when the reverse side is already in sync) instead of impl.pop")
            a = c.args
            if len(a) < 3 or not _same_state(env, a[0], sname):
                probs.append("first argument is not the state the impl was looked up on")
            if len(a) >= 2:
                a1 = resolve_name(env, a[1])
                d_obj = None
                if isinstance(a[1], ast.Name):
                    d_obj = _object_of(env, a[1].id)
                if d_obj is None and isinstance(a1, ast.Call) and (call_name(a1) or "").split(".")[-1] == "instance_dict" and a1.args:
                    r0 = resolve_name(env, a1.args[0])
                    d_obj = r0.id if isinstance(r0, ast.Name) else None
                if d_obj is None and isinstance(a1, ast.Attribute) and a1.attr == "dict" and _same_state(env, a1.value, sname):
                    d_obj = obj
                if d_obj != obj:
                    probs.append("dict argument belongs to another object than the state")
            val = unparse(resolve_name(env, a[2])) if len(a) > 2 else "?"
            if val != f"{st_p}.obj()":
                probs.append(f"value passed to the reverse attribute is `{val}` not the parent `{st_p}.obj()`")
            pk = [k for k in c.keywords if k.arg == "passive"]
            if not pk or not unparse(resolve_name(env, pk[0].value)).endswith("PASSIVE_NO_FETCH"):
                probs.append("passive=PASSIVE_NO_FETCH missing (mirroring would load the reverse collection)")
            seen.add((norm_op, who))
            ctx.check(not probs, key, "; ".join(probs), f"{x}.{op}(…, {st_p}.obj(), passive=PASSIVE_NO_FETCH)", loc)
        for miss in sorted(want - seen):
            ctx.violation(f"{BL}.{hname}:{miss[0]}:{miss[1]}",
                          f"'{evn}' handler never performs {miss[0]} on the {miss[1]} child's reverse attribute: "
                          f"the two sides would disagree after this event", f"{f.module.path}:{H.orig.lineno}")
        if evn in ("set", "append"):
            # a retval handler's result becomes the value that is stored: on every normal path on which the child is
            # not None the handler must return the child (paths that imply `child is None` may return None)
            none_atom = f"{new_p} is None"
            alive = prune_edges(g, lambda ats: (none_atom, True) in ats, env)
            live = g.reachable([g.entry], edge_ok=alive)
            rets = [r for r in walk_local(h) if isinstance(r, ast.Return)]
            bad = []
            for r in rets:
                v = resolve_name(env, r.value) if r.value is not None else None
                if isinstance(v, ast.Name) and v.id == new_p:
                    continue
                if isinstance(r.value, ast.Name) and env.get(r.value.id) and all(
                        d is not None and isinstance(resolve_name(env, d), ast.Name) and resolve_name(env, d).id == new_p for d in env[r.value.id]):
                    continue
                if not any(i in live for i in g.nodes_for(r)):
                    continue
                bad.append(unparse(r))
            falls = g.exit in g.reachable([g.entry], avoid=[i for r in rets for i in g.nodes_for(r)], edge_ok=alive)
            ctx.check(not bad and not falls, f"{BL}.{hname}:retval",
                      f"retval=True handler does not return the child on every path ({bad or 'falls off the end'}): "
                      f"the attribute would be set to None", "returns child", f"{f.module.path}:{H.orig.lineno}")


def _is_name(node, name):
    return isinstance(node, ast.Name) and node.id == name


@R.rule("C37-R2", floor=4, template="T-GUARD",
        desc="each mirror call is guarded by `initiator is not <token>` against the append/remove(/replace) "
             "token of the very impl it calls")
def r2(ctx):
    f = ctx.func(BL)
    regs = _registrations(ctx, f)
    nf = nested_functions(f.node)
    for evn in MIRROR:
        if evn not in regs or regs[evn][0] not in nf:
            continue
        H = _handler(ctx, f, regs[evn][0])
        h, env = H.fn, H.env
        ps = H.params
        init_p = "initiator" if "initiator" in ps else ps[-1]
        calls, _ = _mirror_calls(h, env)
        for i, (op, x, c) in enumerate(calls):
            norm_op = "pop" if op in ("pop", "remove") else op
            who, x_state, obj = _who(env, c.func.value, ps[1], ps[2] if evn == "set" else None)
            key = f"{BL}.{H.name}:{norm_op}:{who or obj}:guard"
            toks = []
            foreign = []
            covered = False  # some guard token has, in EVERY one of its definitions, a family token of x
            for e, pol in H.guards(c):
                if pol is not False or not (isinstance(e, ast.Compare) and len(e.ops) == 1 and isinstance(e.ops[0], ast.Is)):
                    continue
                lhs, rhs = e.left, e.comparators[0]
                if _is_name(lhs, init_p):
                    tok = rhs
                elif _is_name(rhs, init_p):
                    tok = lhs
                else:
                    continue
                if isinstance(tok, ast.Name):
                    defs = [d for d in env.get(tok.id, [])]
                    if any(d is None for d in defs):
                        defs = []
                    defs = [resolve_name(env, d) for d in defs]
                else:
                    defs = [tok]
                per_def = []
                for d in defs:
                    mine = set()
                    for n in ast.walk(d):
                        if isinstance(n, ast.Attribute) and n.attr.endswith("_token") and n.attr != "parent_token":
                            if _impl_state(env, n.value) == x_state and x_state is not None:
                                toks.append(n.attr)
                                mine.add(n.attr)
                            else:
                                foreign.append(f"{dotted(n.value) or unparse(n.value)}.{n.attr}")
                    per_def.append(mine)
                if per_def and all(m_ & GUARD_TOKEN[norm_op] for m_ in per_def):
                    covered = True
            need = GUARD_TOKEN[norm_op]
            probs = []
            if not covered:
                probs.append(f"not guarded by `{init_p} is not {x}.<{'/'.join(sorted(need))}>` on every branch (the reverse impl's own event would bounce back: "
                             f"double events / infinite recursion)")
            if foreign:
                probs.append(f"guard compares with tokens of another impl: {sorted(set(foreign))}")
            ctx.check(not probs, key, "; ".join(probs), "guard tokens: " + ",".join(sorted(set(toks))),
                      f"{f.module.path}:{c.lineno}")


@R.rule("C37-R3", floor=3, template="T-TABLE",
        desc="listeners: 'append' iff uselist else 'set', and always 'remove'; all retval=True, raw=True")
def r3(ctx):
    f = ctx.func(BL)
    regs = _registrations(ctx, f)
    pm = f.module.parents()
    g = ctx.cfg(f)
    env = env_of(f.node)
    want = {"append": ("uselist", True), "set": ("uselist", False), "remove": None}
    for evn, cond in want.items():
        key = f"{BL}:listen:{evn}"
        if evn not in regs:
            ctx.violation(key, f"no backref listener registered for the '{evn}' event", f.loc)
            continue
        hname, kw, c = regs[evn]
        # branch outcomes that dominate the registration (if/else either way round, early return, `coll = uselist`)
        atoms = list(dict.fromkeys(guard_atoms_at(g, pm, c, env)))
        probs = []
        if cond is None and atoms:
            probs.append(f"'remove' listener is conditional on {atoms}")
        if cond is not None and atoms != [cond]:
            probs.append(f"'{evn}' listener must be registered exactly when uselist is {cond[1]} (found {atoms})")
        if kw.get("retval") != "True" or kw.get("raw") != "True":
            probs.append("retval=True / raw=True missing (handlers take states and return the value)")
        ctx.check(not probs, key, "; ".join(probs), f"{hname} {kw}", f"{f.module.path}:{c.lineno}")


def _defs(env, name):
    return [unparse(d).replace(" ", "") for d in env.get(name, [])]


def _with_self_helpers(ctx, f, interesting, depth=2):
    """The method's AST with `self.<helper>(..)` calls inlined for helpers (resolved through the static MRO; not the
    public mutators of the impl protocol) that are `interesting` themselves or call an interesting helper: an
    extracted private method is read as part of its caller.  The method's own node is returned when nothing applies."""
    cache = ctx.__dict__.setdefault("_c37_inlined", {})
    if f.key in cache:
        return cache[f.key]
    ix = ctx.index

    def helper(call, level=0):
        fn_ = call.func
        if not (isinstance(fn_, ast.Attribute) and isinstance(fn_.value, ast.Name) and fn_.value.id == "self") or fn_.attr in IMPL_MUTATORS:
            return None
        h = ix.resolve_method(f.cls, fn_.attr) if f.cls is not None else None
        if h is None or h.type_only or h.node is f.node or not isinstance(h.node, ast.FunctionDef):
            return None
        if any(d.split(".")[-1] in ("staticmethod", "classmethod", "property") for d in h.decorators):
            return None
        if interesting(call, h.node) or (level < 1 and any(helper(c, level + 1) is not None for c in calls_in(h.node))):
            return h
        return None

    def resolve(call):
        h = helper(call)
        if h is None:
            return None
        ctx.functions_analysed.add(h.key)
        return (h.node, ast.Name(id="self", ctx=ast.Load()))

    new, n = inline_local_calls(f.node, resolve, depth=depth)
    cache[f.key] = new if n else f.node
    return cache[f.key]


@R.rule("C37-R4", floor=3, template="T-PATH",
        desc="_CollectionAttributeImpl.set installs the new collection only together with "
             "collections.bulk_replace(new values, old adapter, new adapter, initiator=bulk-replace token); "
             "bulk_replace fires remove events for old - new and appends new - old with the initiator")
def r4(ctx):
    f = ctx.func(f"{ATTR}::_CollectionAttributeImpl.set")
    # private helpers of the impl that hold the store / the bulk_replace call are read as part of set()
    fresh = {e.id for n in walk_local(f.node) if isinstance(n, ast.Assign) and isinstance(n.targets[0], ast.Tuple)
             and "_initialize_collection" in unparse(n.value) for e in n.targets[0].elts if isinstance(e, ast.Name)}

    def part_of_set(call, h):
        # the helper runs bulk_replace, or it receives the freshly initialised collection and stores into dict_[self.key]
        if any((call_name(c) or "").endswith("bulk_replace") and not (call_name(c) or "").startswith("self.dispatch") for c in calls_in(h)):
            return True
        passed = {a.id for a in list(call.args) + [k.value for k in call.keywords] if isinstance(a, ast.Name)}
        return bool(passed & fresh) and bool(_storage_mutations(h))

    fnode = _with_self_helpers(ctx, f, part_of_set)
    g = ctx.cfg(fnode)
    env = _env(fnode)
    br = g.find_calls("collections.bulk_replace", "bulk_replace")
    br = [i for i in br if any((call_name(c) or "").endswith("bulk_replace") and not (call_name(c) or "").startswith("self.dispatch")
                               for c in calls_in(g.nodes[i].stmt))]
    stores = [n.id for n in g.nodes if isinstance(n.stmt, ast.Assign) and any(
        isinstance(t, ast.Subscript) and unparse(t).replace(" ", "") == "dict_[self.key]" for t in n.stmt.targets)]
    ctx.require(stores, f"{f.key}: no `dict_[self.key] = ...` store found")
    probs = []
    if not br:
        probs.append("collections.bulk_replace() is not called")
    else:
        w = g.must_pass(stores, [g.exit], br, edge_ok=no_exc)
        if w is not None:
            probs.append("the new collection is installed on a path that never runs bulk_replace: " + " -> ".join(w[-3:]))
        c = [c for c in calls_in(g.nodes[br[0]].stmt) if (call_name(c) or "").endswith("bulk_replace")][0]
        a = c.args
        kw = {k.arg: k.value for k in c.keywords}
        init = kw.get("initiator") or (a[3] if len(a) > 3 else None)
        if len(a) < 3:
            probs.append("bulk_replace arguments not understood")
        else:
            oldd = _defs(env, unparse(a[1]))
            if not any(d.endswith("._sa_adapter") for d in oldd):
                probs.append(f"second argument `{unparse(a[1])}` is not the adapter of the old collection")
            else:
                oldname = oldd[0].rsplit(".", 1)[0]
                if not any(d.startswith("self.get(") for d in _defs(env, oldname)):
                    probs.append("old collection is not obtained through self.get(state, dict_, ...)")
            newd = [unparse(d) for d in env.get(unparse(a[2]), [])]
            tup = [n for n in walk_local(fnode) if isinstance(n, ast.Assign) and isinstance(n.targets[0], ast.Tuple)
                   and "_initialize_collection" in unparse(n.value)]
            okn = bool(tup) and isinstance(tup[0].targets[0].elts[0], ast.Name) and tup[0].targets[0].elts[0].id == unparse(a[2])
            if not okn:
                probs.append(f"third argument `{unparse(a[2])}` is not the adapter of the freshly initialised collection")
            if unparse(a[1]) == unparse(a[2]):
                probs.append("old and new adapter are the same object")
            idefs = _defs(env, unparse(init)) if init is not None else []
            if not (init is not None and (unparse(init).endswith("_bulk_replace_token") or any(d.endswith("_bulk_replace_token") for d in idefs))):
                probs.append("initiator is not the impl's _bulk_replace_token (backref handlers could not break the event loop)")
    ctx.check(not probs, f.key, "; ".join(probs), "store -> bulk_replace(new, old adapter, new adapter, initiator=token)", f.loc)

    b = ctx.func(f"{COLL}::bulk_replace")
    ps = b.params
    ctx.require(len(ps) >= 3, f"{b.key}: signature not understood")
    values, existing, new = ps[0], ps[1], ps[2]
    env = _env(b.node)
    pm = b.module.parents()

    def setexpr(name):
        """classify a local: ('existing'|'values', None) for a set built from a parameter,
        ('inter'|'diff', (left, right)) for E.intersection(V) / E.difference(C)"""
        for d in env.get(name, []):
            if isinstance(d, ast.Call) and isinstance(d.func, ast.Attribute) and d.func.attr in ("intersection", "difference"):
                left = d.func.value
                lname = None
                if isinstance(left, ast.Name):
                    lname = setexpr(left.id)[0] if setexpr(left.id)[0] in ("existing", "values") else left.id
                elif isinstance(left, ast.Call) and left.args:
                    lname = "existing" if existing in unparse(left.args[0]) else ("values" if values in unparse(left.args[0]) else None)
                arg = d.args[0] if d.args else None
                rname = unparse(arg) if arg is not None else None
                if rname and values in rname and not isinstance(arg, ast.Name):
                    rname = "values"
                return ("inter" if d.func.attr == "intersection" else "diff", (lname, rname))
            if isinstance(d, ast.Call) and d.args:
                if existing in unparse(d.args[0]):
                    return ("existing", None)
                if values in unparse(d.args[0]):
                    return ("values", None)
        return (None, None)

    def is_constants(name):
        k, lr = setexpr(name)
        return k == "inter" and lr is not None and set(lr) == {"existing", "values"}

    def is_diff(name, left):
        k, lr = setexpr(name)
        return k == "diff" and lr is not None and lr[0] == left and lr[1] is not None and is_constants(lr[1])

    # removals
    rem = [c for c in calls_in(b.node) if (call_name(c) or "") == f"{existing}._fire_remove_event_bulk"]
    good = False
    for c in rem:
        if c.args and isinstance(c.args[0], ast.Name) and is_diff(c.args[0].id, "existing"):
            kw = {k.arg: unparse(k.value) for k in c.keywords}
            good = kw.get("initiator") == "initiator" or (len(c.args) > 1 and unparse(c.args[1]) == "initiator")
    ctx.check(good, f"{b.key}:removals",
              "remove events are not fired on the existing adapter for exactly (existing - (existing ∩ values)) with the initiator: "
              "objects dropped by a collection replacement would keep their stale backref",
              "existing._fire_remove_event_bulk(existing - constants, initiator)", b.loc)
    # additions
    appender = [n for n, ds in env.items() if any(unparse(d).replace(" ", "") == f"{new}.bulk_appender()" for d in ds)]
    ctx.require(appender, f"{b.key}: new_adapter.bulk_appender() not found")
    add_ok = const_ok = False
    for c in calls_in(b.node):
        if isinstance(c.func, ast.Name) and c.func.id in appender:
            kw = {k.arg: unparse(k.value) for k in c.keywords}
            atoms = [a for a, p in guard_atoms(lexical_guards(pm, c, stop=b.node)) if p]
            member = unparse(c.args[0]) if c.args else "?"
            for a in atoms:
                if a.startswith(f"{member} in "):
                    sname = a[len(member) + 4:]
                    if is_diff(sname, "values") and kw.get("_sa_initiator") == "initiator":
                        add_ok = True
                    if is_constants(sname) and kw.get("_sa_initiator") == "False":
                        const_ok = True
    ctx.check(add_ok and const_ok, f"{b.key}:additions",
              "members of (values - constants) are not appended with the initiator (append events -> backrefs) and "
              "unchanged members without events",
              "additions appended with initiator, constants with _sa_initiator=False", b.loc)



# -------------------------------------------------------------------------------------- C37-R5
#: the mutator protocol of attribute impls (called by InstrumentedAttribute.__set__/__delete__ and by the backref handlers)
IMPL_MUTATORS = {"set", "delete", "append", "remove", "pop"}


def _self_key(node) -> bool:
    return isinstance(node, ast.Attribute) and dotted(node) == "self.key"


def _storage_mutations(fn):
    """Statements of an impl method that change the attribute's OWN storage: `dict_[self.key] = v`, `del dict_[self.key]`,
    `<dict>.pop(self.key ..)`, `state._get_pending_mutation(self.key).append/remove(..)`."""
    out = []
    for n in walk_local(fn):
        if isinstance(n, ast.Assign) and any(isinstance(t, ast.Subscript) and _self_key(t.slice) for t in n.targets):
            out.append((n, "store"))
        elif isinstance(n, ast.Delete) and any(isinstance(t, ast.Subscript) and _self_key(t.slice) for t in n.targets):
            out.append((n, "del"))
        elif isinstance(n, ast.Call) and isinstance(n.func, ast.Attribute):
            if n.func.attr == "pop" and n.args and _self_key(n.args[0]) and isinstance(n.func.value, ast.Name):
                out.append((n, "pop"))
            elif n.func.attr in ("append", "remove") and isinstance(n.func.value, ast.Call) \
                    and (call_name(n.func.value) or "").endswith("_get_pending_mutation") and n.func.value.args and _self_key(n.func.value.args[0]):
                out.append((n, "pending-" + n.func.attr))
    return out


def _direct_events(fn, wanted):
    """before-mutation events this function delivers itself: `self.dispatch.<evt>(..)` or `for fn in self.dispatch.<evt>`"""
    out = {}
    for n in walk_local(fn):
        tgt = None
        if isinstance(n, ast.Call):
            tgt = n.func
        elif isinstance(n, ast.For):
            tgt = n.iter
        if isinstance(tgt, ast.Attribute) and dotted(tgt.value) == "self.dispatch" and tgt.attr in wanted:
            out.setdefault(tgt.attr, []).append(n)
    return out


@R.rule("C37-R5", floor=8, template="T-PATH",
        desc="every attribute impl mutator (set/delete/append/remove of the scalar, scalar-object and collection impls) "
             "delivers its before-mutation event (set/append/remove/bulk_replace: validators and the backref handlers "
             "run here and may raise) BEFORE it changes its own storage: no path leads from the storage change to "
             "the event, so a rejected operation leaves this side untouched and in agreement with the other")
def r5(ctx):
    from ..oracles import load
    phase = load("attribute_event_phase.json")
    wanted = set(phase["before_mutation"])
    ix = ctx.index
    base = ix.cls(f"{ATTR}::_AttributeImpl")
    classes = [c for c in ix.subclasses(base) if c.module.relpath == ATTR]
    ctx.require(len(classes) >= 3, f"{ATTR}: attribute impl classes not found")
    n_inst = 0
    for c in classes:
        for mname, m in sorted(c.methods.items()):
            if m.type_only or m.is_overload:
                continue
            muts = _storage_mutations(m.node)
            # a private helper of the impl that only performs the storage change (no event of its own) is a storage
            # change of its caller, at the call site
            via_helper = []
            for call in calls_in(m.node):
                fn_ = call.func
                if isinstance(fn_, ast.Attribute) and isinstance(fn_.value, ast.Name) and fn_.value.id == "self" and fn_.attr not in IMPL_MUTATORS:
                    h = ix.resolve_method(c, fn_.attr)
                    if h is not None and h.node is not m.node and not h.type_only and isinstance(h.node, ast.FunctionDef):
                        hm = _storage_mutations(h.node)
                        if hm and not _direct_events(h.node, wanted):
                            via_helper.extend((call, k) for _, k in hm)
            muts = muts + via_helper
            if not muts:
                continue
            # event deliveries: direct ones and calls of self.<helper>() whose body delivers a before-mutation event
            fires = []
            for evt, nodes in _direct_events(m.node, wanted).items():
                fires.extend((n, evt) for n in nodes)
            for call in calls_in(m.node):
                if isinstance(call.func, ast.Attribute) and isinstance(call.func.value, ast.Name) and call.func.value.id == "self":
                    h = ix.resolve_method(c, call.func.attr)
                    if h is not None and h.node is not m.node:
                        ev = _direct_events(h.node, wanted)
                        for evt in ev:
                            fires.append((call, evt))
                        # a private helper that hands the operation to the collection adapter (`adapter.remove_with_event(..)`)
                        if call.func.attr not in IMPL_MUTATORS and isinstance(h.node, ast.FunctionDef):
                            for hc in calls_in(h.node):
                                if isinstance(hc.func, ast.Attribute) and hc.func.attr.endswith("_with_event"):
                                    evt = {"append": "append", "remove": "remove", "clear": "remove"}.get(hc.func.attr[: -len("_with_event")])
                                    if evt is not None:
                                        fires.append((call, evt))
                elif isinstance(call.func, ast.Attribute) and call.func.attr.endswith("_with_event"):
                    verb = call.func.attr[: -len("_with_event")]
                    evt = {"append": "append", "remove": "remove", "clear": "remove"}.get(verb)
                    ctx.require(evt is not None, f"{m.key}: unknown collection operation {call.func.attr}")
                    fires.append((call, evt))
            if not fires:
                if mname in IMPL_MUTATORS:
                    n_inst += 1
                    ctx.violation(f"{m.key}:event-before-storage",
                                  f"changes the attribute's own storage ({'/'.join(sorted({k for _, k in muts}))}) without delivering any of the "
                                  f"{sorted(wanted)} events: neither validators nor the backref handlers run, the other side is not updated", m.loc)
                continue
            g = ctx.cfg(m)
            mut_nodes = sorted({i for n, _ in muts for i in g.nodes_containing(n)} | {i for n, _ in muts if isinstance(n, ast.stmt) for i in g.nodes_for(n)})
            fire_nodes = sorted({i for n, _ in fires for i in (g.nodes_for(n) if isinstance(n, ast.stmt) else g.nodes_containing(n))})
            ctx.require(mut_nodes and fire_nodes, f"{m.key}: cannot locate storage change / event delivery in the CFG")
            w = g.witness(mut_nodes, fire_nodes, edge_ok=no_exc)
            evs = sorted({e for _, e in fires})
            kinds = sorted({k for _, k in muts})
            n_inst += 1
            ctx.check(w is None, f"{m.key}:event-before-storage",
                      f"the {'/'.join(evs)} event (validators, backref handlers; may raise) can be delivered AFTER the impl has already changed its own storage "
                      f"({'/'.join(kinds)} of dict_[self.key]): a listener that rejects the operation leaves this side changed while no "
                      f"backref has run - the two sides disagree",
                      f"{'/'.join(evs)} delivered before {'/'.join(kinds)}", m.loc, g.describe_path(w) if w else None)



# -------------------------------------------------------------------------------------- C37-R6
def _dupe_threshold(ctx, fi):
    """How many occurrences make `has_dupes`-like helper return True (2 for `count > 1`)."""
    for n in walk_local(fi.node):
        if isinstance(n, ast.If) and any(isinstance(x, ast.Return) and isinstance(x.value, ast.Constant) and x.value.value is True for x in n.body):
            t = n.test
            if isinstance(t, ast.Compare) and len(t.ops) == 1 and isinstance(t.comparators[0], ast.Constant) and isinstance(t.comparators[0].value, int):
                k = t.comparators[0].value
                if isinstance(t.ops[0], ast.Gt):
                    return k + 1
                if isinstance(t.ops[0], ast.GtE):
                    return k
    return None


def _wrapper_phase(ctx, inner):
    """{'single': phase, 'bulk': phase}: position of the remove event (`__del(..)`) relative to the underlying call
    `fn(self, ..)` inside one instrumentation wrapper, separately for event sites that announce ONE removal and for
    sites in a loop whose items are all removed by one underlying call after the loop ('bulk').
    phase = 'before' | 'after' | 'mixed'."""
    g = ctx.cfg(inner)
    dels = [n.id for n in g.nodes if n.stmt is not None and isinstance(n.stmt, ast.stmt) and n.kind in ("stmt", "test", "for")
            and any(isinstance(c.func, ast.Name) and c.func.id.endswith("__del") for p_ in _own(n.stmt) for c in calls_in(p_))]
    fns = [n.id for n in g.nodes if n.stmt is not None and isinstance(n.stmt, ast.stmt) and n.kind in ("stmt", "test", "for")
           and any(isinstance(c.func, ast.Name) and c.func.id == "fn" for p_ in _own(n.stmt) for c in calls_in(p_))]
    if not dels or not fns:
        return {}
    pm = parent_map(inner)
    out = {}
    for d in dels:
        after = g.witness(fns, [d], edge_ok=no_exc) is not None
        before = g.witness([d], fns, edge_ok=no_exc) is not None
        ph = "mixed" if (after and before) else ("after" if after else "before")
        kind = "single"
        for lp in [a for a in ancestors(pm, g.nodes[d].stmt) if isinstance(a, (ast.For, ast.While)) and not getattr(a, "_inline_scaffold", False)]:
            inside = {id(x) for x in ast.walk(lp)}
            if any(id(g.nodes[i].stmt) not in inside and g.witness([d], [i], edge_ok=no_exc) is not None for i in fns):
                kind = "bulk"
        if kind in out and out[kind] != ph:
            ph = "mixed"
        out[kind] = ph
    return out


def _own(st):
    from ..astutil import own_exprs
    return own_exprs(st)


@R.rule("C37-R6", floor=7, template="T-SIBLING",
        desc="the backref 'remove' handler keeps the child's parent when ANOTHER occurrence of the child remains in the "
             "parent's list; it decides that by counting occurrences in the live collection, which fixes the phase in "
             "which the remove event must be delivered (count > 1 <=> item still present): every list remover "
             "delivers the remove event in that phase")
def r6(ctx):
    f = ctx.func(BL)
    regs = _registrations(ctx, f)
    nf = nested_functions(f.node)
    ctx.require("remove" in regs and regs["remove"][0] in nf, f"{BL}: remove handler not found")
    H = _handler(ctx, f, regs["remove"][0])
    h, env = H.fn, H.env
    st_p = H.params[0]
    calls, _ = _mirror_calls(h, env)
    pops = [c for op, x, c in calls if op in ("pop", "remove")]
    tests = []

    def live_collection(node):
        node = resolve_name(env, node)
        return isinstance(node, ast.Subscript) and dotted(resolve_name(env, node.value)) == f"{st_p}.dict"

    for mc in pops[:1]:
        for t, pol in dominating_guards(H.g, H.pm, mc):
            exprs = [t]
            for n in ast.walk(t):  # `dupes = util.has_dupes(..)` evaluated before the branch
                if isinstance(n, ast.Name) and len(env.get(n.id, [])) == 1 and env[n.id][0] is not None:
                    exprs.append(env[n.id][0])
            for e in exprs:
                for c in calls_in(e):
                    if c.args and live_collection(c.args[0]) and c not in tests:
                        tests.append(c)
    hkey = f"{BL}.{h.name}:occurrence-test"
    if not tests:
        ctx.ok(hkey, "the handler does not consult the live collection (or has no mirror pop: C37-R1): no phase is presupposed")
        presupposed = None
    else:
        c = tests[0]
        target = ctx.index.resolve(f.module, call_name(c) or "")
        fi = target if isinstance(getattr(target, "node", None), ast.FunctionDef) else None
        ctx.require(fi is not None, f"{BL}.{h.name}: cannot resolve the occurrence test `{unparse(c.func)}`")
        ctx.functions_analysed.add(fi.key)
        k = _dupe_threshold(ctx, fi)
        ctx.require(k in (1, 2), f"{fi.key}: occurrence threshold not understood")
        presupposed = "before" if k == 2 else "after"
        ctx.ok(hkey, f"`{unparse(c.func)}({unparse(c.args[0])}, ..)` is true from {k} occurrence(s): 'another one remains' holds iff the event is delivered {presupposed} the removal of exactly one item")
    ld = ctx.func(f"{COLL}::_list_decorators")
    n = 0
    decos = nested_functions(ld.node)
    # helpers a wrapper may delegate its event delivery to: closures of _list_decorators that are not decorators
    # themselves, and functions of the module that deliver the remove event (the event functions stay the anchors)
    local_helpers = {k: v for k, v in decos.items() if not any(isinstance(x, ast.FunctionDef) for x in v.body)}
    for k, fi in ld.module.functions.items():
        nd = getattr(fi, "node", None)
        if isinstance(nd, ast.FunctionDef) and not k.endswith(("__del", "__set", "__before_pop")) and any(
                isinstance(c.func, ast.Name) and c.func.id.endswith("__del") for c in calls_in(nd)):
            local_helpers.setdefault(k, nd)
    keep = ctx.__dict__.setdefault("_c37_wrappers", [])
    for name, deco in sorted(decos.items()):
        inner = [x for x in deco.body if isinstance(x, ast.FunctionDef)]
        if not inner:
            continue
        loc = f"{ld.module.path}:{deco.lineno}"
        wrapper, _n = inline_local_calls(inner[0], by_name(lambda nm: local_helpers.get(nm)))
        keep.append(wrapper)
        for kind, ph in sorted(_wrapper_phase(ctx, wrapper).items()):
            n += 1
            key = f"{ld.key}.{name}:remove-event-phase" + ("[bulk]" if kind == "bulk" else "")
            if presupposed is None:
                ctx.ok(key, f"remove event {ph} the underlying call")
            elif kind == "bulk":
                ctx.violation(key,
                              f"list.{name}() delivers the remove events of ALL items it removes {ph} ONE underlying call that removes them together, but the backref "
                              f"handler {h.name} decides per event whether another occurrence of the child remains by counting occurrences in the live list: when "
                              f"every occurrence of a child is removed by this one call each event sees the same list, so child.<backref> "
                              + ("keeps pointing at the parent although the child has left the collection" if ph == "before" else "is judged on the final list only"), loc)
            else:
                ctx.check(ph == presupposed, key,
                          f"list.{name}() delivers the remove event {ph} the underlying removal, but the backref handler {h.name} decides whether another "
                          f"occurrence of the child remains by counting occurrences in the live list (true from {2 if presupposed == 'before' else 1}), which is "
                          f"right only when the event comes {presupposed} the removal: removing one of two occurrences of a child this way "
                          + ("clears child.<backref> although the child is still in the collection" if ph != "before" else "keeps child.<backref> although the child has left the collection"),
                          f"remove event {ph} the underlying call, as the occurrence test presupposes", loc)
    ctx.require(n >= 3, f"{ld.key}: list removers not recognised")


# -------------------------------------------------------------------------------------- C37-R7 (str2-p)
#: files whose loops deliver per-member append/remove events of relationship collections
R7_SCOPE = (ATTR, COLL, "orm/writeonly.py", "orm/dynamic.py")
#: calls that return a NEW container holding the members at call time
SNAPSHOT_CALLS = {"list", "tuple", "set", "frozenset", "sorted", "dict"}
SNAPSHOT_METHODS = {"copy"}
#: calls / attributes that hand out the live members (a view, an iterator, the adapted collection itself)
VIEW_CALLS = {"iter", "reversed", "enumerate"}
VIEW_METHODS = {"keys", "values", "items", "_sa_iterator", "_data", "__iter__"}
VIEW_ATTRS = {"data", "_sa_adapter"}
#: membership mutators of collections / collection adapters (changing the size of the container that is iterated)
MEMBERSHIP_MUTATORS = {
    "remove_with_event", "remove_without_event", "append_with_event", "append_without_event", "clear_with_event", "clear_without_event",
    "append", "add", "insert", "extend", "remove", "discard", "pop", "popitem", "clear", "update",
    "difference_update", "intersection_update", "symmetric_difference_update", "__delitem__",
}
BOUND_MUTATORS = {"_sa_remover", "_sa_appender"}
BOUND_MUTATOR_FACTORIES = {"bulk_remover", "bulk_appender"}


def _collection_base(expr, env, depth=6):
    """(identity text of the container an expression denotes, snapshot?) -- `list(x)`, `x.copy()`, `x[:]` are snapshots of x;
    `iter(x)`, `x.values()`, `x._data()`, `x.data`, `x._sa_adapter` are x itself; single-definition locals are followed."""
    snap = False
    while depth > 0:
        depth -= 1
        if isinstance(expr, ast.Name):
            ds = env.get(expr.id, [])
            if len(ds) == 1 and ds[0] is not None and not (isinstance(ds[0], ast.Name) and ds[0].id == expr.id):
                expr = ds[0]
                continue
            break
        if isinstance(expr, ast.Call) and isinstance(expr.func, ast.Name) and len(expr.args) == 1 and not expr.keywords:
            if expr.func.id in SNAPSHOT_CALLS:
                snap, expr = True, expr.args[0]
                continue
            if expr.func.id in VIEW_CALLS:
                expr = expr.args[0]
                continue
            break
        if isinstance(expr, ast.Call) and isinstance(expr.func, ast.Attribute) and not expr.args and not expr.keywords:
            if expr.func.attr in SNAPSHOT_METHODS:
                snap, expr = True, expr.func.value
                continue
            if expr.func.attr in VIEW_METHODS:
                expr = expr.func.value
                continue
            break
        if isinstance(expr, ast.Subscript) and isinstance(expr.slice, ast.Slice) and expr.slice.lower is None and expr.slice.upper is None and expr.slice.step is None:
            snap, expr = True, expr.value
            continue
        if isinstance(expr, ast.Attribute) and expr.attr in VIEW_ATTRS:
            expr = expr.value
            continue
        break
    return unparse(expr), snap


def _mutated_bases(node, env, outer_params, helpers, depth=1):
    """identity texts of the containers whose membership `node` (a statement of a loop body) changes, with the call that does it"""
    out = []
    for n in ast.walk(node):
        if isinstance(n, (ast.FunctionDef, ast.AsyncFunctionDef, ast.Lambda)):
            continue
        if isinstance(n, ast.Delete):
            for t in n.targets:
                if isinstance(t, ast.Subscript):
                    out.append((_collection_base(t.value, env)[0], n))
        if not isinstance(n, ast.Call):
            continue
        fn_ = n.func
        if isinstance(fn_, ast.Attribute) and fn_.attr in MEMBERSHIP_MUTATORS:
            out.append((_collection_base(fn_.value, env)[0], n))
        elif isinstance(fn_, ast.Name):
            ds = env.get(fn_.id, [])
            bound = [d for d in ds if d is not None]
            for d in bound:
                if isinstance(d, ast.Attribute) and d.attr in BOUND_MUTATORS:
                    out.append((_collection_base(d.value, env)[0], n))       # remover = self._data()._sa_remover
                elif isinstance(d, ast.Call) and isinstance(d.func, ast.Attribute) and d.func.attr in BOUND_MUTATOR_FACTORIES:
                    out.append((_collection_base(d.func.value, env)[0], n))   # appender = adapter.bulk_appender()
            if not ds and fn_.id in outer_params and n.args:
                out.append((_collection_base(n.args[0], env)[0], n))          # the wrapped builtin method: fn(self, ..)
        # one level into a helper that receives the container
        if depth > 0:
            h = helpers(n)
            if h is not None:
                hnode, skip = h
                hparams = [a.arg for a in hnode.args.args][skip:]
                bind = dict(zip(hparams, n.args))
                bind.update({k.arg: k.value for k in n.keywords if k.arg in hparams})
                from ._helpers_rob_f2 import env_of as _eo
                henv = _eo(hnode)
                for st in hnode.body:
                    for hb, _c in _mutated_bases(st, henv, set(), helpers, depth - 1):
                        root = hb.split(".")[0].split("(")[0]
                        if hb in bind:
                            out.append((_collection_base(bind[hb], env)[0], n))
                        elif root == "self" and skip == 1 and isinstance(fn_, ast.Attribute):
                            out.append((_collection_base(ast.parse(hb.replace("self", unparse(fn_.value), 1), mode="eval").body, env)[0], n))
    return out


@R.rule("C37-R7", floor=2, template="T-FLOW",
        desc="every member gets its event: a loop (attribute implementations, CollectionAdapter, instrumentation wrappers) whose body "
             "changes the membership of the very collection it iterates -- remove_with_event / remover(item) / fn(self, ..) / del c[k], also "
             "through a helper that receives the collection -- iterates a SNAPSHOT of the members (list(c), c.copy(), c[:]), never the live "
             "collection, its adapter, an iterator or a dict view of it: iterating the live list skips every second member (their remove "
             "events never fire, their backrefs stay), a live set/dict raises in the middle")
def r7(ctx):
    from ._helpers_rules_d import qualname
    n_inst = 0
    for rel in R7_SCOPE:
        if not ctx.index.has(rel) and not any(m_.relpath == rel for m_ in ctx.index.all_modules()):
            continue
        m = ctx.index.module(rel)
        pm = m.parents()
        funcs = [n for n in ast.walk(m.tree) if isinstance(n, (ast.FunctionDef, ast.AsyncFunctionDef))]
        for fn in funcs:
            loops = [n for n in walk_local(fn) if isinstance(n, (ast.For, ast.AsyncFor))]
            if not loops:
                continue
            env = env_of(fn)
            outer_params = set()
            cur = pm.get(fn)
            cls = None
            while cur is not None:
                if isinstance(cur, (ast.FunctionDef, ast.AsyncFunctionDef)):
                    outer_params |= {a.arg for a in cur.args.args}
                elif isinstance(cur, ast.ClassDef) and cls is None:
                    cls = cur
                cur = pm.get(cur)
            cinfo = m.classes.get(cls.name) if cls is not None else None
            encl = [a for a in ancestors(pm, fn) if isinstance(a, (ast.FunctionDef, ast.AsyncFunctionDef))]

            def helpers(call, cinfo=cinfo, encl=encl, m=m, fn=fn):
                f_ = call.func
                if isinstance(f_, ast.Attribute) and isinstance(f_.value, ast.Name) and f_.value.id == "self" and cinfo is not None:
                    h = ctx.index.resolve_method(cinfo, f_.attr)
                    if h is not None and isinstance(h.node, ast.FunctionDef) and h.node is not fn and not h.type_only:
                        return h.node, 1
                if isinstance(f_, ast.Name):
                    for e in encl:
                        for st in e.body:
                            if isinstance(st, ast.FunctionDef) and st.name == f_.id and st is not fn:
                                return st, 0
                    h = m.functions.get(f_.id)
                    if h is not None and isinstance(getattr(h, "node", None), ast.FunctionDef) and h.node is not fn:
                        return h.node, 0
                return None

            for lp in loops:
                ibase, snap = _collection_base(lp.iter, env)
                hits = [c for st in lp.body for b, c in _mutated_bases(st, env, outer_params, helpers) if b == ibase]
                if not hits:
                    continue
                n_inst += 1
                ctx.functions_analysed.add(f"{rel}::{qualname(pm, fn) + '.' if qualname(pm, fn) else ''}{fn.name}")
                q = (qualname(pm, fn) + "." if qualname(pm, fn) else "") + fn.name
                key = f"{rel}::{q}:loop-over-snapshot[{ibase}]"
                ctx.check(snap, key,
                          f"`for {unparse(lp.target)} in {unparse(lp.iter)[:60]}:` iterates the live collection `{ibase}` while its body changes that collection's "
                          f"membership (`{unparse(hits[0])[:70]}`): a list skips the member that slides into the freed slot (every second member keeps its place in "
                          "nobody's collection: its remove event and the backref handler never run, so child.<backref> still names the parent although the parent's "
                          "collection no longer holds it), a set or dict raises `changed size during iteration` half way",
                          f"iterates a snapshot of `{ibase}` ({unparse(lp.iter)[:50]})", f"{m.path}:{lp.lineno}")
    ctx.require(n_inst >= 1, "no loop that changes the membership of the collection it walks was found")


# -------------------------------------------------------------------------------------- self-test
R.mutant("set-pops-from-new-child", ATTR,
         sub("            old_state, old_dict = (\n                instance_state(oldchild),\n                instance_dict(oldchild),\n            )\n",
             "            old_state, old_dict = (\n                instance_state(child),\n                instance_dict(child),\n            )\n"),
         "C37-R1")
R.mutant("append-passes-child-not-parent", ATTR,
         sub("            child_impl.append(\n                child_state,\n                child_dict,\n                state.obj(),\n                initiator,\n                passive=PASSIVE_NO_FETCH,\n            )\n        return child\n\n    def emit_backref_from_collection_remove_event(",
             "            child_impl.append(\n                child_state,\n                child_dict,\n                child,\n                initiator,\n                passive=PASSIVE_NO_FETCH,\n            )\n        return child\n\n    def emit_backref_from_collection_remove_event("),
         "C37-R1")
R.mutant("remove-appends", ATTR,
         sub("                    child_impl.pop(\n                        child_state,\n                        child_dict,\n                        state.obj(),\n                        initiator,\n                        passive=PASSIVE_NO_FETCH,\n                    )\n",
             "                    child_impl.append(\n                        child_state,\n                        child_dict,\n                        state.obj(),\n                        initiator,\n                        passive=PASSIVE_NO_FETCH,\n                    )\n"),
         "C37-R1")
R.mutant("set-pop-fetches", ATTR,
         sub("                    parent_impl._append_token,\n                    passive=PASSIVE_NO_FETCH,\n", "                    parent_impl._append_token,\n                    passive=PASSIVE_OFF,\n"),
         "C37-R1")
R.mutant("set-guard-dropped", ATTR,
         sub("            if initiator is not check_recursive_token:\n                impl.pop(", "            if True:\n                impl.pop("),
         "C37-R2")
R.mutant("append-guard-uses-parent-token", ATTR,
         sub("        check_append_token = child_impl._append_token\n        check_bulk_replace_token = (\n            child_impl._bulk_replace_token\n            if _is_collection_attribute_impl(child_impl)\n            else None\n        )\n\n        if (\n            initiator is not check_append_token\n            and initiator is not check_bulk_replace_token\n        ):\n            child_impl.append(\n                child_state,\n                child_dict,\n                state.obj(),\n                initiator,\n                passive=PASSIVE_NO_FETCH,\n            )\n        return child\n\n    def emit_backref_from_collection_remove_event(",
             "        check_append_token = parent_impl._append_token\n        check_bulk_replace_token = (\n            child_impl._bulk_replace_token\n            if _is_collection_attribute_impl(child_impl)\n            else None\n        )\n\n        if (\n            initiator is not check_append_token\n            and initiator is not check_bulk_replace_token\n        ):\n            child_impl.append(\n                child_state,\n                child_dict,\n                state.obj(),\n                initiator,\n                passive=PASSIVE_NO_FETCH,\n            )\n        return child\n\n    def emit_backref_from_collection_remove_event("),
         "C37-R2")
R.mutant("remove-guard-wrong-token", ATTR,
         sub("            if not child_impl.collection and not child_impl.dynamic:\n                check_remove_token = child_impl._remove_token\n                check_replace_token = child_impl._replace_token\n",
             "            if not child_impl.collection and not child_impl.dynamic:\n                check_remove_token = child_impl._append_token\n                check_replace_token = child_impl._replace_token\n"),
         "C37-R2")
R.mutant("remove-listener-only-for-uselist", ATTR,
         sub("    # TODO: need coverage in test/orm/ of remove event\n    event.listen(\n        attribute,\n        \"remove\",\n        emit_backref_from_collection_remove_event,\n        retval=True,\n        raw=True,\n        include_key=True,\n    )\n",
             "    if uselist:\n        event.listen(\n            attribute,\n            \"remove\",\n            emit_backref_from_collection_remove_event,\n            retval=True,\n            raw=True,\n            include_key=True,\n        )\n"),
         "C37-R3")
R.mutant("uselist-branches-swapped", ATTR,
         sub("    if uselist:\n        event.listen(\n            attribute,\n            \"append\",", "    if not uselist:\n        event.listen(\n            attribute,\n            \"append\","),
         "C37-R3")
R.mutant("set-listener-no-retval", ATTR,
         sub("            emit_backref_from_scalar_set_event,\n            retval=True,\n", "            emit_backref_from_scalar_set_event,\n"),
         "C37-R3")
R.mutant("bulk-replace-same-adapter", ATTR,
         sub("            new_values, old_collection, new_collection, initiator=evt\n", "            new_values, new_collection, new_collection, initiator=evt\n"),
         "C37-R4")
R.mutant("bulk-replace-skipped-when-empty", ATTR,
         sub("        collections.bulk_replace(\n            new_values, old_collection, new_collection, initiator=evt\n        )\n",
             "        if new_values:\n            collections.bulk_replace(\n                new_values, old_collection, new_collection, initiator=evt\n            )\n"),
         "C37-R4")
R.mutant("bulk-replace-removals-are-constants", COLL,
         sub("    removals = existing_idset.difference(constants)\n", "    removals = existing_idset.intersection(constants)\n"), "C37-R4")
R.mutant("bulk-replace-additions-silent", COLL,
         sub("        if member in additions:\n            appender(member, _sa_initiator=initiator)\n", "        if member in additions:\n            appender(member, _sa_initiator=False)\n"),
         "C37-R4")
# benign
R.mutant("benign-rename-old-state", ATTR,
         sub("            impl = old_state.manager[key].impl\n\n            # tokens to test for a recursive loop.\n            if not impl.collection and not impl.dynamic:\n                check_recursive_token = impl._replace_token\n            else:\n                check_recursive_token = impl._remove_token\n\n            if initiator is not check_recursive_token:\n                impl.pop(",
             "            rimpl = old_state.manager[key].impl\n\n            # tokens to test for a recursive loop.\n            if not rimpl.collection and not rimpl.dynamic:\n                check_recursive_token = rimpl._replace_token\n            else:\n                check_recursive_token = rimpl._remove_token\n\n            if initiator is not check_recursive_token:\n                rimpl.pop("),
         None)
R.mutant("benign-reorder-listen", ATTR,
         sub("    parent_token = attribute.impl.parent_token\n    parent_impl = attribute.impl\n", "    parent_impl = attribute.impl\n    parent_token = parent_impl.parent_token\n"),
         None)
R.mutant("benign-bulk-replace-rename", COLL,
         sub("    removals = existing_idset.difference(constants)\n", "    removals = existing_idset.difference(constants)\n    n_removed = len(removals)\n"),
         None)
# --- C37-R5
R.mutant("seed1-bulk-replace-event-after-store", ATTR,
         sub("        self.dispatch.bulk_replace(state, new_values, evt, keys=new_keys)\n\n", "", count=1), "C37-R5")
R.mutant("seed1-bulk-replace-event-moved-after-store", ATTR,
         sub("        dict_[self.key] = user_data\n\n        collections.bulk_replace(",
             "        dict_[self.key] = user_data\n\n        self.dispatch.bulk_replace(state, new_values, evt, keys=new_keys)\n        collections.bulk_replace("), "C37-R5")
R.mutant("scalar-object-set-stores-before-event", ATTR,
         sub("        value = self.fire_replace_event(state, dict_, value, old, initiator)\n        dict_[self.key] = value\n",
             "        dict_[self.key] = value\n        value = self.fire_replace_event(state, dict_, value, old, initiator)\n        dict_[self.key] = value\n"), "C37-R5")
R.mutant("scalar-object-delete-pops-before-event", ATTR,
         sub("        self.fire_remove_event(state, dict_, old, self._remove_token)\n\n        existing = dict_.pop(self.key, NO_VALUE)\n\n        # if the attribute is expired",
             "        existing = dict_.pop(self.key, NO_VALUE)\n        self.fire_remove_event(state, dict_, old, self._remove_token)\n\n        # if the attribute is expired"), "C37-R5")
R.mutant("pending-append-before-event", ATTR,
         sub("            value = self.fire_append_event(\n                state, dict_, value, initiator, key=NO_KEY\n            )\n            assert (\n                self.key not in dict_\n            ), \"Collection was loaded during event handling.\"\n            state._get_pending_mutation(self.key).append(value)\n",
             "            state._get_pending_mutation(self.key).append(value)\n            value = self.fire_append_event(\n                state, dict_, value, initiator, key=NO_KEY\n            )\n"), "C37-R5")
R.mutant("benign-collection-set-reorder-independent", ATTR,
         sub("        state._modified_event(dict_, self, old, True)\n\n        old_collection = old._sa_adapter\n",
             "        old_collection = old._sa_adapter\n        state._modified_event(dict_, self, old, True)\n"), None)
R.mutant("benign-scalar-set-event-via-local", ATTR,
         sub("        value = self.fire_replace_event(state, dict_, value, old, initiator)\n        dict_[self.key] = value\n",
             "        vetted = self.fire_replace_event(state, dict_, value, old, initiator)\n        dict_[self.key] = vetted\n"), None)
# --- C37-R6
R.mutant("seed2-list-remove-event-after-removal", COLL,
         sub("            # testlib.pragma exempt:__eq__\n            if value in self:\n                __del(self, value, _sa_initiator, NO_KEY)\n            # testlib.pragma exempt:__eq__\n            fn(self, value)\n",
             "            if _sa_initiator is not False:\n                __before_pop(self, _sa_initiator)\n            # testlib.pragma exempt:__eq__\n            fn(self, value)\n            __del(self, value, _sa_initiator, NO_KEY)\n"), "C37-R6")
R.mutant("list-delitem-event-after-removal", COLL,
         sub("                item = self[index]\n                __del(self, item, None, index)\n                fn(self, index)\n",
             "                item = self[index]\n                fn(self, index)\n                __del(self, item, None, index)\n"), "C37-R6")
R.mutant("has-dupes-true-from-one", "util/_collections.py", sub("            if c > 1:\n                return True\n", "            if c > 0:\n                return True\n"), "C37-R6")
R.mutant("benign-list-remove-rename", COLL,
         sub("        def remove(self, value, _sa_initiator=None):\n            # testlib.pragma exempt:__eq__\n            if value in self:\n                __del(self, value, _sa_initiator, NO_KEY)\n            # testlib.pragma exempt:__eq__\n            fn(self, value)\n",
             "        def remove(self, item, _sa_initiator=None):\n            is_member = item in self\n            if is_member:\n                __del(self, item, _sa_initiator, NO_KEY)\n            fn(self, item)\n"), None)


# -------------------------------------------------------------------------------------- rob-F2: benign refactor families
_APPEND_BLOCK_SET = (
    "            child_state, child_dict = (\n                instance_state(child),\n                instance_dict(child),\n            )\n"
    "            child_impl = child_state.manager[key].impl\n\n"
    "            if (\n                initiator.parent_token is not parent_token\n                and initiator.parent_token is not child_impl.parent_token\n            ):\n"
    "                _acceptable_key_err(state, initiator, child_impl)\n\n"
    "            # tokens to test for a recursive loop.\n"
    "            check_append_token = child_impl._append_token\n"
    "            check_bulk_replace_token = (\n                child_impl._bulk_replace_token\n                if _is_collection_attribute_impl(child_impl)\n                else None\n            )\n\n"
    "            if (\n                initiator is not check_append_token\n                and initiator is not check_bulk_replace_token\n            ):\n"
    "                child_impl.append(\n                    child_state,\n                    child_dict,\n                    state.obj(),\n                    initiator,\n                    passive=PASSIVE_NO_FETCH,\n                )\n"
    "        return child\n"
)
_APPEND_BLOCK_COLL = (
    "        child_state, child_dict = instance_state(child), instance_dict(child)\n"
    "        child_impl = child_state.manager[key].impl\n\n"
    "        if (\n            initiator.parent_token is not parent_token\n            and initiator.parent_token is not child_impl.parent_token\n        ):\n"
    "            _acceptable_key_err(state, initiator, child_impl)\n\n"
    "        # tokens to test for a recursive loop.\n"
    "        check_append_token = child_impl._append_token\n"
    "        check_bulk_replace_token = (\n            child_impl._bulk_replace_token\n            if _is_collection_attribute_impl(child_impl)\n            else None\n        )\n\n"
)
_APPEND_TAIL_COLL = (
    "        if (\n            initiator is not check_append_token\n            and initiator is not check_bulk_replace_token\n        ):\n"
    "            child_impl.append(\n                child_state,\n                child_dict,\n                state.obj(),\n                initiator,\n                passive=PASSIVE_NO_FETCH,\n            )\n"
    "        return child\n\n    def emit_backref_from_collection_remove_event(\n"
)


def _chain(*edits):
    def edit(src):
        for e in edits:
            src = e(src)
        return src
    return edit


# family rfF_8: the block duplicated in the set and the append handler becomes one closure called by both
R.mutant("benign-append-block-extracted-to-closure", ATTR,
         _chain(sub(_APPEND_BLOCK_SET, "            _mirror_append(state, child, initiator)\n        return child\n"),
                sub(_APPEND_BLOCK_COLL + _APPEND_TAIL_COLL,
                    "        _mirror_append(state, child, initiator)\n        return child\n\n"
                    "    def _mirror_append(parent_state, target, token):\n"
                    + (_APPEND_BLOCK_COLL + _APPEND_TAIL_COLL.replace("        return child\n\n    def emit_backref_from_collection_remove_event(\n", ""))
                    .replace("(state, initiator, child_impl)", "(parent_state, token, child_impl)")
                    .replace("instance_state(child), instance_dict(child)", "instance_state(target), instance_dict(target)")
                    .replace("initiator", "token").replace("state.obj()", "parent_state.obj()")
                    + "\n    def emit_backref_from_collection_remove_event(\n")),
         None)
# same, but the helper is a module level function that receives the closure variables and returns the child
R.mutant("benign-append-block-extracted-to-module-function", ATTR,
         _chain(sub(_APPEND_BLOCK_COLL + _APPEND_TAIL_COLL,
                    "        return _backref_append(state, child, initiator, key, parent_token, _acceptable_key_err)\n\n"
                    "    def emit_backref_from_collection_remove_event(\n"),
                sub("def _backref_listeners(\n",
                    "def _backref_append(state, child, initiator, key, parent_token, _acceptable_key_err):\n"
                    + _APPEND_BLOCK_COLL.replace("\n        ", "\n    ").replace("        child_state, child_dict", "    child_state, child_dict", 1)
                    + "    if initiator is check_append_token or initiator is check_bulk_replace_token:\n        return child\n"
                      "    child_impl.append(\n        child_state,\n        child_dict,\n        state.obj(),\n        initiator,\n        passive=PASSIVE_NO_FETCH,\n    )\n    return child\n\n\n"
                      "def _backref_listeners(\n")),
         None)
# the recursion test as an early return
R.mutant("benign-append-guard-early-return", ATTR,
         sub(_APPEND_TAIL_COLL,
             "        if (\n            initiator is check_append_token\n            or initiator is check_bulk_replace_token\n        ):\n            return child\n"
             "        child_impl.append(\n            child_state,\n            child_dict,\n            state.obj(),\n            initiator,\n            passive=PASSIVE_NO_FETCH,\n        )\n"
             "        return child\n\n    def emit_backref_from_collection_remove_event(\n"),
         None)
# the recursion test as a boolean local + inverted if/else
R.mutant("benign-append-guard-boolean-local", ATTR,
         sub(_APPEND_TAIL_COLL,
             "        recursing = (\n            initiator is check_append_token\n            or initiator is check_bulk_replace_token\n        )\n"
             "        if recursing:\n            pass\n        else:\n"
             "            child_impl.append(\n                child_state,\n                child_dict,\n                state.obj(),\n                initiator,\n                passive=PASSIVE_NO_FETCH,\n            )\n"
             "        return child\n\n    def emit_backref_from_collection_remove_event(\n"),
         None)
# tokens compared without locals, nested ifs, parent object in a local
R.mutant("benign-append-guard-nested-ifs-inline-tokens", ATTR,
         sub(_APPEND_TAIL_COLL,
             "        parent_obj = state.obj()\n"
             "        if initiator is not child_impl._append_token:\n            if check_bulk_replace_token is not initiator:\n"
             "                child_impl.append(\n                    child_state,\n                    child_dict,\n                    parent_obj,\n                    initiator,\n                    passive=PASSIVE_NO_FETCH,\n                )\n"
             "        return child\n\n    def emit_backref_from_collection_remove_event(\n"),
         None)
# `if child is None: return` <-> body under `if child is not None:`; the handler then returns the child (None) at the end
R.mutant("benign-append-return-none-state-alias", ATTR,
         _chain(sub("        state, child, initiator, **kw\n    ):\n        if child is None:\n            return\n\n" + _APPEND_BLOCK_COLL,
                    "        state, child, initiator, **kw\n    ):\n        if child is None:\n            return None\n        reverse_state = instance_state(child)\n"
                    + _APPEND_BLOCK_COLL.replace("        child_state, child_dict = instance_state(child), instance_dict(child)\n",
                                                 "        child_state, child_dict = reverse_state, instance_dict(child)\n"))),
         None)
def _indent(txt, n=4):
    return "".join((" " * n + ln if ln.strip() else ln) for ln in txt.splitlines(True))


_APPEND_TAIL_BODY = _APPEND_TAIL_COLL.replace("        return child\n\n    def emit_backref_from_collection_remove_event(\n", "")
R.mutant("benign-append-none-test-inverted", ATTR,
         sub("        if child is None:\n            return\n\n" + _APPEND_BLOCK_COLL + _APPEND_TAIL_COLL,
             "        if child is not None:\n" + _indent(_APPEND_BLOCK_COLL + _APPEND_TAIL_BODY)
             + "        return child\n\n    def emit_backref_from_collection_remove_event(\n"),
         None)
# family rfF_7: hoisted common assignment, De Morgan + swapped arms in the remove handler
R.mutant("benign-remove-tokens-hoisted-demorgan", ATTR,
         sub("            if not child_impl.collection and not child_impl.dynamic:\n                check_remove_token = child_impl._remove_token\n                check_replace_token = child_impl._replace_token\n"
             "                check_for_dupes_on_remove = uselist and not parent_impl.dynamic\n            else:\n                check_remove_token = child_impl._remove_token\n"
             "                check_replace_token = (\n                    child_impl._bulk_replace_token\n                    if _is_collection_attribute_impl(child_impl)\n                    else None\n                )\n"
             "                check_for_dupes_on_remove = False\n",
             "            check_remove_token = child_impl._remove_token\n            if child_impl.collection or child_impl.dynamic:\n"
             "                check_replace_token = (\n                    child_impl._bulk_replace_token\n                    if _is_collection_attribute_impl(child_impl)\n                    else None\n                )\n"
             "                check_for_dupes_on_remove = False\n            else:\n                check_replace_token = child_impl._replace_token\n"
             "                check_for_dupes_on_remove = uselist and not parent_impl.dynamic\n"),
         None)
# remove handler: guards as early returns, the duplicate test De Morganed
R.mutant("benign-remove-guards-early-return", ATTR,
         sub("            if (\n                initiator is not check_remove_token\n                and initiator is not check_replace_token\n            ):\n"
             "                if not check_for_dupes_on_remove or not util.has_dupes(\n                    # when this event is called, the item is usually\n                    # present in the list, except for a pop() operation.\n"
             "                    state.dict[parent_impl.key],\n                    child,\n                ):\n"
             "                    child_impl.pop(\n                        child_state,\n                        child_dict,\n                        state.obj(),\n                        initiator,\n                        passive=PASSIVE_NO_FETCH,\n                    )\n",
             "            if initiator is check_remove_token:\n                return\n            if initiator is check_replace_token:\n                return\n"
             "            if not (\n                check_for_dupes_on_remove\n                and util.has_dupes(state.dict[parent_impl.key], child)\n            ):\n"
             "                child_impl.pop(\n                    child_state,\n                    child_dict,\n                    state.obj(),\n                    initiator,\n                    passive=PASSIVE_NO_FETCH,\n                )\n"),
         None)
# set handler: the pop from the old child extracted into a closure with an early return
R.mutant("benign-set-pop-extracted-to-closure", ATTR,
         _chain(sub("            old_state, old_dict = (\n                instance_state(oldchild),\n                instance_dict(oldchild),\n            )\n            impl = old_state.manager[key].impl\n\n"
                    "            # tokens to test for a recursive loop.\n            if not impl.collection and not impl.dynamic:\n                check_recursive_token = impl._replace_token\n            else:\n                check_recursive_token = impl._remove_token\n\n"
                    "            if initiator is not check_recursive_token:\n                impl.pop(\n                    old_state,\n                    old_dict,\n                    state.obj(),\n                    parent_impl._append_token,\n                    passive=PASSIVE_NO_FETCH,\n                )\n",
                    "            _pop_from_previous(state, oldchild, initiator)\n"),
                sub("    def emit_backref_from_scalar_set_event(\n",
                    "    def _pop_from_previous(state, previous, initiator):\n"
                    "        old_state = instance_state(previous)\n        old_dict = instance_dict(previous)\n        impl = old_state.manager[key].impl\n"
                    "        if impl.collection or impl.dynamic:\n            check_recursive_token = impl._remove_token\n        else:\n            check_recursive_token = impl._replace_token\n"
                    "        if initiator is check_recursive_token:\n            return\n"
                    "        impl.pop(\n            old_state,\n            old_dict,\n            state.obj(),\n            parent_impl._append_token,\n            passive=PASSIVE_NO_FETCH,\n        )\n\n"
                    "    def emit_backref_from_scalar_set_event(\n")),
         None)
# registrations: arms swapped / early return
R.mutant("benign-listen-arms-swapped", ATTR,
         sub("    if uselist:\n        event.listen(\n            attribute,\n            \"append\",\n            emit_backref_from_collection_append_event,\n            retval=True,\n            raw=True,\n            include_key=True,\n        )\n"
             "    else:\n        event.listen(\n            attribute,\n            \"set\",\n            emit_backref_from_scalar_set_event,\n            retval=True,\n            raw=True,\n            include_key=True,\n        )\n",
             "    is_collection = uselist\n    if not is_collection:\n        event.listen(\n            attribute,\n            \"set\",\n            emit_backref_from_scalar_set_event,\n            retval=True,\n            raw=True,\n            include_key=True,\n        )\n"
             "    else:\n        event.listen(\n            attribute,\n            \"append\",\n            emit_backref_from_collection_append_event,\n            retval=True,\n            raw=True,\n            include_key=True,\n        )\n"),
         None)
# family rfF_9: renamed token local, raise extracted into a NoReturn helper
R.mutant("benign-collection-set-token-renamed-raise-extracted", ATTR,
         _chain(sub("        evt = self._bulk_replace_token\n\n        self.dispatch.bulk_replace(state, new_values, evt, keys=new_keys)\n",
                    "        bulk_token = self._bulk_replace_token\n\n        self.dispatch.bulk_replace(\n            state, new_values, bulk_token, keys=new_keys\n        )\n"),
                sub("            new_values, old_collection, new_collection, initiator=evt\n",
                    "            new_values,\n            old_collection,\n            new_collection,\n            initiator=bulk_token,\n")),
         None)
# bulk_replace: disjoint arms the other way round, early return instead of `if existing_adapter:`
R.mutant("benign-bulk-replace-arms-swapped-early-return", COLL,
         _chain(sub("        if member in additions:\n            appender(member, _sa_initiator=initiator)\n        elif member in constants:\n            appender(member, _sa_initiator=False)\n",
                    "        if member in constants:\n            appender(member, _sa_initiator=False)\n        elif member in additions:\n            appender(member, _sa_initiator=initiator)\n"),
                sub("    if existing_adapter:\n        existing_adapter._fire_append_wo_mutation_event_bulk(\n            constants, initiator=initiator\n        )\n        existing_adapter._fire_remove_event_bulk(removals, initiator=initiator)\n",
                    "    if not existing_adapter:\n        return\n    existing_adapter._fire_append_wo_mutation_event_bulk(\n        constants, initiator=initiator\n    )\n    existing_adapter._fire_remove_event_bulk(removals, initiator=initiator)\n")),
         None)
# breaking edits on top of the refactored shapes: the rules must see through the helper / early return as well
_CLOSURE_HELPER = (
    "        _mirror_append(state, child, initiator)\n        return child\n\n"
    "    def _mirror_append(parent_state, target, token):\n"
    + (_APPEND_BLOCK_COLL + _APPEND_TAIL_BODY)
    .replace("(state, initiator, child_impl)", "(parent_state, token, child_impl)")
    .replace("instance_state(child), instance_dict(child)", "instance_state(target), instance_dict(target)")
    .replace("initiator", "token").replace("state.obj()", "parent_state.obj()")
    + "\n    def emit_backref_from_collection_remove_event(\n")
R.mutant("closure-helper-guard-against-parent-token", ATTR,
         _chain(sub(_APPEND_BLOCK_SET, "            _mirror_append(state, child, initiator)\n        return child\n"),
                sub(_APPEND_BLOCK_COLL + _APPEND_TAIL_COLL,
                    _CLOSURE_HELPER.replace("        check_append_token = child_impl._append_token\n", "        check_append_token = parent_impl._append_token\n"))),
         "C37-R2")
R.mutant("closure-helper-passes-child", ATTR,
         _chain(sub(_APPEND_BLOCK_SET, "            _mirror_append(state, child, initiator)\n        return child\n"),
                sub(_APPEND_BLOCK_COLL + _APPEND_TAIL_COLL, _CLOSURE_HELPER.replace("parent_state.obj(),\n", "target,\n"))),
         "C37-R1")
R.mutant("early-return-guard-without-return", ATTR,
         sub(_APPEND_TAIL_COLL,
             "        if (\n            initiator is check_append_token\n            or initiator is check_bulk_replace_token\n        ):\n            pass\n"
             "        child_impl.append(\n            child_state,\n            child_dict,\n            state.obj(),\n            initiator,\n            passive=PASSIVE_NO_FETCH,\n        )\n"
             "        return child\n\n    def emit_backref_from_collection_remove_event(\n"),
         "C37-R2")
R.mutant("early-return-guard-returns-nothing", ATTR,
         sub(_APPEND_TAIL_COLL,
             "        if (\n            initiator is check_append_token\n            or initiator is check_bulk_replace_token\n        ):\n            return\n"
             "        child_impl.append(\n            child_state,\n            child_dict,\n            state.obj(),\n            initiator,\n            passive=PASSIVE_NO_FETCH,\n        )\n"
             "        return child\n\n    def emit_backref_from_collection_remove_event(\n"),
         "C37-R1")
R.mutant("none-test-inverted-no-final-return", ATTR,
         sub("        if child is None:\n            return\n\n" + _APPEND_BLOCK_COLL + _APPEND_TAIL_COLL,
             "        if child is not None:\n" + _indent(_APPEND_BLOCK_COLL + _APPEND_TAIL_BODY)
             + "\n    def emit_backref_from_collection_remove_event(\n"),
         "C37-R1")
R.mutant("boolean-local-guard-or-becomes-and", ATTR,
         sub(_APPEND_TAIL_COLL,
             "        recursing = (\n            initiator is check_append_token\n            and initiator is check_bulk_replace_token\n        )\n"
             "        if not recursing:\n"
             "            child_impl.append(\n                child_state,\n                child_dict,\n                state.obj(),\n                initiator,\n                passive=PASSIVE_NO_FETCH,\n            )\n"
             "        return child\n\n    def emit_backref_from_collection_remove_event(\n"),
         "C37-R2")
R.mutant("pop-helper-pops-from-new-child", ATTR,
         _chain(sub("            old_state, old_dict = (\n                instance_state(oldchild),\n                instance_dict(oldchild),\n            )\n            impl = old_state.manager[key].impl\n\n"
                    "            # tokens to test for a recursive loop.\n            if not impl.collection and not impl.dynamic:\n                check_recursive_token = impl._replace_token\n            else:\n                check_recursive_token = impl._remove_token\n\n"
                    "            if initiator is not check_recursive_token:\n                impl.pop(\n                    old_state,\n                    old_dict,\n                    state.obj(),\n                    parent_impl._append_token,\n                    passive=PASSIVE_NO_FETCH,\n                )\n",
                    "            _pop_from_previous(state, child, initiator)\n"),
                sub("    def emit_backref_from_scalar_set_event(\n",
                    "    def _pop_from_previous(state, previous, initiator):\n"
                    "        old_state = instance_state(previous)\n        old_dict = instance_dict(previous)\n        impl = old_state.manager[key].impl\n"
                    "        if impl.collection or impl.dynamic:\n            check_recursive_token = impl._remove_token\n        else:\n            check_recursive_token = impl._replace_token\n"
                    "        if initiator is check_recursive_token:\n            return\n"
                    "        impl.pop(\n            old_state,\n            old_dict,\n            state.obj(),\n            parent_impl._append_token,\n            passive=PASSIVE_NO_FETCH,\n        )\n\n"
                    "    def emit_backref_from_scalar_set_event(\n")),
         "C37-R1")
R.mutant("listen-early-return-skips-remove", ATTR,
         sub("    else:\n        event.listen(\n            attribute,\n            \"set\",\n            emit_backref_from_scalar_set_event,\n            retval=True,\n            raw=True,\n            include_key=True,\n        )\n",
             "        return\n    event.listen(\n        attribute,\n        \"set\",\n        emit_backref_from_scalar_set_event,\n        retval=True,\n        raw=True,\n        include_key=True,\n    )\n"),
         "C37-R3")
# extracted private methods of the impls (store / bulk_replace moved out of set())
_SET_TAIL = ("        old_collection = old._sa_adapter\n\n        dict_[self.key] = user_data\n\n        collections.bulk_replace(\n"
             "            new_values, old_collection, new_collection, initiator=evt\n        )\n\n"
             "        self._dispose_previous_collection(state, old, old_collection, True)\n")
_SET_TAIL_HELPER = ("        self._swap_collections(\n            state, dict_, old, user_data, new_values, new_collection, evt\n        )\n\n"
                    "    def _swap_collections(\n        self, state, dict_, previous, user_data, members, adapter, token\n    ):\n"
                    "        previous_adapter = previous._sa_adapter\n        dict_[self.key] = user_data\n"
                    "        collections.bulk_replace(\n            members, previous_adapter, adapter, initiator=token\n        )\n"
                    "        self._dispose_previous_collection(\n            state, previous, previous_adapter, True\n        )\n")
R.mutant("benign-collection-set-tail-extracted-to-method", ATTR, sub(_SET_TAIL, _SET_TAIL_HELPER), None)
R.mutant("collection-set-helper-same-adapter-twice", ATTR,
         sub(_SET_TAIL, _SET_TAIL_HELPER.replace("members, previous_adapter, adapter, initiator=token", "members, adapter, adapter, initiator=token")), "C37-R4")
R.mutant("collection-set-helper-called-before-event", ATTR,
         _chain(sub(_SET_TAIL, _SET_TAIL_HELPER),
                sub("        self.dispatch.bulk_replace(state, new_values, evt, keys=new_keys)\n\n", ""),
                sub("        self._swap_collections(\n            state, dict_, old, user_data, new_values, new_collection, evt\n        )\n",
                    "        self._swap_collections(\n            state, dict_, old, user_data, new_values, new_collection, evt\n        )\n"
                    "        self.dispatch.bulk_replace(state, new_values, evt, keys=new_keys)\n")),
         "C37-R5")
_STORE_HELPER = ("\n    def _store_value(self, dict_: _InstanceDict, value: Any) -> None:\n        dict_[self.key] = value\n\n"
                 "    def fire_remove_event(\n        self,\n        state: InstanceState[Any],\n        dict_: _InstanceDict,\n        value: Any,\n        initiator: Optional[AttributeEventToken],\n    ) -> None:\n"
                 "        if self.trackparent and value not in (\n")
R.mutant("benign-scalar-object-set-store-in-helper", ATTR,
         _chain(sub("        value = self.fire_replace_event(state, dict_, value, old, initiator)\n        dict_[self.key] = value\n",
                    "        value = self.fire_replace_event(state, dict_, value, old, initiator)\n        self._store_value(dict_, value)\n"),
                sub("\n    def fire_remove_event(\n        self,\n        state: InstanceState[Any],\n        dict_: _InstanceDict,\n        value: Any,\n        initiator: Optional[AttributeEventToken],\n    ) -> None:\n"
                    "        if self.trackparent and value not in (\n", _STORE_HELPER)),
         None)
R.mutant("scalar-object-set-store-helper-before-event", ATTR,
         _chain(sub("        value = self.fire_replace_event(state, dict_, value, old, initiator)\n        dict_[self.key] = value\n",
                    "        self._store_value(dict_, value)\n        value = self.fire_replace_event(state, dict_, value, old, initiator)\n        self._store_value(dict_, value)\n"),
                sub("\n    def fire_remove_event(\n        self,\n        state: InstanceState[Any],\n        dict_: _InstanceDict,\n        value: Any,\n        initiator: Optional[AttributeEventToken],\n    ) -> None:\n"
                    "        if self.trackparent and value not in (\n", _STORE_HELPER)),
         "C37-R5")
# list wrappers: remove events delivered through an extracted closure / inverted arms
_DELITEM = ("            if not isinstance(index, slice):\n                item = self[index]\n                __del(self, item, None, index)\n                fn(self, index)\n"
            "            else:\n                # slice deletion requires __getslice__ and a slice-groking\n                # __getitem__ for stepped deletion\n                # note: not breaking this into atomic dels\n"
            "                for item in self[index]:\n                    __del(self, item, None, index)\n                fn(self, index)\n")
R.mutant("benign-list-delitem-events-in-closure-arms-swapped", COLL,
         _chain(sub(_DELITEM,
                    "            if isinstance(index, slice):\n                _announce_removals(self, self[index], index)\n                fn(self, index)\n                return\n"
                    "            item = self[index]\n            __del(self, item, None, index)\n            fn(self, index)\n"),
                sub("    def __delitem__(fn):\n        def __delitem__(self, index):\n",
                    "    def _announce_removals(collection, items, index):\n        for item in items:\n            __del(collection, item, None, index)\n\n"
                    "    def __delitem__(fn):\n        def __delitem__(self, index):\n"),
                sub("    l = locals().copy()\n    l.pop(\"_tidy\")\n    return l\n\n\ndef _dict_decorators()",
                    "    l = locals().copy()\n    l.pop(\"_tidy\")\n    l.pop(\"_announce_removals\")\n    return l\n\n\ndef _dict_decorators()")),
         None)
R.mutant("list-delitem-scalar-event-helper-after-removal", COLL,
         _chain(sub("                item = self[index]\n                __del(self, item, None, index)\n                fn(self, index)\n",
                    "                item = self[index]\n                fn(self, index)\n                _announce_removal(self, item, index)\n"),
                sub("    def __delitem__(fn):\n        def __delitem__(self, index):\n",
                    "    def _announce_removal(collection, item, index):\n        __del(collection, item, None, index)\n\n"
                    "    def __delitem__(fn):\n        def __delitem__(self, index):\n"),
                sub("    l = locals().copy()\n    l.pop(\"_tidy\")\n    return l\n\n\ndef _dict_decorators()",
                    "    l = locals().copy()\n    l.pop(\"_tidy\")\n    l.pop(\"_announce_removal\")\n    return l\n\n\ndef _dict_decorators()")),
         "C37-R6")


# -------------------------------------------------------------------------------------- str2-p: C37-R7 self-test inputs
_DEL_CLEAR = ("        collection = self.get_collection(state, state.dict)\n        collection.clear_with_event()\n\n"
              "        # key is always present because we checked above.  e.g.\n")
_DEL_TAIL = "\n        # key is always present because we checked above.  e.g.\n"
# essence of round-2 seed C37_3: del obj.collection removes the members one by one while walking the live adapter
R.mutant("collection-delete-walks-live-adapter", ATTR,
         sub(_DEL_CLEAR, "        collection = self.get_collection(state, state.dict)\n        for member in collection:\n"
                         "            collection.remove_with_event(member, self._remove_token)\n" + _DEL_TAIL), "C37-R7")
R.mutant("collection-delete-walks-live-adapter-through-alias-and-iter", ATTR,
         sub(_DEL_CLEAR, "        collection = self.get_collection(state, state.dict)\n        members = iter(collection)\n        for member in members:\n"
                         "            collection.remove_with_event(member, self._remove_token)\n" + _DEL_TAIL), "C37-R7")
R.mutant("collection-delete-walks-live-adapter-removal-in-helper", ATTR,
         _chain(sub(_DEL_CLEAR, "        collection = self.get_collection(state, state.dict)\n        for member in collection:\n"
                                "            self._drop_member(collection, member)\n" + _DEL_TAIL),
                sub("    def _default_value(\n        self, state: InstanceState[Any], dict_: _InstanceDict\n    ) -> _AdaptedCollectionProtocol:\n",
                    "    def _drop_member(self, adapter: Any, member: Any) -> None:\n        adapter.remove_with_event(member, self._remove_token)\n\n"
                    "    def _default_value(\n        self, state: InstanceState[Any], dict_: _InstanceDict\n    ) -> _AdaptedCollectionProtocol:\n")),
         "C37-R7")
R.mutant("adapter-clear-with-event-walks-live-collection", COLL,
         sub("        remover = self._data()._sa_remover\n        for item in list(self):\n            remover(item, _sa_initiator=initiator)\n",
             "        remover = self._data()._sa_remover\n        for item in self:\n            remover(item, _sa_initiator=initiator)\n"), "C37-R7")
R.mutant("set-clear-wrapper-walks-live-set", COLL,
         sub("        def clear(self):\n            for item in list(self):\n                self.remove(item)\n",
             "        def clear(self):\n            for item in self:\n                self.remove(item)\n"), "C37-R7")
# benign: the same removals over a snapshot, written differently
R.mutant("benign-collection-delete-removes-members-of-a-snapshot", ATTR,
         sub(_DEL_CLEAR, "        collection = self.get_collection(state, state.dict)\n        for member in list(collection):\n"
                         "            collection.remove_with_event(member, self._remove_token)\n" + _DEL_TAIL), None)
R.mutant("benign-collection-delete-snapshot-local-removal-in-helper", ATTR,
         _chain(sub(_DEL_CLEAR, "        collection = self.get_collection(state, state.dict)\n        present = tuple(collection)\n        for member in present:\n"
                                "            self._drop_member(collection, member)\n" + _DEL_TAIL),
                sub("    def _default_value(\n        self, state: InstanceState[Any], dict_: _InstanceDict\n    ) -> _AdaptedCollectionProtocol:\n",
                    "    def _drop_member(self, adapter: Any, member: Any) -> None:\n        adapter.remove_with_event(member, self._remove_token)\n\n"
                    "    def _default_value(\n        self, state: InstanceState[Any], dict_: _InstanceDict\n    ) -> _AdaptedCollectionProtocol:\n")),
         None)
R.mutant("benign-adapter-clear-with-event-snapshot-in-local", COLL,
         sub("        remover = self._data()._sa_remover\n        for item in list(self):\n            remover(item, _sa_initiator=initiator)\n",
             "        members = tuple(self)\n        drop = self._data()._sa_remover\n        for member in members:\n            drop(member, _sa_initiator=initiator)\n"), None)
