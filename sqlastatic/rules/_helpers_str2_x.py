"""str2-x (round-2 strengthening of C55): keyed lookups in a parameter that IS a builtin dict.

The build variants of a split function often differ only in HOW they look a key up in `self` (a dict subclass) or in
a dict argument: `k in d` + `d[k]`, `d.get(k)` tested against None, `d.get(k)` tested for truth.  `_helpers_str_v.Variant`
described `d.get` as "a callable supplied by the caller" and the test on its result as an opaque atom over `<d~+k~>`:
every spelling other than the one the other arm uses was a disagreement, the behaviour-preserving ones included.

`LookupVariant` gives the three spellings one meaning:

* `d.get(k)` / `d.get(k, None)` on a dict-like parameter is a pure read (an element of d), not an application;
* a test on the looked-up value is normalised against the DECLARED value type of the dict
  (`class anon_map(Dict[_AM_KEY, _AM_VALUE])`, `_AM_VALUE = Union[int, Literal[True], ...]`):
    - `v is not None`  ==  `k in d`   when the value type cannot be None,
    - `bool(v)`        ==  `k in d`   when the value type admits no falsy value (only `Literal[<truthy>]` members),
    - otherwise the atom keeps its own text (`truth of <d>[<k>]`, `<d>[<k>] is not None`): it is NOT the membership
      test, and the rule reports which declared member makes the difference (`int`: 0 is falsy).
  When the value type is not declared the atom is opaque (`?lookup...`): a disagreement that involves it is an
  analysis error, not a verdict.

Nothing here imports or runs SQLAlchemy.
"""

from __future__ import annotations

import ast
from typing import Dict, List, Optional, Tuple

from ..astutil import ScopeNode, enclosing_stmt, test_atoms
from ._helpers_str_v import _block_of, _split, Variant

DICT_NAMES = {"dict", "Dict", "defaultdict", "DefaultDict", "OrderedDict"}
FALSY_CAPABLE = {"int", "str", "bool", "float", "bytes", "list", "dict", "tuple", "set", "frozenset", "complex", "bytearray"}


class Domain:
    """what the declared value type of a dict says about its values"""

    def __init__(self, members: List[str], none_free: bool, falsy_free: bool, known: bool = True):
        self.members, self.none_free, self.falsy_free, self.known = members, none_free, falsy_free, known

    def falsy_members(self) -> List[str]:
        return [m for m in self.members if m in FALSY_CAPABLE or m.startswith("Literal[") and m not in ("Literal[True]",)]


UNKNOWN = Domain([], False, False, known=False)


def _ann_name(e) -> Optional[str]:
    if isinstance(e, ast.Name):
        return e.id
    if isinstance(e, ast.Attribute):
        return e.attr
    return None


def _members(e, module, depth=0) -> Optional[List[Tuple[str, object]]]:
    """flatten a type expression into [(kind, payload)]: ("none",), ("any",), ("literal", value), ("class", name)"""
    if depth > 4 or e is None:
        return None
    if isinstance(e, ast.Constant):
        if e.value is None:
            return [("none", None)]
        if isinstance(e.value, str):
            try:
                inner = ast.parse(e.value, mode="eval").body
            except SyntaxError:
                return None
            return _members(inner, module, depth + 1)
        return None
    if isinstance(e, ast.BinOp) and isinstance(e.op, ast.BitOr):
        a, b = _members(e.left, module, depth + 1), _members(e.right, module, depth + 1)
        return None if a is None or b is None else a + b
    if isinstance(e, ast.Subscript):
        head = _ann_name(e.value)
        args = list(e.slice.elts) if isinstance(e.slice, ast.Tuple) else [e.slice]
        if head == "Union":
            out: List[Tuple[str, object]] = []
            for a in args:
                r = _members(a, module, depth + 1)
                if r is None:
                    return None
                out += r
            return out
        if head == "Optional":
            r = _members(args[0], module, depth + 1)
            return None if r is None else r + [("none", None)]
        if head == "Literal":
            if all(isinstance(a, ast.Constant) for a in args):
                return [("literal", a.value) for a in args]
            return None
        if head in ("Annotated", "Final", "ClassVar"):
            return _members(args[0], module, depth + 1)
        return [("class", head or "?")] if head else None
    nm = _ann_name(e)
    if nm is None:
        return None
    if nm == "None":
        return [("none", None)]
    if nm in ("Any", "object"):
        return [("any", nm)]
    # a module-level alias (`_AM_VALUE = Union[...]`), bound exactly once
    vals = (getattr(module, "assigns", None) or {}).get(nm) if isinstance(e, ast.Name) else None
    if vals and len(vals) == 1 and isinstance(vals[0], (ast.Subscript, ast.BinOp, ast.Name, ast.Attribute, ast.Constant)):
        r = _members(vals[0], module, depth + 1)
        if r is not None:
            return r
    return [("class", nm)]


def value_domain(v_expr, module) -> Domain:
    ms = _members(v_expr, module)
    if not ms:
        return UNKNOWN
    names = []
    none_free, falsy_free = True, True
    for kind, payload in ms:
        if kind == "none":
            none_free = falsy_free = False
            names.append("None")
        elif kind == "any":
            none_free = falsy_free = False
            names.append(str(payload))
        elif kind == "literal":
            if payload is None:
                none_free = False
            if not payload:
                falsy_free = False
            names.append(f"Literal[{payload!r}]")
        else:
            falsy_free = False       # an arbitrary class may define a falsy instance; builtin scalars / containers do
            names.append(str(payload))
    return Domain(names, none_free, falsy_free)


def dict_facts(module, pm, fn) -> Tuple[set, Dict[str, Domain]]:
    """(parameters of `fn` that are builtin dicts, {parameter: declared value domain})."""
    a = fn.args
    params = a.posonlyargs + a.args + a.kwonlyargs
    dicts, dom = set(), {}

    def dict_ann(ann):
        """(is a dict type, value type expression | None)"""
        if isinstance(ann, ast.Constant) and isinstance(ann.value, str):
            try:
                ann = ast.parse(ann.value, mode="eval").body
            except SyntaxError:
                return False, None
        if isinstance(ann, ast.Subscript) and _ann_name(ann.value) in DICT_NAMES:
            args = list(ann.slice.elts) if isinstance(ann.slice, ast.Tuple) else [ann.slice]
            return True, (args[1] if len(args) == 2 else None)
        return (_ann_name(ann) in DICT_NAMES), None

    for p in params:
        if p.annotation is not None:
            is_d, v = dict_ann(p.annotation)
            if is_d:
                dicts.add(p.arg)
                if v is not None:
                    dom[p.arg] = value_domain(v, module)
    # the receiver of a method of a dict subclass
    cls = pm.get(fn)
    while cls is not None and not isinstance(cls, (ast.ClassDef, ast.FunctionDef, ast.AsyncFunctionDef, ast.Module)):
        cls = pm.get(cls)
    if isinstance(cls, ast.ClassDef) and params and not any(
            isinstance(d, ast.Name) and d.id == "staticmethod" for d in fn.decorator_list):
        for b in cls.bases:
            is_d, v = dict_ann(b)
            if is_d:
                dicts.add(params[0].arg)
                if v is not None:
                    dom.setdefault(params[0].arg, value_domain(v, module))
    # `d: dict = p` -- a C-typed dict local that IS the parameter (the modules' idiom for direct dict access)
    names = {p.arg for p in params}
    for n in ast.walk(fn):
        if isinstance(n, ast.AnnAssign) and isinstance(n.value, ast.Name) and n.value.id in names and dict_ann(n.annotation)[0]:
            dicts.add(n.value.id)
    return dicts, dom


class LookupVariant(Variant):
    """`Variant` that understands keyed lookups in dict-like parameters (see the module docstring)."""

    def __init__(self, ctx, fn, pol, label, dicts=(), domains=None):
        self.dicts = set(dicts)
        self.domains: Dict[str, Domain] = dict(domains or {})
        super().__init__(ctx, fn, pol, label)

    # ------------------------------------------------------------------ structure: unreachable statements do nothing
    def _dead(self) -> set:
        """ids of statements no path from the entry reaches (code after `if cython.compiled: ... return` once the arm is
        selected): the CFG builds no node for them (every reachable statement except `try` has one)"""
        d = getattr(self, "_dead_ids", None)
        if d is None:
            g = self.cfg()
            d = set()

            def visit(body):
                for st in body:
                    if isinstance(st, ast.Try):
                        subs = [x for blk in (st.body, st.orelse, st.finalbody) for x in blk] + [x for h in st.handlers for x in h.body]
                        visit(subs)
                        if st.body and all(id(x) in d for x in st.body):
                            d.add(id(st))
                        continue
                    if not g.nodes_for(st):
                        d.add(id(st))
                        continue
                    if isinstance(st, ScopeNode):
                        continue
                    for fld in ("body", "orelse", "finalbody"):
                        sub = getattr(st, fld, None)
                        if isinstance(sub, list) and sub and isinstance(sub[0], ast.stmt):
                            visit(sub)
            visit(self.fn.body)
            self._dead_ids = d
        return d

    def nodes(self):
        dead = self._dead()
        stack = [st for st in reversed(self.fn.body) if id(st) not in dead]
        while stack:
            n = stack.pop()
            yield n
            if isinstance(n, ScopeNode):
                continue
            stack.extend(c for c in ast.iter_child_nodes(n) if id(c) not in dead)

    # ------------------------------------------------------------------ recognition
    def _dict_like(self, e) -> Optional[str]:
        """the dict parameter `e` is (through aliases), else None"""
        if not self.dicts:
            return None
        v = Variant.av(self, e)
        if len(v.alias) == 1 and v.alias <= self.dicts:
            return next(iter(v.alias))
        return None

    def _lookup_call(self, c) -> Optional[Tuple[str, ast.AST, ast.AST]]:
        """(dict parameter, D expression, K expression) for `D.get(K)` / `D.get(K, None)`"""
        if not (isinstance(c, ast.Call) and isinstance(c.func, ast.Attribute) and c.func.attr == "get" and not c.keywords):
            return None
        if len(c.args) == 2 and not (isinstance(c.args[1], ast.Constant) and c.args[1].value is None):
            return None
        if len(c.args) not in (1, 2) or isinstance(c.args[0], ast.Starred):
            return None
        p = self._dict_like(c.func.value)
        if p is None:
            return None
        return p, c.func.value, c.args[0]

    def _harmless_between(self, a_stmt, b_stmt) -> bool:
        """no statement between the lookup and the test of its result can change the dictionary: they are siblings of
        one block (the later one possibly an enclosing statement of the test) with only known-pure statements between"""
        blk = _block_of(self.pm, a_stmt)
        if blk is None:
            return False
        cur = b_stmt
        while cur is not None and not any(cur is x for x in blk):
            cur = self.pm.get(cur)
        if cur is None:
            return False
        i, j = [k for k, x in enumerate(blk) if x is a_stmt][0], [k for k, x in enumerate(blk) if x is cur][0]
        if j < i:
            return False
        for st in blk[i + 1:j]:
            for n in ast.walk(st):
                if isinstance(n, ast.Call) and not self.known_call(n):
                    return False
                if isinstance(n, (ast.Subscript, ast.Attribute)) and isinstance(n.ctx, (ast.Store, ast.Del)):
                    return False
        return True

    def _lookup_value(self, e, at) -> Optional[Tuple[str, ast.AST, ast.AST]]:
        """`e` is the result of a lookup: the call itself, or a local whose only reaching binding is the call and which
        is tested before the dictionary can change"""
        if isinstance(e, ast.Call):
            return self._lookup_call(e)
        if isinstance(e, ast.NamedExpr):
            return self._lookup_value(e.value, at)
        if isinstance(e, ast.Name) and e.id in self.bind and e.id not in self.params:
            binds, entry = self.defs_at(e)
            if entry or len(binds) != 1 or binds[0][0] != "val":
                return None
            lk = self._lookup_call(binds[0][1])
            if lk is None:
                return None
            st = enclosing_stmt(self.pm, at)
            if st is None or not self._harmless_between(binds[0][2], st):
                return None
            return lk
        return None

    # ------------------------------------------------------------------ Variant hooks
    def known_call(self, c: ast.Call) -> bool:
        if self._lookup_call(c) is not None:
            return True
        return super().known_call(c)

    def _call(self, c, stack):
        lk = self._lookup_call(c)
        if lk is not None:
            return self._elem(self.av(lk[1], stack))
        return super()._call(c, stack)

    def canon(self, test, pol):
        out = []
        for node, p in _split(test, pol):
            r = self._canon_lookup(node, p)
            if r is None:
                out.extend(super().canon(node, p))
            else:
                out.append(r)
        return out

    def _canon_lookup(self, node, p):
        mode, val = None, None
        if isinstance(node, ast.Compare) and len(node.ops) == 1 and isinstance(node.comparators[0], ast.Constant) \
                and node.comparators[0].value is None and isinstance(node.ops[0], (ast.Is, ast.IsNot, ast.Eq, ast.NotEq)):
            mode, val = "not-none", node.left
            if isinstance(node.ops[0], (ast.Is, ast.Eq)):
                p = not p
        elif isinstance(node, (ast.Name, ast.Call, ast.NamedExpr)):
            mode, val = "truthy", node
        if mode is None:
            return None
        lk = self._lookup_value(val, node)
        if lk is None:
            return None
        param, D, K = lk
        dom = self.domains.get(param, UNKNOWN)
        roots = self.av(D).roots | self.av(K).roots
        if (mode == "not-none" and dom.none_free) or (mode == "truthy" and dom.falsy_free):
            cmp = ast.Compare(left=K, ops=[ast.In()], comparators=[D])      # original nodes: their reads are flow-sensitive
            txt, pp = test_atoms(self._subst(cmp), p)[0]
            return (txt, pp, roots)
        d_txt, k_txt = self.canon_text(D), self.canon_text(K)
        if not dom.known:
            return (f"?lookup {d_txt}.get({k_txt}) {'is not None' if mode == 'not-none' else 'is true'} (value type of the dictionary not declared)", p, roots)
        if mode == "not-none":
            return (f"{d_txt}[{k_txt}] is not None [declared values {'/'.join(dom.members)}: may be None]", p, roots)
        return (f"truth of {d_txt}[{k_txt}] [declared values {'/'.join(dom.members)}: {'/'.join(dom.falsy_members()) or 'some'} may be falsy]", p, roots)
