"""Helpers of the robustify round for C01 / C07 / C22 (rob-C1): make rules independent of the *shape* of the
anchored code (local aliases, extracted helpers, early returns, nested-vs-compound guards).

* `inline_locals`      -- copy propagation of locals bound exactly once (and of helper parameters)
* `bind_call_args`     -- map the arguments of a call onto parameter names
* `returned_values`    -- the expressions a method can return, locals inlined, `return self.helper(...)` followed
* `MiniInterp`         -- a concrete interpreter for small pure predicate functions (is_precedent & co)
* `feasible_reachable` -- CFG reachability where branch outcomes refuted by a three-valued oracle are pruned
"""

from __future__ import annotations

import ast
import copy
from typing import Callable, Dict, List, Optional, Sequence

from ..astutil import name_stores, unparse, walk_local
from ..errors import AnalysisError


# ---------------------------------------------------------------------------------------------- locals
def single_bindings(fnode) -> Dict[str, ast.expr]:
    """{local name: value} for names bound exactly once in `fnode` (nested scopes excluded) by a plain
    `name = value` / `name: T = value` statement.  Names also bound by a loop, `with ... as`, an augmented
    assignment, tuple unpacking, `except ... as`, a walrus, or that are parameters, are left out."""
    cached = getattr(fnode, "_rob_single_bindings", None)
    if cached is not None:
        return cached
    counts: Dict[str, int] = {}
    vals: Dict[str, ast.expr] = {}
    for n, v, st in name_stores(fnode):
        counts[n] = counts.get(n, 0) + 1
        if v is not None and isinstance(st, (ast.Assign, ast.AnnAssign)):
            vals[n] = v
        else:
            counts[n] += 1  # an opaque binding: never inline
    for n in walk_local(fnode):
        if isinstance(n, ast.NamedExpr) and isinstance(n.target, ast.Name):
            counts[n.target.id] = counts.get(n.target.id, 0) + 2
        elif isinstance(n, ast.ExceptHandler) and n.name:
            counts[n.name] = counts.get(n.name, 0) + 2
        elif isinstance(n, (ast.Global, ast.Nonlocal)):
            for nm in n.names:
                counts[nm] = counts.get(nm, 0) + 2
    a = fnode.args
    params = {x.arg for x in a.posonlyargs + a.args + a.kwonlyargs}
    if a.vararg:
        params.add(a.vararg.arg)
    if a.kwarg:
        params.add(a.kwarg.arg)
    out = {n: v for n, v in vals.items() if counts.get(n) == 1 and n not in params}
    try:
        fnode._rob_single_bindings = out
    except Exception:
        pass
    return out


class _Inline(ast.NodeTransformer):
    def __init__(self, binds, env, max_depth):
        self.binds, self.env, self.max_depth, self.depth = binds, env or {}, max_depth, 0

    def visit_Name(self, node):
        if not isinstance(node.ctx, ast.Load):
            return node
        if node.id in self.env:
            return copy.deepcopy(self.env[node.id])
        if node.id in self.binds and self.depth < self.max_depth:
            self.depth += 1
            try:
                return self.visit(copy.deepcopy(self.binds[node.id]))
            finally:
                self.depth -= 1
        return node

    # do not descend into nested scopes (their names are their own)
    def visit_Lambda(self, node):
        return node

    def visit_ListComp(self, node):
        return node

    visit_SetComp = visit_DictComp = visit_GeneratorExp = visit_ListComp


def inline_locals(fnode, expr: ast.expr, env: Optional[Dict[str, ast.expr]] = None, max_depth: int = 4) -> ast.expr:
    """A copy of `expr` in which every local of `fnode` that is bound exactly once is replaced by its defining
    expression (recursively), and every name in `env` (helper parameter -> caller's argument expression, already
    inlined) by that expression.  `negated_op = self.negate; f(negated_op)` reads as `f(self.negate)`."""
    return _Inline(single_bindings(fnode), env, max_depth).visit(copy.deepcopy(expr))


def bind_call_args(call: ast.Call, params: Sequence[str]) -> Optional[Dict[str, ast.expr]]:
    """{parameter name: argument expression} of `call` against the positional parameter list `params` (without
    self).  None when the call uses * / ** unpacking (not understood)."""
    if any(isinstance(a, ast.Starred) for a in call.args) or any(k.arg is None for k in call.keywords):
        return None
    out = {}
    for i, a in enumerate(call.args):
        if i < len(params):
            out[params[i]] = a
    for k in call.keywords:
        out[k.arg] = k.value
    return out


def returned_values(ix, cls, fnode, env=None, depth: int = 2, _seen=None) -> List[ast.expr]:
    """Expressions `fnode` can return, with locals inlined; a `return self.helper(args)` whose helper is a
    method of `cls` (static MRO) is replaced by the helper's returned expressions with its parameters bound to
    the (inlined) arguments -- up to `depth` levels.  `return` without a value is skipped."""
    _seen = _seen or set()
    out = []
    for r in (n for n in walk_local(fnode) if isinstance(n, ast.Return)):
        if r.value is None:
            continue
        v = inline_locals(fnode, r.value, env)
        followed = False
        if (depth > 0 and cls is not None and isinstance(v, ast.Call) and isinstance(v.func, ast.Attribute)
                and isinstance(v.func.value, ast.Name) and v.func.value.id == "self"):
            tgt = ix.resolve_method(cls, v.func.attr)
            if tgt is not None and tgt.node is not fnode and tgt.key not in _seen and not tgt.type_only:
                params = [p for p in tgt.params if p != "self"]
                b = bind_call_args(v, params)
                if b is not None:
                    sub = returned_values(ix, cls, tgt.node, b, depth - 1, _seen | {tgt.key})
                    if sub:
                        out.extend(sub)
                        followed = True
        if not followed:
            out.append(v)
    return out


# ---------------------------------------------------------------------------------------------- interpreter
class Unsupported(Exception):
    pass


class FuncRef:
    def __init__(self, info):
        self.info = info


class ClassRef:
    def __init__(self, info):
        self.info = info


class MiniInterp:
    """Concrete evaluation of a small, pure, loop-free predicate function of a module for given argument values.
    Values: None / bool / int / str, evaluator atoms (`Sym` for operator functions), and evaluated module-level
    tables (dict / set / frozenset / list / tuple of those).  Anything else raises `Unsupported` -- the caller
    turns that into an AnalysisError (exit 2): never a guess."""

    def __init__(self, ctx, module, max_depth: int = 4):
        self.ctx, self.module, self.max_depth = ctx, module, max_depth
        self._globals = {}

    # -- entry
    def call(self, finfo, args: Sequence, depth: int = 0):
        if depth > self.max_depth:
            raise Unsupported(f"call depth exceeded in {finfo.qualname}")
        fn = finfo.node
        a = fn.args
        if a.vararg or a.kwarg or a.kwonlyargs:
            raise Unsupported(f"{finfo.qualname}: signature with */** parameters")
        names = [x.arg for x in a.posonlyargs + a.args]
        if len(args) > len(names):
            raise Unsupported(f"{finfo.qualname}: too many arguments")
        env = dict(zip(names, args))
        defaults = dict(zip(names[len(names) - len(a.defaults):], a.defaults))
        for n in names[len(args):]:
            if n not in defaults:
                raise Unsupported(f"{finfo.qualname}: missing argument {n}")
            env[n] = self.ev(defaults[n], {}, depth)
        self.ctx.functions_analysed.add(finfo.key)
        r = self._block(fn.body, env, depth)
        return r[1] if r is not None else None

    # -- statements
    def _block(self, body, env, depth):
        for st in body:
            r = self._stmt(st, env, depth)
            if r is not None:
                return r
        return None

    def _stmt(self, st, env, depth):
        if isinstance(st, ast.Return):
            return ("return", None if st.value is None else self.ev(st.value, env, depth))
        if isinstance(st, ast.If):
            return self._block(st.body if self.ev(st.test, env, depth) else st.orelse, env, depth)
        if isinstance(st, ast.Assign) and len(st.targets) == 1 and isinstance(st.targets[0], ast.Name):
            env[st.targets[0].id] = self.ev(st.value, env, depth)
            return None
        if isinstance(st, ast.AnnAssign) and isinstance(st.target, ast.Name):
            if st.value is not None:
                env[st.target.id] = self.ev(st.value, env, depth)
            return None
        if isinstance(st, (ast.Pass, ast.Expr, ast.Assert)):
            return None  # docstrings, logging calls, internal assertions: no effect on the result
        raise Unsupported(f"statement `{unparse(st)[:60]}`")

    # -- expressions
    def _global(self, name):
        if name in self._globals:
            return self._globals[name]
        m = self.module
        if name in m.assigns:
            v = self.ctx.ev.module_value(m, name)
        elif name in m.functions:
            v = FuncRef(m.functions[name])
        elif name in m.classes:
            v = ClassRef(m.classes[name])
        elif name in ("True", "False", "None"):
            v = {"True": True, "False": False, "None": None}[name]
        else:
            raise Unsupported(f"global name `{name}`")
        self._globals[name] = v
        return v

    def ev(self, e, env, depth):
        from ..evalx import Sym, Unknown, has_unknown
        if isinstance(e, ast.Constant):
            return e.value
        if isinstance(e, ast.Name):
            if e.id in env:
                return env[e.id]
            v = self._global(e.id)
            if isinstance(v, Unknown) or (not isinstance(v, (FuncRef, ClassRef)) and has_unknown(v)):
                raise Unsupported(f"value of `{e.id}` not understood")
            return v
        if isinstance(e, ast.Attribute):
            base = e.value
            if isinstance(base, ast.Name) and base.id not in env:
                v = self.ctx.ev.eval(e, self.module)
                if isinstance(v, (int, str, bool, Sym)) or v is None:
                    return v
            raise Unsupported(f"attribute `{unparse(e)}`")
        if isinstance(e, ast.UnaryOp):
            v = self.ev(e.operand, env, depth)
            if isinstance(e.op, ast.Not):
                return not v
            if isinstance(e.op, ast.USub) and isinstance(v, int):
                return -v
            raise Unsupported(f"unary `{unparse(e)}`")
        if isinstance(e, ast.BoolOp):
            v = None
            for x in e.values:
                v = self.ev(x, env, depth)
                if isinstance(e.op, ast.And) and not v:
                    return v
                if isinstance(e.op, ast.Or) and v:
                    return v
            return v
        if isinstance(e, ast.IfExp):
            return self.ev(e.body if self.ev(e.test, env, depth) else e.orelse, env, depth)
        if isinstance(e, ast.Compare):
            left = self.ev(e.left, env, depth)
            for op, rn in zip(e.ops, e.comparators):
                right = self.ev(rn, env, depth)
                if not self._cmp(op, left, right, e):
                    return False
                left = right
            return True
        if isinstance(e, ast.Subscript):
            box, k = self.ev(e.value, env, depth), self.ev(e.slice, env, depth)
            try:
                return box[k]
            except Exception:
                raise Unsupported(f"`{unparse(e)}` fails for key {k!r}")
        if isinstance(e, (ast.Tuple, ast.List, ast.Set)):
            vals = [self.ev(x, env, depth) for x in e.elts]
            return tuple(vals) if isinstance(e, ast.Tuple) else (set(vals) if isinstance(e, ast.Set) else vals)
        if isinstance(e, ast.Call):
            return self._call(e, env, depth)
        raise Unsupported(f"expression `{unparse(e)[:60]}`")

    def _cmp(self, op, a, b, e):
        from ..evalx import Sym
        if isinstance(op, (ast.Is, ast.Eq)):
            return a == b
        if isinstance(op, (ast.IsNot, ast.NotEq)):
            return a != b
        if isinstance(op, (ast.In, ast.NotIn)):
            if not isinstance(b, (dict, set, frozenset, list, tuple)):
                raise Unsupported(f"membership in `{unparse(e)}`")
            return (a in b) == isinstance(op, ast.In)
        if isinstance(a, bool) or isinstance(b, bool) or not isinstance(a, int) or not isinstance(b, int) \
                or isinstance(a, Sym) or isinstance(b, Sym):
            raise Unsupported(f"ordering comparison of non-integers in `{unparse(e)}`")
        if isinstance(op, ast.Lt):
            return a < b
        if isinstance(op, ast.LtE):
            return a <= b
        if isinstance(op, ast.Gt):
            return a > b
        if isinstance(op, ast.GtE):
            return a >= b
        raise Unsupported(f"comparison `{unparse(e)}`")

    def _call(self, e, env, depth):
        from ..evalx import Sym
        if any(isinstance(a, ast.Starred) for a in e.args) or e.keywords:
            raise Unsupported(f"call `{unparse(e)[:60]}`")
        f = e.func
        if isinstance(f, ast.Name) and f.id not in env:
            if f.id == "bool" and len(e.args) == 1:
                return bool(self.ev(e.args[0], env, depth))
            if f.id == "getattr" and len(e.args) == 3:
                obj = self.ev(e.args[0], env, depth)
                if isinstance(obj, Sym) or obj is None:
                    # an operator *function* of the module carries no such attribute: the default applies
                    return self.ev(e.args[2], env, depth)
                raise Unsupported(f"`{unparse(e)}`")
            if f.id == "isinstance" and len(e.args) == 2:
                obj = self.ev(e.args[0], env, depth)
                cls = self.ev(e.args[1], env, depth)
                if (isinstance(obj, Sym) or obj is None) and isinstance(cls, ClassRef):
                    return False  # plain operator functions are instances of no class of the module
                raise Unsupported(f"`{unparse(e)}`")
            tgt = self._global(f.id)
            if isinstance(tgt, FuncRef):
                return self.call(tgt.info, [self.ev(a, env, depth) for a in e.args], depth + 1)
            raise Unsupported(f"call of `{f.id}`")
        if isinstance(f, ast.Attribute) and f.attr == "get" and 1 <= len(e.args) <= 2:
            box = self.ev(f.value, env, depth)
            if isinstance(box, dict):
                k = self.ev(e.args[0], env, depth)
                if k in box:
                    return box[k]
                return self.ev(e.args[1], env, depth) if len(e.args) == 2 else None
        raise Unsupported(f"call `{unparse(e)[:60]}`")


# ---------------------------------------------------------------------------------------------- CFG
def feasible_reachable(g, tri: Callable[[ast.expr], Optional[bool]], starts=None, avoid=()):
    """Nodes of CFG `g` reachable from the entry along non-exceptional edges when a branch outcome that the
    three-valued oracle `tri(test) -> True/False/None` refutes is not taken.  Independent of how the decision is
    spelled: compound condition, nested ifs, early return, inverted if/else."""
    memo = {}

    def ok(a, b, lab):
        if lab == "exc":
            return False
        n = g.nodes[a]
        if n.kind == "test" and lab in ("true", "false") and hasattr(n.stmt, "test"):
            if a not in memo:
                memo[a] = tri(n.stmt.test)
            v = memo[a]
            if v is not None and v != (lab == "true"):
                return False
        return True

    return g.reachable([g.entry] if starts is None else starts, avoid=avoid, edge_ok=ok)


def require(cond, msg):
    if not cond:
        raise AnalysisError(msg)
