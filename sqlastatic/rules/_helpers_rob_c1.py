"""Helpers of the robustify round for C01 / C07 / C22 (rob-C1): make rules independent of the *shape* of the
anchored code (local aliases, extracted helpers, early returns, nested-vs-compound guards).

* `inline_locals`      -- copy propagation of locals bound exactly once (and of helper parameters)
* `bind_call_args`     -- map the arguments of a call onto parameter names
* `returned_values`    -- the expressions a method can return, locals inlined, `return self.helper(...)` followed
* `MiniInterp`         -- a concrete interpreter for small pure predicate functions (is_precedent & co)
* `feasible_reachable` -- CFG reachability where branch outcomes refuted by a three-valued oracle are pruned
"""

from __future__ import annotations

import ast
import copy
from typing import Callable, Dict, List, Optional, Sequence

from ..astutil import name_stores, unparse, walk_local
from ..errors import AnalysisError


# ---------------------------------------------------------------------------------------------- locals
def single_bindings(fnode) -> Dict[str, ast.expr]:
    """{local name: value} for names bound exactly once in `fnode` (nested scopes excluded) by a plain
    `name = value` / `name: T = value` statement.  Names also bound by a loop, `with ... as`, an augmented
    assignment, tuple unpacking, `except ... as`, a walrus, or that are parameters, are left out."""
    cached = getattr(fnode, "_rob_single_bindings", None)
    if cached is not None:
        return cached
    counts: Dict[str, int] = {}
    vals: Dict[str, ast.expr] = {}
    for n, v, st in name_stores(fnode):
        counts[n] = counts.get(n, 0) + 1
        if v is not None and isinstance(st, (ast.Assign, ast.AnnAssign)):
            vals[n] = v
        else:
            counts[n] += 1  # an opaque binding: never inline
    for n in walk_local(fnode):
        if isinstance(n, ast.NamedExpr) and isinstance(n.target, ast.Name):
            counts[n.target.id] = counts.get(n.target.id, 0) + 2
        elif isinstance(n, ast.ExceptHandler) and n.name:
            counts[n.name] = counts.get(n.name, 0) + 2
        elif isinstance(n, (ast.Global, ast.Nonlocal)):
            for nm in n.names:
                counts[nm] = counts.get(nm, 0) + 2
    a = fnode.args
    params = {x.arg for x in a.posonlyargs + a.args + a.kwonlyargs}
    if a.vararg:
        params.add(a.vararg.arg)
    if a.kwarg:
        params.add(a.kwarg.arg)
    out = {n: v for n, v in vals.items() if counts.get(n) == 1 and n not in params}
    try:
        fnode._rob_single_bindings = out
    except Exception:
        pass
    return out


class _Inline(ast.NodeTransformer):
    def __init__(self, binds, env, max_depth):
        self.binds, self.env, self.max_depth, self.depth = binds, env or {}, max_depth, 0

    def visit_Name(self, node):
        if not isinstance(node.ctx, ast.Load):
            return node
        if node.id in self.env:
            return copy.deepcopy(self.env[node.id])
        if node.id in self.binds and self.depth < self.max_depth:
            self.depth += 1
            try:
                return self.visit(copy.deepcopy(self.binds[node.id]))
            finally:
                self.depth -= 1
        return node

    # do not descend into nested scopes (their names are their own)
    def visit_Lambda(self, node):
        return node

    def visit_ListComp(self, node):
        return node

    visit_SetComp = visit_DictComp = visit_GeneratorExp = visit_ListComp


def inline_locals(fnode, expr: ast.expr, env: Optional[Dict[str, ast.expr]] = None, max_depth: int = 4) -> ast.expr:
    """A copy of `expr` in which every local of `fnode` that is bound exactly once is replaced by its defining
    expression (recursively), and every name in `env` (helper parameter -> caller's argument expression, already
    inlined) by that expression.  `negated_op = self.negate; f(negated_op)` reads as `f(self.negate)`."""
    return _Inline(single_bindings(fnode), env, max_depth).visit(copy.deepcopy(expr))


def bind_call_args(call: ast.Call, params: Sequence[str]) -> Optional[Dict[str, ast.expr]]:
    """{parameter name: argument expression} of `call` against the positional parameter list `params` (without
    self).  None when the call uses * / ** unpacking (not understood)."""
    if any(isinstance(a, ast.Starred) for a in call.args) or any(k.arg is None for k in call.keywords):
        return None
    out = {}
    for i, a in enumerate(call.args):
        if i < len(params):
            out[params[i]] = a
    for k in call.keywords:
        out[k.arg] = k.value
    return out


def returned_values(ix, cls, fnode, env=None, depth: int = 2, _seen=None) -> List[ast.expr]:
    """Expressions `fnode` can return, with locals inlined; a `return self.helper(args)` whose helper is a
    method of `cls` (static MRO) is replaced by the helper's returned expressions with its parameters bound to
    the (inlined) arguments -- up to `depth` levels.  `return` without a value is skipped."""
    _seen = _seen or set()
    out = []
    for r in (n for n in walk_local(fnode) if isinstance(n, ast.Return)):
        if r.value is None:
            continue
        v = inline_locals(fnode, r.value, env)
        followed = False
        if (depth > 0 and cls is not None and isinstance(v, ast.Call) and isinstance(v.func, ast.Attribute)
                and isinstance(v.func.value, ast.Name) and v.func.value.id == "self"):
            tgt = ix.resolve_method(cls, v.func.attr)
            if tgt is not None and tgt.node is not fnode and tgt.key not in _seen and not tgt.type_only:
                params = [p for p in tgt.params if p != "self"]
                b = bind_call_args(v, params)
                if b is not None:
                    sub = returned_values(ix, cls, tgt.node, b, depth - 1, _seen | {tgt.key})
                    if sub:
                        out.extend(sub)
                        followed = True
        if not followed:
            out.append(v)
    return out


# ---------------------------------------------------------------------------------------------- interpreter
class Unsupported(Exception):
    pass


class FuncRef:
    def __init__(self, info):
        self.info = info


class ClassRef:
    def __init__(self, info):
        self.info = info


class MiniInterp:
    """Concrete evaluation of a small, pure, loop-free predicate function of a module for given argument values.
    Values: None / bool / int / str, evaluator atoms (`Sym` for operator functions), and evaluated module-level
    tables (dict / set / frozenset / list / tuple of those).  Anything else raises `Unsupported` -- the caller
    turns that into an AnalysisError (exit 2): never a guess."""

    def __init__(self, ctx, module, max_depth: int = 4):
        self.ctx, self.module, self.max_depth = ctx, module, max_depth
        self._globals = {}

    # -- entry
    def call(self, finfo, args: Sequence, depth: int = 0):
        if depth > self.max_depth:
            raise Unsupported(f"call depth exceeded in {finfo.qualname}")
        fn = finfo.node
        a = fn.args
        if a.vararg or a.kwarg or a.kwonlyargs:
            raise Unsupported(f"{finfo.qualname}: signature with */** parameters")
        names = [x.arg for x in a.posonlyargs + a.args]
        if len(args) > len(names):
            raise Unsupported(f"{finfo.qualname}: too many arguments")
        env = dict(zip(names, args))
        defaults = dict(zip(names[len(names) - len(a.defaults):], a.defaults))
        for n in names[len(args):]:
            if n not in defaults:
                raise Unsupported(f"{finfo.qualname}: missing argument {n}")
            env[n] = self.ev(defaults[n], {}, depth)
        self.ctx.functions_analysed.add(finfo.key)
        r = self._block(fn.body, env, depth)
        return r[1] if r is not None else None

    # -- statements
    def _block(self, body, env, depth):
        for st in body:
            r = self._stmt(st, env, depth)
            if r is not None:
                return r
        return None

    def _stmt(self, st, env, depth):
        if isinstance(st, ast.Return):
            return ("return", None if st.value is None else self.ev(st.value, env, depth))
        if isinstance(st, ast.If):
            return self._block(st.body if self.ev(st.test, env, depth) else st.orelse, env, depth)
        if isinstance(st, ast.Assign) and len(st.targets) == 1 and isinstance(st.targets[0], ast.Name):
            env[st.targets[0].id] = self.ev(st.value, env, depth)
            return None
        if isinstance(st, ast.AnnAssign) and isinstance(st.target, ast.Name):
            if st.value is not None:
                env[st.target.id] = self.ev(st.value, env, depth)
            return None
        if isinstance(st, (ast.Pass, ast.Expr, ast.Assert)):
            return None  # docstrings, logging calls, internal assertions: no effect on the result
        raise Unsupported(f"statement `{unparse(st)[:60]}`")

    # -- expressions
    def _global(self, name):
        if name in self._globals:
            return self._globals[name]
        m = self.module
        if name in m.assigns:
            v = self.ctx.ev.module_value(m, name)
        elif name in m.functions:
            v = FuncRef(m.functions[name])
        elif name in m.classes:
            v = ClassRef(m.classes[name])
        elif name in ("True", "False", "None"):
            v = {"True": True, "False": False, "None": None}[name]
        else:
            raise Unsupported(f"global name `{name}`")
        self._globals[name] = v
        return v

    def ev(self, e, env, depth):
        from ..evalx import Sym, Unknown, has_unknown
        if isinstance(e, ast.Constant):
            return e.value
        if isinstance(e, ast.Name):
            if e.id in env:
                return env[e.id]
            v = self._global(e.id)
            if isinstance(v, Unknown) or (not isinstance(v, (FuncRef, ClassRef)) and has_unknown(v)):
                raise Unsupported(f"value of `{e.id}` not understood")
            return v
        if isinstance(e, ast.Attribute):
            base = e.value
            if isinstance(base, ast.Name) and base.id not in env:
                v = self.ctx.ev.eval(e, self.module)
                if isinstance(v, (int, str, bool, Sym)) or v is None:
                    return v
            raise Unsupported(f"attribute `{unparse(e)}`")
        if isinstance(e, ast.UnaryOp):
            v = self.ev(e.operand, env, depth)
            if isinstance(e.op, ast.Not):
                return not v
            if isinstance(e.op, ast.USub) and isinstance(v, int):
                return -v
            raise Unsupported(f"unary `{unparse(e)}`")
        if isinstance(e, ast.BoolOp):
            v = None
            for x in e.values:
                v = self.ev(x, env, depth)
                if isinstance(e.op, ast.And) and not v:
                    return v
                if isinstance(e.op, ast.Or) and v:
                    return v
            return v
        if isinstance(e, ast.IfExp):
            return self.ev(e.body if self.ev(e.test, env, depth) else e.orelse, env, depth)
        if isinstance(e, ast.Compare):
            left = self.ev(e.left, env, depth)
            for op, rn in zip(e.ops, e.comparators):
                right = self.ev(rn, env, depth)
                if not self._cmp(op, left, right, e):
                    return False
                left = right
            return True
        if isinstance(e, ast.Subscript):
            box, k = self.ev(e.value, env, depth), self.ev(e.slice, env, depth)
            try:
                return box[k]
            except Exception:
                raise Unsupported(f"`{unparse(e)}` fails for key {k!r}")
        if isinstance(e, (ast.Tuple, ast.List, ast.Set)):
            vals = [self.ev(x, env, depth) for x in e.elts]
            return tuple(vals) if isinstance(e, ast.Tuple) else (set(vals) if isinstance(e, ast.Set) else vals)
        if isinstance(e, ast.Call):
            return self._call(e, env, depth)
        raise Unsupported(f"expression `{unparse(e)[:60]}`")

    def _cmp(self, op, a, b, e):
        from ..evalx import Sym
        if isinstance(op, (ast.Is, ast.Eq)):
            return a == b
        if isinstance(op, (ast.IsNot, ast.NotEq)):
            return a != b
        if isinstance(op, (ast.In, ast.NotIn)):
            if not isinstance(b, (dict, set, frozenset, list, tuple)):
                raise Unsupported(f"membership in `{unparse(e)}`")
            return (a in b) == isinstance(op, ast.In)
        if isinstance(a, bool) or isinstance(b, bool) or not isinstance(a, int) or not isinstance(b, int) \
                or isinstance(a, Sym) or isinstance(b, Sym):
            raise Unsupported(f"ordering comparison of non-integers in `{unparse(e)}`")
        if isinstance(op, ast.Lt):
            return a < b
        if isinstance(op, ast.LtE):
            return a <= b
        if isinstance(op, ast.Gt):
            return a > b
        if isinstance(op, ast.GtE):
            return a >= b
        raise Unsupported(f"comparison `{unparse(e)}`")

    def _call(self, e, env, depth):
        from ..evalx import Sym
        if any(isinstance(a, ast.Starred) for a in e.args) or e.keywords:
            raise Unsupported(f"call `{unparse(e)[:60]}`")
        f = e.func
        if isinstance(f, ast.Name) and f.id not in env:
            if f.id == "bool" and len(e.args) == 1:
                return bool(self.ev(e.args[0], env, depth))
            if f.id == "getattr" and len(e.args) == 3:
                obj = self.ev(e.args[0], env, depth)
                if isinstance(obj, Sym) or obj is None:
                    # an operator *function* of the module carries no such attribute: the default applies
                    return self.ev(e.args[2], env, depth)
                raise Unsupported(f"`{unparse(e)}`")
            if f.id == "isinstance" and len(e.args) == 2:
                obj = self.ev(e.args[0], env, depth)
                cls = self.ev(e.args[1], env, depth)
                if (isinstance(obj, Sym) or obj is None) and isinstance(cls, ClassRef):
                    return False  # plain operator functions are instances of no class of the module
                raise Unsupported(f"`{unparse(e)}`")
            tgt = self._global(f.id)
            if isinstance(tgt, FuncRef):
                return self.call(tgt.info, [self.ev(a, env, depth) for a in e.args], depth + 1)
            raise Unsupported(f"call of `{f.id}`")
        if isinstance(f, ast.Attribute) and f.attr == "get" and 1 <= len(e.args) <= 2:
            box = self.ev(f.value, env, depth)
            if isinstance(box, dict):
                k = self.ev(e.args[0], env, depth)
                if k in box:
                    return box[k]
                return self.ev(e.args[1], env, depth) if len(e.args) == 2 else None
        raise Unsupported(f"call `{unparse(e)[:60]}`")


# ---------------------------------------------------------------------------------------------- CFG
def feasible_reachable(g, tri: Callable[[ast.expr], Optional[bool]], starts=None, avoid=()):
    """Nodes of CFG `g` reachable from the entry along non-exceptional edges when a branch outcome that the
    three-valued oracle `tri(test) -> True/False/None` refutes is not taken.  Independent of how the decision is
    spelled: compound condition, nested ifs, early return, inverted if/else."""
    memo = {}

    def ok(a, b, lab):
        if lab == "exc":
            return False
        n = g.nodes[a]
        if n.kind == "test" and lab in ("true", "false") and hasattr(n.stmt, "test"):
            if a not in memo:
                memo[a] = tri(n.stmt.test)
            v = memo[a]
            if v is not None and v != (lab == "true"):
                return False
        return True

    return g.reachable([g.entry] if starts is None else starts, avoid=avoid, edge_ok=ok)


def require(cond, msg):
    if not cond:
        raise AnalysisError(msg)


# ---------------------------------------------------------------------------------------------- PyLite
class Opaque:
    """A value the interpreter knows only by name: `self`, a parameter, an attribute chain of one, the result of a
    call on one.  `label` is the canonical source-like text (`parameter.type.types`,
    `self.visit_empty_set_expr([t0, t1])`); for call results `call` = (callee label, [argument values], {kw})."""

    __slots__ = ("label", "call")

    def __init__(self, label, call=None):
        self.label, self.call = label, call

    def __repr__(self):
        return self.label


class SStr:
    """A string with opaque fragments: parts are str | Opaque."""

    __slots__ = ("parts",)

    def __init__(self, parts):
        out = []
        for p in parts:
            if isinstance(p, SStr):
                out.extend(p.parts)
            elif isinstance(p, str) and out and isinstance(out[-1], str):
                out[-1] += p
            elif p != "":
                out.append(p)
        self.parts = out

    def text(self, hole="\x00?"):
        return "".join(p if isinstance(p, str) else hole for p in self.parts)

    def __repr__(self):
        return "".join(p if isinstance(p, str) else "{" + p.label + "}" for p in self.parts)

    def __eq__(self, o):
        return isinstance(o, SStr) and repr(self) == repr(o)

    def __hash__(self):
        return hash(repr(self))


def label_of(v) -> str:
    """Canonical text of an interpreter value (matches `ast.unparse` of the expression that denotes it)."""
    if isinstance(v, Opaque):
        return v.label
    if isinstance(v, list):
        return "[" + ", ".join(label_of(x) for x in v) + "]"
    if isinstance(v, tuple):
        return "(" + ", ".join(label_of(x) for x in v) + ("," if len(v) == 1 else "") + ")"
    if isinstance(v, dict):
        return "{" + ", ".join(f"{label_of(k)}: {label_of(x)}" for k, x in v.items()) + "}"
    if isinstance(v, SStr):
        return repr(repr(v))
    if hasattr(v, "short") and hasattr(v, "name"):
        return v.name
    return repr(v)


def _mkstr(parts):
    s = SStr(parts)
    if all(isinstance(p, str) for p in s.parts):
        return "".join(s.parts)
    return s


class _Signal(Exception):
    def __init__(self, kind):
        self.kind = kind


import re as _re

_FMT = _re.compile(r"%(?:\((\w+)\))?([srd%])")


class PyLite(MiniInterp):
    """MiniInterp extended to straight-line / loop code that builds strings and lists from opaque inputs:
    for loops over concrete sequences, comprehensions, list/dict methods, %-formatting, f-strings, str.join,
    `+`, conditional expressions, calls on opaque receivers (recorded, not executed).  The truth of an opaque
    value is asked from `truth(label) -> True/False/None`; an undecided `if` raises Unsupported (no guessing, no
    forking), an undecided conditional *expression* yields the common value of its arms or an opaque one.
    A `raise` ends the run with ('raise', <exception name>)."""

    def __init__(self, ctx, module, truth=None, max_depth: int = 4, cls=None, no_follow=()):
        super().__init__(ctx, module, max_depth)
        self.truth = truth or (lambda label: None)
        # `self.<method>(...)` is interpreted when `cls` (static MRO) defines it in the same module and it is not
        # in `no_follow`; when the callee cannot be interpreted the call stays an opaque, recorded call
        self.cls, self.no_follow = cls, set(no_follow)

    # -- entry: returns ('return', value) | ('raise', name)
    def run(self, finfo, args: Sequence, depth: int = 0):
        fn = finfo.node
        a = fn.args
        names = [x.arg for x in a.posonlyargs + a.args]
        if len(args) > len(names):
            raise Unsupported(f"{finfo.qualname}: too many arguments")
        env = dict(zip(names, args))
        defaults = dict(zip(names[len(names) - len(a.defaults):], a.defaults))
        for n in names[len(args):]:
            if n not in defaults:
                raise Unsupported(f"{finfo.qualname}: missing argument {n}")
            env[n] = self.ev(defaults[n], {}, depth)
        for x, d in zip(a.kwonlyargs, a.kw_defaults):
            if d is None:
                raise Unsupported(f"{finfo.qualname}: required keyword-only argument")
            env[x.arg] = self.ev(d, {}, depth)
        if a.vararg:
            env[a.vararg.arg] = ()
        if a.kwarg:
            env[a.kwarg.arg] = Opaque(a.kwarg.arg)
        self.ctx.functions_analysed.add(finfo.key)
        r = self._block(fn.body, env, depth)
        return r if r is not None else ("return", None)

    def call(self, finfo, args, depth: int = 0):
        r = self.run(finfo, args, depth)
        if r[0] != "return":
            raise Unsupported(f"{finfo.qualname} raises {r[1]}")
        return r[1]

    # -- truthiness
    def _truth(self, v, what=""):
        if isinstance(v, Opaque):
            t = self.truth(v.label)
            if t is None:
                raise Unsupported(f"truth of `{v.label}` is not determined{what}")
            return t
        if isinstance(v, SStr):
            return True
        return bool(v)

    # -- statements
    def _stmt(self, st, env, depth):
        if isinstance(st, ast.If):
            return self._block(st.body if self._truth(self.ev(st.test, env, depth), f" (`if {unparse(st.test)[:50]}`)") else st.orelse, env, depth)
        if isinstance(st, ast.Return):
            return ("return", None if st.value is None else self.ev(st.value, env, depth))
        if isinstance(st, ast.Raise):
            e = st.exc.func if isinstance(st.exc, ast.Call) else st.exc
            return ("raise", unparse(e) if e is not None else "")
        if isinstance(st, ast.Assign):
            v = self.ev(st.value, env, depth)
            for t in st.targets:
                self._store(t, v, env, depth)
            return None
        if isinstance(st, ast.AnnAssign):
            if st.value is not None:
                self._store(st.target, self.ev(st.value, env, depth), env, depth)
            return None
        if isinstance(st, ast.AugAssign) and isinstance(st.target, ast.Name):
            cur = self.ev(ast.Name(id=st.target.id, ctx=ast.Load()), env, depth)
            env[st.target.id] = self._binop(st.op, cur, self.ev(st.value, env, depth), st)
            return None
        if isinstance(st, ast.Expr):
            if isinstance(st.value, ast.Call):
                self.ev(st.value, env, depth)  # list.append / dict.update on locals; opaque calls are recorded only
            return None
        if isinstance(st, (ast.Pass, ast.Assert)):
            return None
        if isinstance(st, ast.For) and not st.orelse:
            seq = self.ev(st.iter, env, depth)
            if not isinstance(seq, (list, tuple)):
                raise Unsupported(f"loop over `{unparse(st.iter)[:50]}`")
            for item in seq:
                self._store(st.target, item, env, depth)
                try:
                    r = self._block(st.body, env, depth)
                except _Signal as s:
                    if s.kind == "break":
                        break
                    continue
                if r is not None:
                    return r
            return None
        if isinstance(st, ast.Break):
            raise _Signal("break")
        if isinstance(st, ast.Continue):
            raise _Signal("continue")
        if isinstance(st, ast.Try):
            # exceptions of opaque calls are not modelled: the normal path
            for part in (st.body, st.orelse, st.finalbody):
                r = self._block(part, env, depth)
                if r is not None:
                    return r
            return None
        raise Unsupported(f"statement `{unparse(st)[:60]}`")

    def _store(self, t, v, env, depth):
        if isinstance(t, ast.Name):
            env[t.id] = v
        elif isinstance(t, (ast.Tuple, ast.List)):
            if not isinstance(v, (list, tuple)) or len(v) != len(t.elts) or any(isinstance(e, ast.Starred) for e in t.elts):
                raise Unsupported(f"unpacking into `{unparse(t)}`")
            for te, ve in zip(t.elts, v):
                self._store(te, ve, env, depth)
        elif isinstance(t, ast.Subscript):
            box = self.ev(t.value, env, depth)
            if isinstance(box, (dict, list)):
                box[self.ev(t.slice, env, depth)] = v
            elif not isinstance(box, Opaque):
                raise Unsupported(f"store to `{unparse(t)}`")
        elif isinstance(t, ast.Attribute):
            if not isinstance(self.ev(t.value, env, depth), Opaque):
                raise Unsupported(f"store to `{unparse(t)}`")
        else:
            raise Unsupported(f"store to `{unparse(t)}`")

    # -- expressions
    def ev(self, e, env, depth):
        if isinstance(e, ast.Name) and e.id not in env:
            try:
                return super().ev(e, env, depth)
            except Unsupported:
                return Opaque(e.id)  # an imported name / a class of another module
        if isinstance(e, ast.Attribute):
            base = self.ev(e.value, env, depth)
            if isinstance(base, Opaque):
                if isinstance(e.value, ast.Name) and e.value.id not in env:
                    try:
                        return super().ev(e, env, depth)  # `operators.in_op`, `_OpLimit._smallest`
                    except Unsupported:
                        pass
                return Opaque(f"{base.label}.{e.attr}")
            raise Unsupported(f"attribute `{unparse(e)}`")
        if isinstance(e, ast.UnaryOp) and isinstance(e.op, ast.Not):
            return not self._truth(self.ev(e.operand, env, depth), f" (`{unparse(e)[:50]}`)")
        if isinstance(e, ast.BoolOp):
            v = None
            for i, x in enumerate(e.values):
                v = self.ev(x, env, depth)
                if i == len(e.values) - 1:
                    return v
                t = self._truth(v, f" (`{unparse(e)[:50]}`)")
                if isinstance(e.op, ast.And) and not t:
                    return v
                if isinstance(e.op, ast.Or) and t:
                    return v
            return v
        if isinstance(e, ast.IfExp):
            tv = self.ev(e.test, env, depth)
            try:
                t = self._truth(tv)
            except Unsupported:
                a, b = self.ev(e.body, env, depth), self.ev(e.orelse, env, depth)
                if type(a) is type(b) and not isinstance(a, Opaque) and a == b:
                    return a
                return Opaque(f"({label_of(a)} if {label_of(tv)} else {label_of(b)})")
            return self.ev(e.body if t else e.orelse, env, depth)
        if isinstance(e, ast.Compare):
            left = self.ev(e.left, env, depth)
            for op, rn in zip(e.ops, e.comparators):
                right = self.ev(rn, env, depth)
                if isinstance(left, Opaque) or isinstance(right, Opaque):
                    if isinstance(op, (ast.Is, ast.IsNot, ast.Eq, ast.NotEq)) and isinstance(left, Opaque) and isinstance(right, Opaque) \
                            and left.label == right.label:
                        ok = isinstance(op, (ast.Is, ast.Eq))
                    else:
                        t = self.truth(f"{label_of(left)} {_CMP_TXT.get(type(op), '?')} {label_of(right)}")
                        if t is None:
                            raise Unsupported(f"comparison `{unparse(e)[:60]}` of an opaque value")
                        ok = t
                else:
                    ok = self._cmp(op, left, right, e)
                if not ok:
                    return False
                left = right
            return True
        if isinstance(e, ast.BinOp):
            return self._binop(e.op, self.ev(e.left, env, depth), self.ev(e.right, env, depth), e)
        if isinstance(e, ast.JoinedStr):
            parts = []
            for v in e.values:
                if isinstance(v, ast.Constant):
                    parts.append(v.value)
                else:
                    if v.format_spec is not None or v.conversion not in (-1, 115):
                        raise Unsupported(f"f-string conversion in `{unparse(e)[:50]}`")
                    parts.append(self._as_part(self.ev(v.value, env, depth)))
            return _mkstr(parts)
        if isinstance(e, ast.Dict):
            if any(k is None for k in e.keys):
                raise Unsupported("dict unpacking")
            return {self.ev(k, env, depth): self.ev(v, env, depth) for k, v in zip(e.keys, e.values)}
        if isinstance(e, (ast.ListComp, ast.GeneratorExp, ast.SetComp)):
            out = []
            self._comp(e.generators, 0, dict(env), depth, lambda env2: out.append(self.ev(e.elt, env2, depth)))
            return out
        if isinstance(e, ast.DictComp):
            out = {}
            self._comp(e.generators, 0, dict(env), depth,
                       lambda env2: out.__setitem__(self.ev(e.key, env2, depth), self.ev(e.value, env2, depth)))
            return out
        if isinstance(e, ast.Subscript):
            box = self.ev(e.value, env, depth)
            if isinstance(box, Opaque):
                return Opaque(f"{box.label}[{unparse(e.slice)}]")
            if isinstance(e.slice, ast.Slice):
                lo = self.ev(e.slice.lower, env, depth) if e.slice.lower else None
                hi = self.ev(e.slice.upper, env, depth) if e.slice.upper else None
                if isinstance(box, (list, tuple, str)) and e.slice.step is None and all(x is None or isinstance(x, int) for x in (lo, hi)):
                    return box[lo:hi]
                raise Unsupported(f"slice `{unparse(e)[:50]}`")
            k = self.ev(e.slice, env, depth)
            if isinstance(k, Opaque):
                return Opaque(f"{label_of(box) if not isinstance(e.value, ast.Name) else e.value.id}[{k.label}]")
            try:
                return box[k]
            except Exception:
                raise Unsupported(f"`{unparse(e)[:50]}` fails for key {k!r}")
        if isinstance(e, ast.Lambda):
            return Opaque("<lambda>")
        if isinstance(e, ast.Starred):
            raise Unsupported("starred expression")
        return super().ev(e, env, depth)

    def _comp(self, gens, i, env, depth, emit):
        if i == len(gens):
            emit(env)
            return
        g = gens[i]
        seq = self.ev(g.iter, env, depth)
        if not isinstance(seq, (list, tuple)):
            raise Unsupported(f"comprehension over `{unparse(g.iter)[:50]}`")
        for item in seq:
            env2 = dict(env)
            self._store(g.target, item, env2, depth)
            if all(self._truth(self.ev(c, env2, depth), " (comprehension filter)") for c in g.ifs):
                self._comp(gens, i + 1, env2, depth, emit)

    def _as_part(self, v):
        if isinstance(v, (str, SStr, Opaque)):
            return v
        if isinstance(v, bool) or v is None or isinstance(v, int):
            return str(v)
        raise Unsupported(f"string conversion of {type(v).__name__}")

    def _binop(self, op, a, b, e):
        if isinstance(op, ast.Add):
            if isinstance(a, (str, SStr)) and isinstance(b, (str, SStr, Opaque)) or isinstance(b, (str, SStr)) and isinstance(a, Opaque):
                return _mkstr([a, b])
            if isinstance(a, list) and isinstance(b, list):
                return a + b
            if isinstance(a, tuple) and isinstance(b, tuple):
                return a + b
            if isinstance(a, int) and isinstance(b, int):
                return a + b
        if isinstance(op, ast.Sub) and isinstance(a, int) and isinstance(b, int):
            return a - b
        if isinstance(op, ast.Mult):
            if isinstance(a, (str, list, tuple)) and isinstance(b, int) and not isinstance(b, bool):
                return a * b
            if isinstance(a, int) and isinstance(b, (str, list, tuple, int)) and not isinstance(a, bool):
                return a * b
        if isinstance(op, ast.Mod) and isinstance(a, str):
            return self._format(a, b)
        if isinstance(a, Opaque) or isinstance(b, Opaque):
            return Opaque(f"({label_of(a)} {type(op).__name__} {label_of(b)})")
        raise Unsupported(f"operator in `{unparse(e)[:60]}`")

    def _format(self, fmt, args):
        seq = list(args) if isinstance(args, tuple) else [args]
        named = args if isinstance(args, dict) else None
        parts, pos, i = [], 0, 0
        for m in _FMT.finditer(fmt):
            parts.append(fmt[pos:m.start()])
            pos = m.end()
            if m.group(2) == "%":
                parts.append("%")
                continue
            if m.group(1):
                if named is None or m.group(1) not in named:
                    raise Unsupported(f"format key {m.group(1)}")
                v = named[m.group(1)]
            else:
                if named is not None or i >= len(seq):
                    raise Unsupported("format arguments")
                v = seq[i]
                i += 1
            parts.append(self._as_part(v) if m.group(2) != "r" else Opaque(f"repr({label_of(v)})"))
        parts.append(fmt[pos:])
        if named is None and i != len(seq):
            raise Unsupported("format arguments")
        return _mkstr(parts)

    def _call(self, e, env, depth):
        f = e.func
        # arguments (opaque callees take anything)
        def args():
            out = []
            for a in e.args:
                if isinstance(a, ast.Starred):
                    v = self.ev(a.value, env, depth)
                    if not isinstance(v, (list, tuple)):
                        raise Unsupported("star argument")
                    out.extend(v)
                else:
                    out.append(self.ev(a, env, depth))
            return out

        def kwargs():
            return {k.arg: self.ev(k.value, env, depth) for k in e.keywords if k.arg is not None}

        if isinstance(f, ast.Name) and f.id not in env:
            nm = f.id
            if nm in _BUILTINS and not e.keywords:
                a = args()
                if any(isinstance(x, Opaque) for x in a) and nm != "isinstance":
                    return Opaque(f"{nm}({', '.join(label_of(x) for x in a)})", (nm, a, {}))
                try:
                    if nm == "len":
                        return len(a[0])
                    if nm == "enumerate":
                        return [(i, x) for i, x in enumerate(a[0], *(a[1:2]))]
                    if nm == "zip":
                        return [tuple(t) for t in zip(*a)]
                    if nm == "range":
                        return list(range(*a))
                    if nm in ("list", "sorted"):
                        return list(a[0]) if a else []
                    if nm == "tuple":
                        return tuple(a[0]) if a else ()
                    if nm == "str":
                        return self._as_part(a[0])
                    if nm == "bool":
                        return self._truth(a[0]) if a else False
                    if nm == "reversed":
                        return list(reversed(a[0]))
                except Unsupported:
                    raise
                except Exception as ex:
                    raise Unsupported(f"`{unparse(e)[:50]}`: {ex}")
            if nm == "isinstance" and len(e.args) == 2:
                obj = self.ev(e.args[0], env, depth)
                if isinstance(obj, Opaque):
                    t = self.truth(f"isinstance({obj.label}, {unparse(e.args[1])})")
                    if t is None:
                        raise Unsupported(f"`{unparse(e)[:60]}` on an opaque value")
                    return t
            try:
                tgt = self._global(nm)
            except Unsupported:
                tgt = None
            if isinstance(tgt, FuncRef) and not e.keywords and depth < self.max_depth:
                return self.call(tgt.info, args(), depth + 1)
            a, kw = args(), kwargs()
            return Opaque(f"{nm}({self._arglabels(a, kw, e)})", (nm, a, kw))
        if isinstance(f, ast.Attribute):
            recv = self.ev(f.value, env, depth)
            m = f.attr
            if isinstance(recv, (str, SStr)) and m == "join" and len(e.args) == 1 and not e.keywords:
                items = self.ev(e.args[0], env, depth)
                if not isinstance(items, (list, tuple)):
                    raise Unsupported(f"join over `{unparse(e.args[0])[:50]}`")
                parts = []
                for i, it in enumerate(items):
                    if i:
                        parts.append(recv)
                    parts.append(self._as_part(it))
                return _mkstr(parts)
            if isinstance(recv, str) and m in ("upper", "lower", "strip", "lstrip", "rstrip") and not e.args:
                return getattr(recv, m)()
            if isinstance(recv, list) and m in ("append", "extend", "insert") and not e.keywords:
                a = args()
                try:
                    getattr(recv, m)(*a)
                except Exception as ex:
                    raise Unsupported(f"`{unparse(e)[:50]}`: {ex}")
                return None
            if isinstance(recv, dict) and not e.keywords:
                a = args()
                if any(isinstance(x, Opaque) for x in a[:1]):
                    return Opaque(f"{unparse(f.value)}.{m}({', '.join(label_of(x) for x in a)})")
                if m == "get" and 1 <= len(a) <= 2:
                    return recv.get(a[0], a[1] if len(a) == 2 else None)
                if m == "items" and not a:
                    return [(k, v) for k, v in recv.items()]
                if m == "keys" and not a:
                    return list(recv)
                if m == "values" and not a:
                    return list(recv.values())
                if m == "update" and len(a) == 1 and isinstance(a[0], (dict, list)):
                    recv.update(a[0])
                    return None
            if isinstance(recv, Opaque):
                a, kw = args(), kwargs()
                callee = f"{recv.label}.{m}"
                if recv.label == "self" and self.cls is not None and m not in self.no_follow and depth < self.max_depth \
                        and not any(k.arg is None for k in e.keywords):
                    tgt = self.ctx.index.resolve_method(self.cls, m)
                    if tgt is not None and tgt.module is self.module and not tgt.type_only:
                        names = [x.arg for x in tgt.node.args.posonlyargs + tgt.node.args.args]
                        if all(k in names for k in kw) and len(a) + 1 + len(kw) <= len(names):
                            try:
                                full = [recv] + a
                                rest = names[len(full):]
                                if all(n in kw for n in rest[:len(kw)]):
                                    return self.call(tgt, full + [kw[n] for n in rest[:len(kw)]], depth + 1)
                            except (Unsupported, _Signal, RecursionError):
                                pass
                return Opaque(f"{callee}({self._arglabels(a, kw, e)})", (callee, a, kw))
        return super()._call(e, env, depth)

    @staticmethod
    def _arglabels(a, kw, e):
        out = [label_of(x) for x in a] + [f"{k}={label_of(v)}" for k, v in kw.items()]
        out += [f"**{unparse(k.value)}" for k in e.keywords if k.arg is None]
        return ", ".join(out)


_BUILTINS = {"len", "enumerate", "zip", "range", "list", "tuple", "str", "bool", "sorted", "reversed"}
_CMP_TXT = {ast.Is: "is", ast.IsNot: "is not", ast.Eq: "==", ast.NotEq: "!=", ast.Lt: "<", ast.LtE: "<=", ast.Gt: ">",
            ast.GtE: ">=", ast.In: "in", ast.NotIn: "not in"}
