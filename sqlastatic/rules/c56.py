"""C56 -- Upsert statements insert or update exactly as their conflict clause says (rendering clauses only).

What the backend does with ON CONFLICT / ON DUPLICATE KEY is backend behaviour and is not decided here.  What
is visible in the code is how the three sibling compilers (PostgreSQL, SQLite: visit_on_conflict_do_update /
visit_on_conflict_do_nothing / _on_conflict_target; MySQL: visit_on_duplicate_key_update) turn the clause
object into SQL text.  Each rule below is a necessary condition of the property: the statement that reaches
the backend must contain every SET entry of the clause, assign it to the column's real name with the column's
type, keep the caller's compile flags for every sub-expression, and respect the backend's grammar for the
conflict target.  Of the per-row parameter chain (is_upsert_set -> has_upsert_bound_parameters -> row-at-a-time
executemany) only the first link belongs to the sibling family and is claimed here (R7: every part of the clause
that the backend evaluates per conflicting row is rendered with is_upsert_set=True); the detector in
SQLCompiler.visit_bindparam and the batching decision are C04-R5 / C12-R4, cache-key coverage of the clause
classes is C02-R1; they are not repeated here.
"""

from __future__ import annotations

import ast
import os
from collections import defaultdict
from typing import Dict, List, Optional, Set, Tuple

from ..astutil import (
    attr_stores, call_name, calls_in, const_str, dotted, enclosing_stmt, lexical_guards, name_stores, test_atoms, unparse,
    walk_local,
)
from ..cfg import no_exc
from ..evalx import Evaluator, Sym
from ..oracles import load as load_oracle
from ..report import Registry, chain, sub
from ._helpers_rob_i import nf
from ._helpers_rules_c import call_nodes, loc_of, must_pass, own_calls
from ._helpers_str_c import post_values_clause_classes

R = Registry(
    "C56",
    title="Upsert statements insert or update exactly as their conflict clause says",
    decides=(
        "rendering clauses of the upsert compilers, not the behaviour: (R1) every entry taken from the clause's SET "
        "dictionary is rendered into the list the returned text is built from, and keys matching no table column are "
        "rendered anyway or reported by a warning; (R2) an entry looked up by a table column's key is assigned to that column's NAME, and an untyped "
        "bound value takes that column's type on every path from each of the loop's lookups (by key, by Column object) to the rendering; (R3) every sub-expression of the clause (SET values, DO UPDATE WHERE, "
        "conflict-target elements and predicate) is rendered with the caller's compile keywords forwarded, in every "
        "sibling compiler; (R4) the conflict target obeys the backend grammar recorded in oracles/upsert_grammar.json "
        "(SQLite: target expressions and predicate rendered inline, PostgreSQL: bare column names, both: the candidate "
        "row alias is named `excluded`); (R5) MySQL: the alias behind Insert.inserted is one memoized object, handed to "
        "the clause, which the compiler recognises by identity; (R6) MySQL: the order of a list-of-tuples argument is "
        "recorded and is the prefix of the rendering order; (R7) every rendering of a part of the clause that the backend "
        "evaluates once per conflicting row (SET values, DO UPDATE WHERE) is flagged is_upsert_set=True, whichever way the "
        "keyword dictionary is built."
    ),
    not_decided=(
        "what the backend does with the rendered statement (table state, RETURNING rows, conflict arbitration); whether "
        "PostgreSQL can infer an index from a parameterised predicate; what the compiler does with the is_upsert_set flag "
        "(detector and executemany batching: C04-R5, C12-R4); cache keys "
        "(C02-R1); constructor argument validation (an error is raised either way)."
    ),
)

COMP = "sql/compiler.py"
EXPR_KINDS = {"dp_dml_values", "dp_clauseelement", "dp_multi_list", "dp_clauseelement_list", "dp_clauseelement_tuple",
              "dp_dml_ordered_values", "dp_dml_multi_values"}
SET_KINDS = {"dp_dml_values", "dp_dml_ordered_values"}


def _last(nm: Optional[str]) -> str:
    return (nm or "").rsplit(".", 1)[-1]


def _cn(fn, c: ast.Call) -> Optional[str]:
    """call_name(c) with a bound-method alias resolved: after `quote = self.preparer.quote` (the only binding of that
    local, an attribute chain) the call `quote(x)` is `self.preparer.quote(x)`."""
    nm = call_name(c)
    if isinstance(c.func, ast.Name):
        defs = [v for n_, v, _ in name_stores(fn, into_nested=True) if n_ == c.func.id]
        if len(defs) == 1 and isinstance(defs[0], ast.Attribute):
            d = dotted(defs[0])
            if d and "()" not in d:
                return d
    return nm


# ---------------------------------------------------------------------- family discovery
def _traverse_table(ctx, cls) -> List[Tuple[str, str]]:
    ev = Evaluator(ctx.index, symbolic_classes={"InternalTraversal"})
    v = ev.class_value(cls, "_traverse_internals")
    ctx.require(isinstance(v, (list, tuple)), f"{cls.key}._traverse_internals is not a literal table")
    out = []
    for e in v:
        ctx.require(isinstance(e, (list, tuple)) and len(e) == 2 and isinstance(e[0], str) and isinstance(e[1], Sym),
                    f"{cls.key}._traverse_internals has an entry that is not (name, InternalTraversal.dp_x)")
        out.append((e[0], e[1].short))
    return out


class _Member:
    """One function of the upsert-rendering family of a dialect."""

    def __init__(self, f, clause_param, dialect, attrs, is_visitor):
        self.f = f
        self.param = clause_param
        self.dialect = dialect          # "postgresql" / "sqlite" / "mysql"
        self.attrs = attrs              # {attr: kind} of the clause classes it renders
        self.is_visitor = is_visitor
        self.roots = _Roots(f.node, clause_param)

    @property
    def kwname(self) -> Optional[str]:
        return self.f.node.args.kwarg.arg if self.f.node.args.kwarg else None

    def process_calls(self) -> List[Tuple[ast.Call, Set[str]]]:
        """[(self.process(..) call, clause attributes its first argument derives from as a VALUE)]"""
        out = []
        for c in calls_in(self.f.node, into_nested=True):
            if _cn(self.f.node, c) != "self.process" or not c.args:
                continue
            r = {a for a in self.roots.of(c.args[0]) if not a.startswith("key:")}
            r &= {a for a, k in self.attrs.items() if k in EXPR_KINDS}
            if r:
                out.append((c, r))
        return out


def _family(ctx) -> List[_Member]:
    cached = getattr(ctx, "_c56_family", None)
    if cached is not None:
        return cached
    ix = ctx.index
    base = ix.cls(f"{COMP}::SQLCompiler")
    classes = post_values_clause_classes(ctx)
    by_dialect: Dict[str, List[Tuple[object, str]]] = defaultdict(list)
    for c, vn in classes:
        d = os.path.dirname(c.module.relpath)
        if d.startswith("dialects/"):
            by_dialect[d].append((c, vn))
    ctx.require(len(by_dialect) >= 3, f"expected upsert clause classes in >= 3 dialects, found {sorted(by_dialect)}")
    members: List[_Member] = []
    for d, lst in sorted(by_dialect.items()):
        compilers = [k for k in ix.subclasses(base) if os.path.dirname(k.module.relpath) == d]
        for c, vn in sorted(lst, key=lambda cv: cv[0].key):
            attrs = dict(_traverse_table(ctx, c))
            found = False
            for k in compilers:
                f = k.methods.get("visit_" + vn)
                if f is None:
                    continue
                found = True
                ctx.functions_analysed.add(f.key)
                params = [p for p in f.params if p not in ("self", "cls")]
                ctx.require(params, f"{f.key} has no clause parameter")
                m = _Member(f, params[0], d.split("/")[-1], dict(attrs), True)
                members.append(m)
                # helpers (transitively): self.<h>(<clause>, ...)
                todo = [m]
                while todo:
                    cur = todo.pop()
                    for call in calls_in(cur.f.node):
                        nm = call_name(call) or ""
                        if not nm.startswith("self.") or nm.count(".") != 1 or nm == "self.process":
                            continue
                        pos = [i for i, a in enumerate(call.args) if isinstance(a, ast.Name) and a.id in cur.roots.aliases]
                        if not pos:
                            continue
                        h = ix.resolve_method(k, nm[5:])
                        if h is None or h is cur.f:
                            continue
                        hp = [p for p in h.params if p not in ("self", "cls")]
                        if pos[0] >= len(hp):
                            continue
                        ex = [x for x in members if x.f is h]
                        if ex:
                            if not set(attrs) <= set(ex[0].attrs):
                                ex[0].attrs.update(attrs)
                        else:
                            ctx.functions_analysed.add(h.key)
                            hm = _Member(h, hp[pos[0]], d.split("/")[-1], dict(attrs), False)
                            members.append(hm)
                            todo.append(hm)
            ctx.require(found, f"no compiler in {d} implements visit_{vn} for {c.key}")
    ctx._c56_family = members
    return members


class _Roots:
    """Which attributes of the clause object an expression of a rendering function derives from.
    Names are followed through every binding site (assignment, loop / comprehension target); the first
    element of a tuple target iterating `<d>.items()` is a KEY of <d> (reported as `key:<attr>`)."""

    def __init__(self, fn, clause_param: str):
        self.fn = fn
        self.aliases = {clause_param}
        self.binds: Dict[str, List[Tuple[ast.AST, Optional[int], bool]]] = defaultdict(list)
        for n in ast.walk(fn):
            if isinstance(n, ast.Assign):
                for t in n.targets:
                    self._bind(t, n.value, None, False)
            elif isinstance(n, ast.AnnAssign) and n.value is not None:
                self._bind(n.target, n.value, None, False)
            elif isinstance(n, ast.AugAssign):
                self._bind(n.target, n.value, None, False)
            elif isinstance(n, (ast.For, ast.AsyncFor)):
                self._bind(n.target, n.iter, None, True)
            elif isinstance(n, ast.comprehension):
                self._bind(n.target, n.iter, None, True)
            elif isinstance(n, ast.NamedExpr):
                self._bind(n.target, n.value, None, False)
        for _ in range(3):
            for nm, lst in list(self.binds.items()):
                if any(isinstance(src, ast.Name) and src.id in self.aliases and not it for src, pos, it in lst):
                    self.aliases.add(nm)
        self._memo: Dict[int, Set[str]] = {}

    def _bind(self, target, src, pos, it):
        if isinstance(target, ast.Name):
            self.binds[target.id].append((src, pos, it))
        elif isinstance(target, (ast.Tuple, ast.List)):
            for i, e in enumerate(target.elts):
                self._bind(e, src, i, it)
        elif isinstance(target, ast.Starred):
            self._bind(target.value, src, pos, it)

    def of(self, e: ast.AST, seen: Optional[Set[str]] = None) -> Set[str]:
        seen = set() if seen is None else seen
        if isinstance(e, ast.Name):
            if e.id in self.aliases:
                return {"<clause>"}
            if e.id in seen:
                return set()
            seen = seen | {e.id}
            out: Set[str] = set()
            for src, pos, it in self.binds.get(e.id, ()):
                r = self.of(src, seen)
                if it and pos == 0 and isinstance(src, ast.Call) and _last(call_name(src)) == "items":
                    r = {x if x.startswith("key:") else "key:" + x for x in r}
                elif it and pos == 1 and isinstance(src, ast.Call) and _last(call_name(src)) == "items":
                    r = {x for x in r if not x.startswith("key:")}
                out |= r
            return out
        if isinstance(e, ast.Attribute):
            if isinstance(e.value, ast.Name) and e.value.id in self.aliases:
                return {e.attr}
            return self.of(e.value, seen)
        if isinstance(e, (ast.Lambda, ast.FunctionDef, ast.AsyncFunctionDef)):
            return set()
        out = set()
        for ch in ast.iter_child_nodes(e):
            if isinstance(ch, (ast.expr, ast.comprehension, ast.keyword)):
                out |= self.of(ch, seen)
        return out

    def plain(self, e) -> Set[str]:
        return {x[4:] if x.startswith("key:") else x for x in self.of(e)} - {"<clause>"}


def _local_defs(fn, name):
    return [v for nm, v, _ in name_stores(fn, into_nested=True) if nm == name and v is not None]


def _names_closure(fn, e, seen=None) -> Set[str]:
    """Names `e` is computed from, through local definitions (transitively)."""
    seen = set() if seen is None else seen
    out = set()
    for x in ast.walk(e):
        if isinstance(x, ast.Name) and isinstance(x.ctx, ast.Load) and x.id not in seen:
            seen.add(x.id)
            out.add(x.id)
            for v in _local_defs(fn, x.id):
                out |= _names_closure(fn, v, seen)
    return out


def _exprs_closure(fn, e, seen=None) -> List[ast.AST]:
    """`e` plus the definitions of every local name it is computed from."""
    seen = set() if seen is None else seen
    out = [e]
    for x in ast.walk(e):
        if isinstance(x, ast.Name) and isinstance(x.ctx, ast.Load) and x.id not in seen:
            seen.add(x.id)
            for v in _local_defs(fn, x.id):
                out.extend(_exprs_closure(fn, v, seen))
    return out


def _set_members(ctx) -> List[Tuple[_Member, Set[str]]]:
    out = []
    for m in _family(ctx):
        sets = {a for a, k in m.attrs.items() if k in SET_KINDS}
        if sets and any(r & sets for _, r in m.process_calls()):
            out.append((m, sets))
    ctx.require(len(out) >= 3, f"expected >= 3 upsert visitors that render a SET dictionary, found {[m.f.key for m, _ in out]}")
    return out


class _SetShape:
    """CFG facts of one visitor that renders a SET dictionary."""

    def __init__(self, ctx, m: _Member, sets: Set[str]):
        self.ctx, self.m, self.sets = ctx, m, sets
        f = m.f
        self.g = g = ctx.cfg(f)
        self.pm = getattr(f, "pm", None) or f.module.parents()      # a normal form (rob-A) carries its own parent map
        self.render_calls = [c for c, r in m.process_calls() if r & sets]
        ctx.require(self.render_calls, f"{f.key}: no self.process(<SET value>) call")
        # names holding rendered text
        self.text_names: Set[str] = set()
        for nm, v, st in name_stores(f.node):
            if v is not None and any(c in self.render_calls for c in ast.walk(v) if isinstance(c, ast.Call)):
                self.text_names.add(nm)

        def is_append(nm, c):
            if _last(nm) not in ("append", "extend") or not isinstance(c.func, ast.Attribute) or not isinstance(c.func.value, ast.Name):
                return False
            for a in c.args:
                for x in ast.walk(a):
                    if isinstance(x, ast.Name) and x.id in self.text_names:
                        return True
                    if isinstance(x, ast.Call) and x in self.render_calls:
                        return True
            return False
        self.is_append = is_append
        self.append_nodes = call_nodes(g, is_append)
        ctx.require(self.append_nodes, f"{f.key}: rendered SET values are not collected with <list>.append(...) (idiom not understood)")
        self.lists: Set[str] = set()
        self.append_calls: List[ast.Call] = []
        for n in self.append_nodes:
            for c in own_calls(g.nodes[n]):
                if is_append(call_name(c) or "", c):
                    self.lists.add(c.func.value.id)
                    self.append_calls.append(c)
        # names of SET values that get rendered
        self.value_names: Set[str] = set()
        for c in self.render_calls:
            self.value_names |= {x.id for x in ast.walk(c.args[0]) if isinstance(x, ast.Name)}
        self.value_names = {n for n in self.value_names if any((m.roots.of(src) - {"<clause>"}) and True for src, _, _ in m.roots.binds.get(n, ()))}

    def enclosing_loops(self, st) -> List[int]:
        out = []
        cur = self.pm.get(st)
        while cur is not None and cur is not self.m.f.node:
            if isinstance(cur, (ast.For, ast.AsyncFor, ast.While)):
                out.extend(self.g.nodes_for(cur))
                break
            cur = self.pm.get(cur)
        return out

    def take_nodes(self) -> List[Tuple[int, List[int], List[int]]]:
        """[(node, start nodes, target nodes)] for every statement that binds a SET value that is later rendered."""
        g, m = self.g, self.m
        out = []
        for n in g.nodes:
            st = n.stmt
            if n.kind == "stmt" and isinstance(st, (ast.Assign, ast.AnnAssign)) and getattr(st, "value", None) is not None:
                tgts = st.targets if isinstance(st, ast.Assign) else [st.target]
                names = {x.id for t in tgts for x in ast.walk(t) if isinstance(x, ast.Name)}
                if names & self.value_names and ({a for a in m.roots.of(st.value) if not a.startswith("key:")} & self.sets):
                    heads = self.enclosing_loops(st)
                    out.append((n.id, [b for b, lab in g.succ[n.id] if lab != "exc"], heads + [g.exit]))
            elif n.kind == "for":
                names = {x.id for x in ast.walk(st.target) if isinstance(x, ast.Name)}
                if names & self.value_names and (m.roots.plain(st.iter) & self.sets):
                    out.append((n.id, [b for b, lab in g.succ[n.id] if lab == "true"], [n.id, g.exit]))
        return out


# ---------------------------------------------------------------------- C56-R1
@R.rule("C56-R1", floor=6, template="T-PATH",
        desc="SET entries are conserved: every value taken from the clause's SET dictionary reaches, on every path, the "
             "list the returned text is built from; keys that match no table column are rendered anyway or reported with a warning")
def r1(ctx):
    for m, sets in _set_members(ctx):
        f = m.f
        sh = _SetShape(ctx, m, sets)
        g = sh.g
        takes = sh.take_nodes()
        ctx.require(takes, f"{f.key}: cannot see where values are taken from {sorted(sets)}")
        w = None
        for n, starts, targets in takes:
            w = must_pass(g, starts, targets, sh.append_nodes, edge_ok=no_exc)
            if w:
                break
        # the list is what the function returns
        rets = [x for x in walk_local(f.node) if isinstance(x, ast.Return) and x.value is not None]
        ctx.require(rets, f"{f.key} returns nothing")
        unreturned = [r for r in rets if not (_names_closure(f.node, r.value) & sh.lists)]
        ctx.check(w is None and not unreturned, f.key + ":taken-values-rendered",
                  ("a value taken from the SET dictionary can be skipped without being rendered" if w else
                   f"`{unparse(unreturned[0])[:80] if unreturned else ''}` is not built from the rendered assignments {sorted(sh.lists)}")
                  + " (the statement sent to the backend lacks that assignment: the conflicting row keeps its old value "
                    "for a column the clause says to update)",
                  f"{len(takes)} take site(s) -> {'/'.join(sorted(sh.lists))}.append -> returned text", f.loc, w)
        # unmatched keys: reported by a warning, or rendered anyway (so the backend reports them)
        warns = []
        for c in calls_in(f.node):
            if _last(call_name(c)) not in ("warn", "warn_limited", "warn_deprecated"):
                continue
            atoms = []
            for t, pol in lexical_guards(sh.pm, c, stop=f.node):
                atoms.extend(test_atoms(t, pol))
            if _dead(atoms):
                continue
            for txt, p in atoms:
                if p and txt.isidentifier() and (m.roots.plain(ast.Name(id=txt, ctx=ast.Load())) & sets):
                    warns.append((c, txt))
        residual = [n for n, starts, targets in takes if g.nodes[n].kind == "for"]
        how = (["warn(...) guarded by " + ", ".join(sorted({t for _, t in warns}))] if warns else []) \
            + (["remaining entries rendered by a loop over the dictionary"] if residual else [])
        ctx.check(bool(warns or residual), f.key + ":unmatched-keys-reported",
                  "keys of the SET dictionary that match no column of the table are neither rendered nor reported "
                  "(a misspelt key, e.g. set_={'nmae': 'x'}, silently updates nothing)",
                  "; ".join(how), f.loc)


def _dead(atoms) -> bool:
    return any((txt == "False" and p) or (txt == "True" and not p) for txt, p in atoms)


# ---------------------------------------------------------------------- C56-R2
def _column_loop(ctx, m: _Member, sh: _SetShape):
    """The statement-level loop over the table's columns whose variable keys the lookups into the SET dictionary."""
    f = m.f
    cands = []
    for st in walk_local(f.node):
        if not isinstance(st, (ast.For, ast.AsyncFor)) or not isinstance(st.target, ast.Name):
            continue
        tbl = False
        for e in _exprs_closure(f.node, st.iter):
            for x in ast.walk(e):
                if isinstance(x, ast.Attribute) and x.attr in ("c", "columns") and isinstance(x.value, ast.Attribute) and x.value.attr == "table":
                    tbl = True
        if tbl:
            cands.append(st)
    ctx.require(len(cands) == 1, f"{f.key}: expected one loop over <statement>.table.c, found {len(cands)}")
    return cands[0]


def _lookups(fn_body_nodes, dict_names: Set[str]):
    """Key expressions used to look up one of the dict names: `k in d`, d[k], d.pop(k), d.get(k)."""
    out = []
    for root in fn_body_nodes:
        for x in ast.walk(root):
            if isinstance(x, ast.Compare) and len(x.ops) == 1 and isinstance(x.ops[0], (ast.In, ast.NotIn)) \
                    and isinstance(x.comparators[0], ast.Name) and x.comparators[0].id in dict_names:
                out.append(x.left)
            elif isinstance(x, ast.Subscript) and isinstance(x.value, ast.Name) and x.value.id in dict_names:
                out.append(x.slice)
            elif isinstance(x, ast.Call) and isinstance(x.func, ast.Attribute) and x.func.attr in ("pop", "get") \
                    and isinstance(x.func.value, ast.Name) and x.func.value.id in dict_names and x.args:
                out.append(x.args[0])
    return out


def _single_def(fn, e):
    if isinstance(e, ast.Name):
        d = _local_defs(fn, e.id)
        if len(d) == 1:
            return d[0]
    return e


@R.rule("C56-R2", floor=6, template="T-SIBLING",
        desc="assignment pairing in every upsert visitor: the SET dictionary is looked up by the table column's key (or the "
             "column), the assignment target is that column's quoted NAME, and an untyped bound value takes that column's type -- "
             "on every CFG path (helper-inlined normal form) from each lookup of the column loop to the rendering")
def r2(ctx):
    for m, sets in _set_members(ctx):
        f = m.f
        sh = _SetShape(ctx, m, sets)
        loop = _column_loop(ctx, m, sh)
        C = loop.target.id
        dict_names = {nm for nm in m.roots.binds if m.roots.plain(ast.Name(id=nm, ctx=ast.Load())) & sets
                      and any(isinstance(src, (ast.Call, ast.DictComp, ast.Dict, ast.Attribute)) and not it for src, _, it in m.roots.binds[nm])}
        # (a) lookup key and rendered name
        lks = [k for k in _lookups(loop.body, dict_names) if C in _names_closure(f.node, k)]
        ctx.require(lks, f"{f.key}: no lookup into the SET dictionary keyed by the column loop variable `{C}`")
        bad_lk = []
        def is_col_or_key(e, depth=0):
            if isinstance(e, ast.Name) and e.id == C:
                return True
            if isinstance(e, ast.Attribute) and isinstance(e.value, ast.Name) and e.value.id == C and e.attr == "key":
                return True
            if isinstance(e, ast.Name) and depth < 3:       # `found = col_key` / `found = c` in the arms of the membership tests
                ds = _local_defs(f.node, e.id)
                return bool(ds) and all(is_col_or_key(d, depth + 1) for d in ds)
            return False
        for k in lks:
            if not is_col_or_key(k):
                bad_lk.append(unparse(_single_def(f.node, k)))
        quotes = []
        for st in loop.body:
            for c in calls_in(st, into_nested=False):
                if _last(_cn(f.node, c)) == "quote" and "preparer" in (_cn(f.node, c) or "") and c.args:
                    quotes.append(c)
        # only those whose text reaches the append
        key_names = {nm for nm, v, _ in name_stores(f.node) if v is not None and any(q in quotes for q in ast.walk(v) if isinstance(q, ast.Call))}
        used = []
        for ac in sh.append_calls:
            if not any(ac is x for st in loop.body for x in ast.walk(st)):
                continue
            for a in ac.args:
                for x in ast.walk(a):
                    if isinstance(x, ast.Name) and x.id in key_names:
                        used.extend(q for q in quotes if any(q in list(ast.walk(v)) for nm, v, _ in name_stores(f.node) if nm == x.id and v is not None))
                    if isinstance(x, ast.Call) and x in quotes:
                        used.append(x)
        ctx.require(used, f"{f.key}: the assignment target text is not produced by preparer.quote(...) inside the column loop")
        bad_q = [unparse(q.args[0]) for q in used
                 if not (isinstance(q.args[0], ast.Attribute) and isinstance(q.args[0].value, ast.Name)
                         and q.args[0].value.id == C and q.args[0].attr == "name")]
        ctx.check(not bad_lk and not bad_q, f.key + ":target-is-the-looked-up-columns-name",
                  "; ".join(([f"SET dictionary looked up by `{b}` instead of `{C}.key` / `{C}`" for b in bad_lk])
                            + [f"assignment target rendered from `{b}` instead of `{C}.name`" for b in bad_q])
                  + " (for Column('x', key='y') and set_={'y': 1} the statement must assign to \"x\"; anything else names a "
                    "column the table does not have, or drops the entry)",
                  f"lookup by {C}.key/{C}; target = quote({C}.name)", loc_of(f, loop))
        # (b) untyped bind takes the column's type -- on EVERY path from a lookup to the rendering
        _r2_coercion(ctx, m, sets)


# callees the rules of this module recognise by name: never inlined by the normal form
NF_KEEP = ("process", "quote", "warn", "warn_limited", "expect", "expect_as_key", "replacement_traverse",
           "_with_binary_element_type", "self_group", "_on_conflict_target")


def _normal_member(ctx, m: _Member) -> _Member:
    """The same family member on the helper-inlined / alias-resolved normal form of its function (rob-A): an
    extracted `self._typed_value(value, c)` is judged by what it does at the call site."""
    f2 = nf(ctx, m.f, keep=NF_KEEP)
    if f2 is m.f or not (getattr(f2, "inlined", None) or getattr(f2, "n_alias", 0)):
        return m
    return _Member(f2, m.param, m.dialect, dict(m.attrs), m.is_visitor)


def _flag_defs(fn) -> Dict[str, ast.stmt]:
    """{local: its only binding statement} for locals bound once to a condition (comparison / and / or / not /
    isinstance(..)): a named guard such as `untyped = isinstance(v, BindParameter) and v.type._isnull`."""
    by: Dict[str, list] = defaultdict(list)
    for nm, v, st in name_stores(fn, into_nested=True):
        by[nm].append((v, st))
    out = {}
    for nm, lst in by.items():
        if len(lst) != 1 or lst[0][0] is None:
            continue
        v, st = lst[0]
        if isinstance(v, (ast.Compare, ast.BoolOp)) or (isinstance(v, ast.UnaryOp) and isinstance(v.op, ast.Not)) \
                or (isinstance(v, ast.Call) and call_name(v) == "isinstance"):
            out[nm] = st
    return out


def _expand_guards(sh: _SetShape, fn, pairs) -> List[Tuple[ast.AST, Set[Tuple[str, bool]]]]:
    """[(deciding construct, its atoms)] for (test, polarity) pairs; an atom that is a named condition is expanded to
    its definition when that definition is still current at the test (no operand re-bound in between)."""
    g = sh.g
    flags = _flag_defs(fn)
    out: List[Tuple[ast.AST, Set[Tuple[str, bool]]]] = []
    for t, pol in pairs:
        owner = sh.pm.get(t)
        atoms: Set[Tuple[str, bool]] = set()
        for txt, p in test_atoms(t, pol):
            dst = flags.get(txt)
            if dst is None:
                atoms.add((txt, p))
                continue
            val = dst.value
            reads = {x.id for x in ast.walk(val) if isinstance(x, ast.Name)}
            dn = set(g.nodes_for(dst))
            tst = owner if isinstance(owner, ast.stmt) else enclosing_stmt(sh.pm, t)
            tn = set(g.nodes_for(tst)) if tst is not None else set()
            between = set(g.reachable([b for a in dn for b, lab in g.succ[a] if lab != "exc"], avoid=tn, edge_ok=no_exc))
            stale = False
            for nm2, _v2, st2 in name_stores(fn, into_nested=False):
                if nm2 in reads and st2 is not dst:
                    for n2 in g.nodes_for(st2):
                        if n2 in between and tn & set(g.reachable([n2], avoid=dn, edge_ok=no_exc)):
                            stale = True
            if stale or not dn or not tn:
                atoms.add((txt, p))
            else:
                atoms.update(test_atoms(val, p))
        out.append((owner, atoms))
    return out


def _guard_atoms_of(sh: _SetShape, fn, node) -> List[Tuple[ast.AST, Set[Tuple[str, bool]]]]:
    """lexical guards of an expression / statement (named conditions expanded)"""
    return _expand_guards(sh, fn, lexical_guards(sh.pm, node, stop=fn))


def _atoms_at(sh: _SetShape, fn, n: int) -> Set[Tuple[str, bool]]:
    """branch outcomes that hold whenever CFG node `n` runs: CFG-dominating outcomes (early exits included) and the
    lexical guards of its statement, named conditions expanded"""
    st = sh.g.nodes[n].stmt
    pairs = list(sh.g.edge_guards(n)) + (list(lexical_guards(sh.pm, st, stop=fn)) if st is not None else [])
    return {a for _o, at in _expand_guards(sh, fn, pairs) for a in at}


def _r2_coercion(ctx, m0: _Member, sets: Set[str]):
    """C56-R2 (b).  Every value looked up in the SET dictionary by a table column must, before it is rendered, pass the
    decision `is it an untyped BindParameter? -> take the column's type`.  Decided on the CFG of the normal form:
    from every lookup inside the column loop, every path to the rendering passes the test that guards the coercion (or
    the statement that applies a replacement function containing it)."""
    m = _normal_member(ctx, m0)
    f = m.f
    sh = _SetShape(ctx, m, sets)
    g = sh.g
    loop = _column_loop(ctx, m, sh)
    C = loop.target.id
    in_loop = {id(x) for st in loop.body for x in ast.walk(st)}
    # names through which a SET value travels to the rendering (`typed = f(val)`; `val = d[k]`): backwards closure
    vn: Set[str] = set(sh.value_names)
    # (names computed from the loop column are keys, not values; `c` is also a comprehension variable of the warning text)
    colnames = {C}
    for _ in range(3):
        for nm in list(m.roots.binds):
            ds = _local_defs(f.node, nm)
            if nm not in colnames and ds and all((dotted(d) or "").split(".")[0] in colnames and "()" not in (dotted(d) or "()") for d in ds):
                colnames.add(nm)            # `col_key = c.key`, `found = col_key`
    vn -= colnames
    for _ in range(4):
        for nm, v, st in name_stores(f.node):
            if nm in vn and v is not None and id(st) in in_loop:
                vn |= {x.id for x in ast.walk(v) if isinstance(x, ast.Name) and isinstance(x.ctx, ast.Load)
                       and (m.roots.plain(x) & sets) and x.id not in colnames
                       and any(not it for _s, _p, it in m.roots.binds.get(x.id, ()))
                       and not any(isinstance(src, (ast.Dict, ast.DictComp)) or (isinstance(src, ast.Call) and _last(call_name(src)) in ("dict", "items"))
                                   for src, _p, _it in m.roots.binds.get(x.id, ()))}
    coercions_ = []
    for st in loop.body:
        for c in calls_in(st, into_nested=True):
            if _last(call_name(c)) == "_with_binary_element_type" and isinstance(c.func, ast.Attribute):
                coercions_.append(c)
    good: List[Tuple[ast.Call, Set[int], Set[Tuple[str, bool]]]] = []
    why = "no `<value>._with_binary_element_type(<column>.type)` for SET values"
    for c in coercions_:
        arg = _single_def(f.node, c.args[0]) if c.args else None       # `column_type = c.type` two lines above
        if not (isinstance(arg, ast.Attribute) and arg.attr == "type" and isinstance(arg.value, ast.Name) and arg.value.id == C):
            why = f"`{unparse(c)[:70]}` does not use `{C}.type`"
            continue
        recv = dotted(c.func.value)
        guards = _guard_atoms_of(sh, f.node, c)
        atoms = {a for _o, at in guards for a in at}

        def relevant(txt, p):
            return p and ((txt.startswith(f"isinstance({recv},") and "BindParameter" in txt) or txt == f"{recv}.type._isnull")
        owners = [o for o, at in guards if any(relevant(txt, p) for txt, p in at)]
        inst = any(p and txt.startswith(f"isinstance({recv},") and "BindParameter" in txt for txt, p in atoms)
        isnull = (f"{recv}.type._isnull", True) in atoms
        if not (inst and isnull) or _dead(atoms):
            why = (f"`{unparse(c)[:70]}` is not guarded by `isinstance({recv}, BindParameter) and {recv}.type._isnull` "
                   f"(guards: {sorted(t for t, p in atoms if p)})")
            continue
        # result must flow into the rendered value; `decide` = the CFG nodes at which the coercion is decided / applied
        parent = sh.pm.get(c)
        while isinstance(parent, (ast.IfExp, ast.BoolOp)):
            parent = sh.pm.get(parent)
        decide: Set[int] = set()
        # conditions tested TOGETHER with the decision narrow it (`by_key and isinstance(..) and ..`); enclosing tests need
        # no separate treatment: a lookup outside them has a path that never reaches the decision
        extra = {(txt, p) for o, at in guards if any(o is x for x in owners) for txt, p in at if not relevant(txt, p)}
        flows = False
        if isinstance(parent, (ast.Assign, ast.AnnAssign)):
            tgts = parent.targets if isinstance(parent, ast.Assign) else [parent.target]
            if any(isinstance(t, ast.Name) and t.id in vn for t in tgts):
                flows = True
                for o in owners:
                    if isinstance(o, (ast.If, ast.While)):
                        decide |= {n for n in g.nodes_for(o) if g.nodes[n].kind == "test"}
                    else:                                   # conditional expression / and / or: decided inside the statement
                        decide |= set(g.nodes_for(parent))
        if isinstance(parent, ast.Return):
            # nested replacement function: its name must be passed to a call whose result is a rendered value
            cur = parent
            while cur is not None and not isinstance(cur, (ast.FunctionDef, ast.Lambda)):
                cur = sh.pm.get(cur)
            if isinstance(cur, ast.FunctionDef) and cur is not f.node:
                for nm, v, st in name_stores(f.node):
                    if nm in vn and v is not None and id(st) in in_loop \
                            and any(isinstance(x, ast.Name) and x.id == cur.name for x in ast.walk(v)):
                        flows = True
                        decide |= set(g.nodes_for(st))      # (a path around this statement is a path without the coercion)
                        extra = set()
        if not flows or not decide:
            why = f"the result of `{unparse(c)[:70]}` does not reach the rendered value"
            continue
        good.append((c, decide, extra))
    key = m0.f.key + ":untyped-bind-takes-the-columns-type"
    tail = (" (a plain Python value in the SET dictionary, e.g. set_={'data': {'a': 1}} for a JSON column or a "
            "datetime for a SQLite DateTime column, is bound without the column type's bind processing)")
    if not good:
        ctx.violation(key, why + tail, loc_of(f, loop))
        return
    # every lookup by the loop column -> rendering passes a decision that can apply to it
    loop_nodes = set(g.nodes_for(loop))
    renders = [n for rc in sh.render_calls if id(rc) in in_loop for n in g.nodes_containing(rc)]
    ctx.require(renders, f"{f.key}: no rendering of a SET value inside the column loop")
    takes = []
    for nd in g.nodes:
        st = nd.stmt
        if nd.kind != "stmt" or id(st) not in in_loop or not isinstance(st, (ast.Assign, ast.AnnAssign)) or getattr(st, "value", None) is None:
            continue
        tg = st.targets if isinstance(st, ast.Assign) else [st.target]
        if not ({x.id for t in tg for x in ast.walk(t) if isinstance(x, ast.Name)} & vn):
            continue
        # read from the dictionary itself, not a value that is merely passed on (`value = value` of an inlined helper)
        direct = {a for a in m.roots.of(st.value, set(vn) | colnames) if not a.startswith("key:")} & sets
        if direct:
            takes.append(nd.id)
    ctx.require(takes, f"{f.key}: cannot see where the column loop takes values from {sorted(sets)}")
    coerced = {id(sh.pm.get(c)) for c, _d, _x in good} | {id(enclosing_stmt(sh.pm, c)) for c, _d, _x in good}
    all_decide = set().union(*[d for _c, d, _x in good])
    n_lookups = 0
    for n in takes:
        if n in all_decide or id(g.nodes[n].stmt) in coerced:
            continue        # the statement that applies the coercion: its result is the typed value
        n_lookups += 1
        here = _atoms_at(sh, f.node, n)
        through = set(loop_nodes)
        excluded = []
        for c, d, extra in good:
            against = [(txt, p) for txt, p in extra if (txt, not p) in here]
            unknown = [(txt, p) for txt, p in extra if (txt, p) not in here and (txt, not p) not in here]
            if against:
                excluded.append((c, against[0]))
                continue
            ctx.require(not unknown, f"{f.key}: `{unparse(c)[:60]}` is applied only when `{unknown[0][0] if unknown else ''}` is "
                                     f"{unknown[0][1] if unknown else ''}: cannot tell for which lookups that holds")
            through |= d
        # (the engine's path query tests neither `through` nor the targets on the start node itself: start AT the lookup)
        w = must_pass(g, [n], renders, through, edge_ok=no_exc)
        if w:
            how = ", ".join(sorted({f"`{unparse(c)[:60]}`" for c, _d, _x in good}))
            exc = (f"; it runs only when `{excluded[0][1][0]}` is {excluded[0][1][1]}, which is not the case for this lookup" if excluded else "")
            ctx.violation(key, f"the value taken by `{unparse(g.nodes[n].stmt)[:70]}` reaches the rendering "
                               f"`{unparse(g.nodes[renders[0]].stmt)[:60]}` on a path that never decides the untyped-bind coercion "
                               f"({how} is applied to the values of another lookup only{exc}; the SET dictionary may be keyed by the "
                               f"column's key or by the Column object, and both lookups must be typed)" + tail, loc_of(f, g.nodes[n].stmt), w)
            return
    ctx.require(n_lookups, f"{f.key}: every statement that takes a SET value applies the coercion itself (shape not understood)")
    ctx.ok(key, f"BindParameter with null type -> _with_binary_element_type({C}.type) decided on every path of {n_lookups} lookup(s) to the rendering")


# ---------------------------------------------------------------------- C56-R3
def _derives_from_kw(fn, e, K: str, depth=0) -> bool:
    if depth > 4:
        return False
    if isinstance(e, ast.Name):
        if e.id == K:
            return True
        defs = _local_defs(fn, e.id)
        return bool(defs) and all(_derives_from_kw(fn, d, K, depth + 1) for d in defs)
    if isinstance(e, ast.Call):
        nm = _last(call_name(e))
        if nm in ("dict", "immutabledict") and e.args:
            return _derives_from_kw(fn, e.args[0], K, depth + 1)
        if nm in ("copy", "union", "merge_with") and isinstance(e.func, ast.Attribute):
            return _derives_from_kw(fn, e.func.value, K, depth + 1)
        return False
    if isinstance(e, ast.Dict):
        return any(k is None and _derives_from_kw(fn, v, K, depth + 1) for k, v in zip(e.keys, e.values))
    if isinstance(e, ast.BinOp) and isinstance(e.op, ast.BitOr):
        return _derives_from_kw(fn, e.left, K, depth + 1)
    return False


def _forwards(fn, call: ast.Call, K: str) -> bool:
    return any(k.arg is None and _derives_from_kw(fn, k.value, K) for k in call.keywords)


@R.rule("C56-R3", floor=13, template="T-SIBLING",
        desc="every sub-expression of an upsert clause (SET values, DO UPDATE WHERE, conflict-target elements, conflict-target "
             "predicate) is rendered with the visitor's **kw forwarded, and visitors forward **kw to the helpers they delegate to")
def r3(ctx):
    fam = _family(ctx)
    helpers = {m.f.node: m for m in fam if not m.is_visitor}
    for m in fam:
        f = m.f
        K = m.kwname
        ctx.require(K is not None, f"{f.key} takes no **kw: compile flags cannot reach the clause's sub-expressions")
        by_attr: Dict[str, List[ast.Call]] = defaultdict(list)
        for c, r in m.process_calls():
            for a in r:
                by_attr[a].append(c)
        for a, calls in sorted(by_attr.items()):
            bad = [c for c in calls if not _forwards(f.node, c, K)]
            ctx.check(not bad, f"{f.key}:kwargs-forwarded[{a}]",
                      f"{len(bad)} of {len(calls)} rendering(s) of `{m.param}.{a}` do not forward the caller's **{K} "
                      f"(`{unparse(bad[0])[:90] if bad else ''}`): compile flags such as literal_binds are lost for that part only -- "
                      f"stmt.compile(compile_kwargs={{'literal_binds': True}}) renders the VALUES inline but leaves a bound-parameter "
                      f"placeholder (with no value) in this part of the upsert clause; the sibling renderings forward **{K}",
                      f"{len(calls)} rendering(s) forward **{K}", loc_of(f, (bad or calls)[0]))
        if True:
            for c in calls_in(f.node):
                nm = call_name(c) or ""
                if not nm.startswith("self.") or nm.count(".") != 1:
                    continue
                tg = [h for h in helpers.values() if h.f.name == nm[5:] and h.dialect == m.dialect and h.f is not f]
                if not tg or not any(isinstance(x, ast.Name) and x.id in m.roots.aliases for x in c.args):
                    continue
                ctx.check(_forwards(f.node, c, K), f"{f.key}:kwargs-forwarded[->{nm[5:]}]",
                          f"`{unparse(c)[:80]}` does not forward **{K}: compile flags (literal_binds, ...) are lost for the conflict target",
                          f"{nm}(.., **{K})", loc_of(f, c))


# ---------------------------------------------------------------------- C56-R4
def _kw_value(fn, call: ast.Call, name: str) -> Optional[ast.AST]:
    """Expression passed for keyword `name` at `call`, looking through `**d` for a local dict d."""
    for k in call.keywords:
        if k.arg == name:
            return k.value
    for k in call.keywords:
        if k.arg is None and isinstance(k.value, ast.Name):
            d = k.value.id
            found = None
            for v in _local_defs(fn, d):
                if isinstance(v, ast.Call):
                    for kk in v.keywords:
                        if kk.arg == name:
                            found = kk.value
                if isinstance(v, ast.Dict):
                    for kx, vx in zip(v.keys, v.values):
                        if kx is not None and const_str(kx) == name:
                            found = vx
            for c in calls_in(fn):
                if call_name(c) == f"{d}.update":
                    for kk in c.keywords:
                        if kk.arg == name:
                            found = kk.value
            for st in walk_local(fn):
                if isinstance(st, ast.Assign) and len(st.targets) == 1 and isinstance(st.targets[0], ast.Subscript) \
                        and isinstance(st.targets[0].value, ast.Name) and st.targets[0].value.id == d \
                        and const_str(st.targets[0].slice) == name:
                    found = st.value
            if found is not None:
                return found
    return None


def _is_const(e, val) -> bool:
    return isinstance(e, ast.Constant) and e.value is val


@R.rule("C56-R4", floor=5, template="T-TABLE",
        desc="the conflict target obeys the backend grammar (oracles/upsert_grammar.json): SQLite renders target expressions "
             "and predicate inline (literal_execute), PostgreSQL renders target columns without table name, and the candidate-row "
             "alias of both is named `excluded`")
def r4(ctx):
    oracle = load_oracle("upsert_grammar.json")["dialects"]
    ix = ctx.index
    fam = _family(ctx)
    # conflict-target attributes = expression attributes common to every clause class of the dialect
    classes = post_values_clause_classes(ctx)
    for dialect, facts in sorted(oracle.items()):
        d = f"dialects/{dialect}"
        cls_here = [c for c, vn in classes if os.path.dirname(c.module.relpath) == d]
        ctx.require(len(cls_here) >= 2, f"{d}: expected DO NOTHING and DO UPDATE clause classes")
        tables = [dict(_traverse_table(ctx, c)) for c in cls_here]
        common = set(tables[0])
        for t in tables[1:]:
            common &= set(t)
        target = {a for a in common if tables[0][a] in EXPR_KINDS}
        ctx.require(target, f"{d}: no conflict-target expression attributes common to {[c.name for c in cls_here]}")
        mem = [m for m in fam if m.dialect == dialect]
        by_attr: Dict[str, List[Tuple[_Member, ast.Call]]] = defaultdict(list)
        for m in mem:
            for c, r in m.process_calls():
                for a in r & target:
                    by_attr[a].append((m, c))
        ctx.require(set(by_attr) == target, f"{d}: conflict-target attributes {sorted(target - set(by_attr))} are not rendered by self.process(...)")
        for a, lst in sorted(by_attr.items()):
            kind = tables[0][a]
            if facts.get("target_expressions_inline"):
                bad = [(m, c) for m, c in lst if not _is_const(_kw_value(m.f.node, c, "literal_execute"), True)]
                m0, c0 = (bad or lst)[0]
                ctx.check(not bad, f"{m0.f.key}:target-rendered-inline[{a}]",
                          f"`{unparse(c0)[:90]}` renders `{a}` of the conflict target without literal_execute=True: a literal inside it "
                          f"becomes a bound parameter, and {dialect} matches a partial / expression unique index only against inline "
                          f"text (probed: 'ON CONFLICT clause does not match any PRIMARY KEY or UNIQUE constraint'); e.g. "
                          f"index_elements=[func.coalesce(t.c.a, 'zz')] for a unique index on coalesce(a, 'zz')",
                          "literal_execute=True", loc_of(m0.f, c0))
            if facts.get("target_columns_unqualified") and kind in ("dp_multi_list", "dp_clauseelement_list", "dp_clauseelement_tuple"):
                bad = [(m, c) for m, c in lst if not _is_const(_kw_value(m.f.node, c, "include_table"), False)]
                m0, c0 = (bad or lst)[0]
                ctx.check(not bad, f"{m0.f.key}:target-columns-unqualified[{a}]",
                          f"`{unparse(c0)[:90]}` renders conflict-target columns without include_table=False: {dialect} accepts only bare "
                          f"column names there (index_elements=[t.c.id] would render `ON CONFLICT (t.id)`, a syntax error)",
                          "include_table=False", loc_of(m0.f, c0))
        # candidate-row alias
        ins = [c for c in ix.module(f"{d}/dml.py").classes.values() if any(_last(b) in ("Insert", "StandardInsert") for b in c.base_exprs)]
        ctx.require(len(ins) == 1, f"{d}/dml.py: expected one Insert subclass")
        want = facts["row_alias"]
        found = []
        for fi in ins[0].methods.values():
            for c in calls_in(fi.node):
                if _last(call_name(c)) == "alias" and any(k.arg == "name" for k in c.keywords):
                    found.append((fi, const_str([k.value for k in c.keywords if k.arg == "name"][0])))
        ctx.require(found, f"{ins[0].key}: no alias(self.table, name=...) for the candidate row")
        bad = [(fi, n) for fi, n in found if n != want]
        fi0 = (bad or found)[0][0]
        ctx.check(not bad, f"{fi0.key}:candidate-row-alias-name",
                  f"the candidate-row alias is named {bad[0][1] if bad else ''!r}; {dialect} knows the row proposed for insertion only as "
                  f"`{want}` (stmt.{fi0.name}.col renders `{bad[0][1] if bad else ''}.col`: no such table)",
                  f"alias name {want!r}", fi0.loc)


# ---------------------------------------------------------------------- C56-R5
MEMO_DECOS = {"memoized_property", "memoized_attribute", "cached_property", "ro_memoized_property"}


@R.rule("C56-R5", floor=3, template="T-OWN",
        desc="a clause attribute the compiler recognises by identity (`<col>.table is <clause>.<attr>`) is filled from a memoized "
             "attribute of the Insert, and the public candidate-row namespace returns the columns of that same attribute")
def r5(ctx):
    ix = ctx.index
    n = 0
    for m in _family(ctx):
        f = m.f
        ident = set()
        for x in ast.walk(f.node):
            if isinstance(x, ast.Compare) and len(x.ops) == 1 and isinstance(x.ops[0], (ast.Is, ast.IsNot)):
                for side, other in ((x.left, x.comparators[0]), (x.comparators[0], x.left)):
                    if isinstance(other, ast.Constant):
                        continue
                    if isinstance(side, ast.Attribute) and isinstance(side.value, ast.Name) and side.value.id in m.roots.aliases:
                        ident.add(side.attr)
        for attr in sorted(ident):
            # clause classes of this dialect that store the attribute from a constructor parameter
            owners = []
            for c, vn in post_values_clause_classes(ctx):
                if os.path.dirname(c.module.relpath) != f"dialects/{m.dialect}":
                    continue
                init = ix.resolve_method(c, "__init__")
                if init is None:
                    continue
                for tgt, node, st in attr_stores(init.node):
                    if tgt == f"self.{attr}" and isinstance(st, ast.Assign) and isinstance(st.value, ast.Name) and st.value.id in init.params:
                        owners.append((c, [p for p in init.params if p != "self"].index(st.value.id), st.value.id))
            ctx.require(owners, f"{f.key}: `{m.param}.{attr}` is compared by identity but no clause constructor stores it from a parameter")
            c, pos, pname = owners[0]
            mod = c.module
            ins = [k for k in mod.classes.values() if any(_last(b) in ("Insert", "StandardInsert") for b in k.base_exprs)]
            ctx.require(len(ins) == 1, f"{mod.relpath}: expected one Insert subclass")
            ins = ins[0]
            ctor_calls = [(fi, call) for fi in ins.methods.values() for call in calls_in(fi.node) if call_name(call) == c.name]
            ctx.require(ctor_calls, f"{ins.key}: no method constructs {c.name}")
            srcs = set()
            bad_src = []
            for fi, call in ctor_calls:
                v = call.args[pos] if pos < len(call.args) else next((k.value for k in call.keywords if k.arg == pname), None)
                if isinstance(v, ast.Attribute) and isinstance(v.value, ast.Name) and v.value.id == "self":
                    srcs.add(v.attr)
                else:
                    bad_src.append((fi, unparse(v) if v is not None else "<missing>"))
            n += 1
            fi0 = ctor_calls[0][0]
            ctx.check(not bad_src and len(srcs) == 1, f"{fi0.key}:clause-gets-the-inserts-own-alias[{attr}]",
                      f"{c.name}.{attr} is not filled from one attribute of the Insert ({[b for _, b in bad_src] or sorted(srcs)}): the compiler's "
                      f"identity test `is {m.param}.{attr}` cannot recognise columns taken from the statement's candidate-row namespace",
                      f"{c.name}(self.{'/'.join(sorted(srcs))}, ...)", fi0.loc)
            if len(srcs) != 1:
                # fall back to the attribute behind the public namespace so that the remaining instances are still evaluated
                alt = set()
                for fi in ins.methods.values():
                    for r in [x for x in walk_local(fi.node) if isinstance(x, ast.Return) and x.value is not None]:
                        v = r.value
                        if isinstance(v, ast.Attribute) and v.attr in ("columns", "c") and isinstance(v.value, ast.Attribute) \
                                and isinstance(v.value.value, ast.Name) and v.value.value.id == "self":
                            alt.add(v.value.attr)
                if len(alt) != 1:
                    continue
                srcs = alt
            src = srcs.pop()
            prop = ins.methods.get(src)
            ctx.require(prop is not None, f"{ins.key}.{src} is not defined in the class")
            memo = any(_last(d) in MEMO_DECOS for d in prop.decorators)
            n += 1
            ctx.check(memo, f"{prop.key}:memoized",
                      f"Insert.{src} is not memoized (decorators {prop.decorators}): every access builds a new alias, so columns from "
                      f"`stmt.inserted` are never `is` the alias stored on the clause and render as `inserted.<col>` instead of "
                      f"VALUES(<col>) / the row alias (e.g. on_duplicate_key_update(b=stmt.inserted.b))",
                      "memoized", prop.loc)
            # public namespace(s): properties returning self.<src>.columns / .c
            pubs = []
            for fi in ins.methods.values():
                if fi is prop:
                    continue
                for r in [x for x in walk_local(fi.node) if isinstance(x, ast.Return) and x.value is not None]:
                    v = r.value
                    if isinstance(v, ast.Attribute) and v.attr in ("columns", "c"):
                        pubs.append((fi, v))
            ctx.require(pubs, f"{ins.key}: no public candidate-row namespace (a property returning <alias>.columns)")
            bad = [(fi, unparse(v)) for fi, v in pubs if dotted(v.value) != f"self.{src}"]
            n += 1
            fi0 = (bad or pubs)[0][0]
            ctx.check(not bad, f"{fi0.key}:namespace-of-the-memoized-alias",
                      f"`{bad[0][1] if bad else ''}` is not the columns of self.{src}: columns handed to the user do not belong to the alias "
                      f"the compiler recognises by identity",
                      f"returns self.{src}.columns", fi0.loc)
    ctx.require(n, "no identity-compared clause attribute found in any upsert visitor (MySQL `inserted` alias idiom changed)")


# ---------------------------------------------------------------------- C56-R6
ORDER_KEEPING_CALLS = {"list", "tuple"}


def _keeps_order_from(fn, e, is_source, depth=0) -> bool:
    """Is `e` a sequence whose order is that of the source (a prefix-preserving derivation)?"""
    if depth > 5:
        return False
    if is_source(e):
        return True
    if isinstance(e, ast.Name):
        defs = _local_defs(fn, e.id)
        return len(defs) >= 1 and all(_keeps_order_from(fn, d, is_source, depth + 1) for d in defs)
    if isinstance(e, (ast.ListComp, ast.GeneratorExp)):
        return len(e.generators) == 1 and _keeps_order_from(fn, e.generators[0].iter, is_source, depth + 1)
    if isinstance(e, ast.Call) and _last(call_name(e)) in ORDER_KEEPING_CALLS and len(e.args) == 1:
        return _keeps_order_from(fn, e.args[0], is_source, depth + 1)
    if isinstance(e, ast.BinOp) and isinstance(e.op, ast.Add):
        return _keeps_order_from(fn, e.left, is_source, depth + 1)
    return False


@R.rule("C56-R6", floor=2, template="T-FLOW",
        desc="ordered SET (MySQL evaluates assignments left to right): the constructor records the order of a list-of-tuples "
             "argument, and the compiler's column sequence starts with the recorded keys in that order")
def r6(ctx):
    ix = ctx.index
    n = 0
    for m, sets in _set_members(ctx):
        # attributes of kind `string list` on the clause: the recorded order
        order_attrs = [a for a, k in m.attrs.items() if k == "dp_string_list"]
        if not order_attrs:
            continue
        ctx.require(len(order_attrs) == 1, f"{m.f.key}: several string-list attributes {order_attrs}")
        oa = order_attrs[0]
        f = m.f
        sh = _SetShape(ctx, m, sets)
        loop = _column_loop(ctx, m, sh)

        def is_source(e):
            return isinstance(e, ast.Attribute) and e.attr == oa and isinstance(e.value, ast.Name) and e.value.id in m.roots.aliases
        # definitions of the iterated sequence that are made when the order attribute is set
        seq_names = [x for x in ast.walk(loop.iter) if isinstance(x, ast.Name) and isinstance(x.ctx, ast.Load)]
        guarded = []
        for nm in {x.id for x in seq_names}:
            for name, v, st in name_stores(f.node):
                if name != nm or v is None:
                    continue
                atoms = set()
                for t, pol in lexical_guards(sh.pm, st, stop=f.node):
                    atoms |= set(test_atoms(t, pol))
                if any(p and txt.endswith("." + oa) for txt, p in atoms) and not _dead(atoms):
                    guarded.append((nm, v, st))
        n += 1
        if not guarded:
            ctx.violation(f.key + ":recorded-order-honoured",
                          f"the column sequence iterated by the SET loop is never derived from `{m.param}.{oa}`: "
                          f"on_duplicate_key_update([('a', stmt.inserted.b), ('b', t.c.a + 1)]) renders in table order, and MySQL, which "
                          f"evaluates assignments left to right, computes `b` from the old instead of the new `a` (or vice versa)", loc_of(f, loop))
        else:
            ok_iter = _keeps_order_from(f.node, loop.iter, lambda e: isinstance(e, ast.Name) and e.id in {g_[0] for g_ in guarded})
            bad = [unparse(v)[:90] for nm, v, st in guarded if not _keeps_order_from(f.node, v, is_source)]
            # the ordered definition must still be the live one when the loop starts
            g = sh.g
            loop_nodes = g.nodes_for(loop)
            for nm, v, st in guarded:
                mine = set(g.nodes_for(st))
                others = {x for name, v2, st2 in name_stores(f.node) if name == nm and st2 is not st for x in g.nodes_for(st2)}
                after = g.reachable([b for a in mine for b, lab in g.succ[a] if lab != "exc"], edge_ok=no_exc)
                killers = [o for o in others if o in after and set(g.reachable([o], edge_ok=no_exc)) & set(loop_nodes)]
                if killers:
                    bad.append(f"{nm} (ordered definition overwritten by `{unparse(g.nodes[killers[0]].stmt)[:60]}` before the loop)")
            ctx.check(ok_iter and not bad, f.key + ":recorded-order-honoured",
                      (f"`{bad[0]}` does not start with the keys of `{m.param}.{oa}` in their recorded order" if bad else
                       f"the SET loop iterates `{unparse(loop.iter)[:60]}`, which does not keep the order of the prepared column list")
                      + ": the assignments of an ordered on_duplicate_key_update([...]) are rendered in another order, and MySQL evaluates "
                        "them left to right",
                      f"{m.param}.{oa} -> prefix of the rendered column order", loc_of(f, guarded[0][2]))
        # constructor
        for c, vn in post_values_clause_classes(ctx):
            if os.path.dirname(c.module.relpath) != f"dialects/{m.dialect}" or oa not in dict(_traverse_table(ctx, c)):
                continue
            init = ix.resolve_method(c, "__init__")
            ctx.require(init is not None, f"{c.key} has no __init__")
            stores = [(node, st) for tgt, node, st in attr_stores(init.node) if tgt == f"self.{oa}" and isinstance(st, ast.Assign)]
            ctx.require(stores, f"{init.key} never stores self.{oa}")
            pm = init.module.parents()
            good = False
            why = ""
            for node, st in stores:
                atoms = set()
                for t, pol in lexical_guards(pm, st, stop=init.node):
                    atoms |= set(test_atoms(t, pol))
                params = [p for p in init.params if p != "self"]
                src = [p for p in params if any(pp and txt.startswith(f"isinstance({p},") and "list" in txt for txt, pp in atoms)]
                if not src:
                    why = f"`{unparse(st)[:70]}` is not guarded by isinstance(<argument>, list)"
                    continue
                if _keeps_order_from(init.node, st.value, lambda e: isinstance(e, ast.Name) and e.id == src[0]):
                    good = True
                else:
                    why = f"`{unparse(st.value)[:70]}` does not keep the order of `{src[0]}`"
            n += 1
            ctx.check(good, init.key + ":order-of-list-argument-recorded",
                      why + ": the order the caller gave with a list of 2-tuples is lost before compilation",
                      f"self.{oa} = [key for key, value in <list argument>]", init.loc)
    ctx.require(n, "no upsert clause records a parameter ordering any more (dp_string_list attribute)")


# ---------------------------------------------------------------------- C56-R7
def _per_row_attrs(ctx) -> Dict[str, Set[str]]:
    """{dialect: expression attributes of its DO UPDATE-like clause class that are NOT part of the conflict target}:
    the SET dictionary and (PostgreSQL / SQLite) the DO UPDATE WHERE.  The conflict target = the expression attributes
    every clause class of the dialect has (DO NOTHING has nothing else); a dialect with a single clause class (MySQL)
    has no target."""
    classes = post_values_clause_classes(ctx)
    by: Dict[str, List[Dict[str, str]]] = defaultdict(list)
    for c, _vn in classes:
        d = os.path.dirname(c.module.relpath)
        if d.startswith("dialects/"):
            by[d.split("/")[-1]].append(dict(_traverse_table(ctx, c)))
    out = {}
    for d, tables in by.items():
        common = set(tables[0])
        for t in tables[1:]:
            common &= set(t)
        if len(tables) == 1:
            common = set()
        per_row: Set[str] = set()
        for t in tables:
            if any(k in SET_KINDS for k in t.values()):
                per_row |= {a for a, k in t.items() if k in EXPR_KINDS and a not in common}
        if per_row:
            out[d] = per_row
    return out


@R.rule("C56-R7", floor=5, template="T-SIBLING",
        desc="every rendering of a part of an upsert clause that is evaluated once per conflicting row (SET values, DO UPDATE "
             "WHERE) passes is_upsert_set=True to self.process (as a keyword, or through the ** dictionary however it is built)")
def r7(ctx):
    per_row = _per_row_attrs(ctx)
    ctx.require(len(per_row) >= 3, f"expected per-row clause parts in >= 3 dialects, found {sorted(per_row)}")
    seen: Dict[str, Set[str]] = defaultdict(set)
    for m in _family(ctx):
        f = m.f
        by_attr: Dict[str, List[ast.Call]] = defaultdict(list)
        for c, r in m.process_calls():
            for a in r & per_row.get(m.dialect, set()):
                by_attr[a].append(c)
        for a, calls in sorted(by_attr.items()):
            seen[m.dialect].add(a)
            bad = [c for c in calls if not _is_const(_kw_value(f.node, c, "is_upsert_set"), True)]
            what = "SET values" if m.attrs.get(a) in SET_KINDS else "DO UPDATE ... WHERE"
            ctx.check(not bad, f"{f.key}:per-row-part-flagged[{a}]",
                      f"{len(bad)} of {len(calls)} rendering(s) of `{m.param}.{a}` ({what}) do not pass is_upsert_set=True "
                      f"(`{unparse(bad[0])[:90] if bad else ''}`): a bindparam() there takes its value from each parameter set, but the "
                      f"compiler only notices that (has_upsert_bound_parameters -> one statement per row) for parts rendered with the flag; "
                      f"an executemany INSERT .. ON CONFLICT/DUPLICATE KEY .. RETURNING is then sent as one multi-row statement and "
                      f"every row of the batch is judged / updated with the FIRST parameter set's value",
                      f"{len(calls)} rendering(s) pass is_upsert_set=True", loc_of(f, (bad or calls)[0]))
    for d, attrs in sorted(per_row.items()):
        ctx.require(attrs <= seen[d], f"dialects/{d}: per-row clause parts {sorted(attrs - seen[d])} are not rendered by self.process(...) in any family member")


# ---------------------------------------------------------------------- self-test battery
PG = "dialects/postgresql/base.py"
SL = "dialects/sqlite/base.py"
MY = "dialects/mysql/base.py"
MYD = "dialects/mysql/dml.py"
PGD = "dialects/postgresql/dml.py"
SLD = "dialects/sqlite/dml.py"

_PG_COERCE = (
    "            assert not coercions._is_literal(value)\n"
    "            if (\n"
    "                isinstance(value, elements.BindParameter)\n"
    "                and value.type._isnull\n"
    "            ):\n"
    "                value = value._with_binary_element_type(c.type)\n"
)
# R1
R.mutant("pg-set-skips-primary-key-columns", PG,
         sub(_PG_COERCE, "            if c.primary_key:\n                continue\n" + _PG_COERCE), "C56-R1")
_SL_RESIDUAL = (
    "        if set_parameters:\n"
    "            util.warn(\n"
    "                \"Additional column names not matching \"\n"
    "                \"any column keys in table '%s': %s\"\n"
    "                % (\n"
    "                    self.current_executable.table.name,\n"
    "                    (\", \".join(\"'%s'\" % c for c in set_parameters)),\n"
    "                )\n"
    "            )\n"
    "            for k, v in set_parameters.items():\n"
    "                key_text = (\n"
    "                    self.preparer.quote(k)\n"
    "                    if isinstance(k, str)\n"
    "                    else self.process(k, **set_kw)\n"
    "                )\n"
    "                value_text = self.process(\n"
    "                    coercions.expect(roles.ExpressionElementRole, v),\n"
    "                    is_upsert_set=True,\n"
    "                    **set_kw,\n"
    "                )\n"
    "                action_set_ops.append(\"%s = %s\" % (key_text, value_text))\n"
)
R.mutant("sqlite-residual-keys-dropped-silently", SL, sub(_SL_RESIDUAL, ""), "C56-R1")
R.mutant("benign-sqlite-residual-rendered-without-warning", SL,
         sub("        if set_parameters:\n            util.warn(\n", "        if set_parameters:\n            str(\n"), None)
R.mutant("mysql-unmatched-keys-not-warned", MY,
         sub("        if non_matching:\n            util.warn(\n", "        if non_matching:\n            str(\n"), "C56-R1")
R.mutant("mysql-set-skips-null-values", MY,
         sub("            val = visitors.replacement_traverse(val, {}, replace)\n",
             "            val = visitors.replacement_traverse(val, {}, replace)\n            if isinstance(val, elements.Null):\n                continue\n"),
         "C56-R1")
R.mutant("pg-returns-first-assignment-only", PG,
         sub("        action_text = \", \".join(action_set_ops)\n        if clause.update_whereclause is not None:\n            where_kw = dict(kw)\n            where_kw.update(\n                include_table=True, use_schema=False, is_upsert_set=True\n            )\n            action_text += \" WHERE %s\" % self.process(\n                clause.update_whereclause, **where_kw\n            )\n\n        return \"ON CONFLICT %s DO UPDATE SET %s\" % (target_text, action_text)\n\n    def update_from_clause(",
             "        action_text = \", \".join(action_set_ops)\n        first_text = value_text\n        if clause.update_whereclause is not None:\n            where_kw = dict(kw)\n            where_kw.update(\n                include_table=True, use_schema=False, is_upsert_set=True\n            )\n            action_text += \" WHERE %s\" % self.process(\n                clause.update_whereclause, **where_kw\n            )\n\n        return \"ON CONFLICT %s DO UPDATE SET %s\" % (target_text, first_text)\n\n    def update_from_clause("),
         "C56-R1")
# R2
R.mutant("sqlite-target-rendered-from-key", SL,
         sub("            key_text = self.preparer.quote(c.name)\n            action_set_ops.append(\"%s = %s\" % (key_text, value_text))\n\n        # check for names that don't match columns\n        if set_parameters:\n            util.warn(\n                \"Additional column names not matching \"\n                \"any column keys in table '%s': %s\"\n                % (\n                    self.current_executable.table.name,\n                    (\", \".join(\"'%s'\" % c for c in set_parameters)),\n                )\n            )\n            for k, v in set_parameters.items():\n                key_text = (\n                    self.preparer.quote(k)\n                    if isinstance(k, str)\n                    else self.process(k, **set_kw)",
             "            key_text = self.preparer.quote(c.key)\n            action_set_ops.append(\"%s = %s\" % (key_text, value_text))\n\n        # check for names that don't match columns\n        if set_parameters:\n            util.warn(\n                \"Additional column names not matching \"\n                \"any column keys in table '%s': %s\"\n                % (\n                    self.current_executable.table.name,\n                    (\", \".join(\"'%s'\" % c for c in set_parameters)),\n                )\n            )\n            for k, v in set_parameters.items():\n                key_text = (\n                    self.preparer.quote(k)\n                    if isinstance(k, str)\n                    else self.process(k, **set_kw)"),
         "C56-R2")
R.mutant("mysql-lookup-by-name", MY,
         sub("            val = on_duplicate_update[column.key]\n", "            val = on_duplicate_update[column.name]\n"), "C56-R2")
R.mutant("pg-untyped-bind-not-coerced", PG, sub(_PG_COERCE, "            assert not coercions._is_literal(value)\n"), "C56-R2")
R.mutant("pg-coercion-guard-inverted", PG,
         sub("                isinstance(value, elements.BindParameter)\n                and value.type._isnull\n            ):\n                value = value._with_binary_element_type(c.type)\n\n            value_text = self.process(\n                value.self_group(), is_upsert_set=True, **set_kw\n            )\n\n            key_text = self.preparer.quote(c.name)\n            action_set_ops.append(\"%s = %s\" % (key_text, value_text))\n\n        # check for names that don't match columns\n        if set_parameters:\n            util.warn(\n                \"Additional column names not matching \"\n                \"any column keys in table '%s': %s\"\n                % (\n                    self.current_executable.table.name,\n                    (\", \".join(\"'%s'\" % c for c in set_parameters)),\n                )\n            )\n            for k, v in set_parameters.items():\n                key_text = (\n                    self.preparer.quote(k)\n                    if isinstance(k, str)\n                    else self.process(k, use_schema=False)",
             "                isinstance(value, elements.BindParameter)\n                and not value.type._isnull\n            ):\n                value = value._with_binary_element_type(c.type)\n\n            value_text = self.process(\n                value.self_group(), is_upsert_set=True, **set_kw\n            )\n\n            key_text = self.preparer.quote(c.name)\n            action_set_ops.append(\"%s = %s\" % (key_text, value_text))\n\n        # check for names that don't match columns\n        if set_parameters:\n            util.warn(\n                \"Additional column names not matching \"\n                \"any column keys in table '%s': %s\"\n                % (\n                    self.current_executable.table.name,\n                    (\", \".join(\"'%s'\" % c for c in set_parameters)),\n                )\n            )\n            for k, v in set_parameters.items():\n                key_text = (\n                    self.preparer.quote(k)\n                    if isinstance(k, str)\n                    else self.process(k, use_schema=False)"),
         "C56-R2")
R.mutant("mysql-coercion-uses-own-type", MY,
         sub("                    return element._with_binary_element_type(column.type)\n", "                    return element._with_binary_element_type(element.type)\n"), "C56-R2")
# R3
R.mutant("pg-set-values-drop-kw", PG,
         sub("        set_kw = dict(kw)\n        set_kw.update(use_schema=False)\n        for c in cols:\n            col_key = c.key\n\n            if col_key in set_parameters:\n                value = set_parameters.pop(col_key)\n            elif c in set_parameters:\n                value = set_parameters.pop(c)\n            else:\n                continue\n\n            assert",
             "        set_kw = dict(use_schema=False)\n        for c in cols:\n            col_key = c.key\n\n            if col_key in set_parameters:\n                value = set_parameters.pop(col_key)\n            elif c in set_parameters:\n                value = set_parameters.pop(c)\n            else:\n                continue\n\n            assert"),
         "C56-R3")
R.mutant("sqlite-update-where-drops-kw", SL,
         sub("            where_kw = dict(kw)\n            where_kw.update(\n                include_table=True, use_schema=False, is_upsert_set=True\n            )\n            action_text += \" WHERE %s\" % self.process(\n                clause.update_whereclause, **where_kw\n            )\n\n        return \"ON CONFLICT %s DO UPDATE SET %s\" % (target_text, action_text)\n\n    def visit_bitwise_xor_op_binary",
             "            where_kw = {}\n            where_kw.update(\n                include_table=True, use_schema=False, is_upsert_set=True\n            )\n            action_text += \" WHERE %s\" % self.process(\n                clause.update_whereclause, **where_kw\n            )\n\n        return \"ON CONFLICT %s DO UPDATE SET %s\" % (target_text, action_text)\n\n    def visit_bitwise_xor_op_binary"),
         "C56-R3")
R.mutant("pg-do-nothing-target-without-kw", PG,
         sub("    def visit_on_conflict_do_nothing(self, on_conflict, **kw):\n        target_text = self._on_conflict_target(on_conflict, **kw)\n\n        if target_text:\n            return \"ON CONFLICT %s DO NOTHING\" % target_text\n        else:\n            return \"ON CONFLICT DO NOTHING\"\n\n    def visit_on_conflict_do_update(self, on_conflict, **kw):\n        clause = on_conflict\n\n        target_text = self._on_conflict_target(on_conflict, **kw)\n\n        action_set_ops = []\n\n        set_parameters = dict(clause.update_values_to_set)\n        # create a list of column assignment clauses as tuples\n\n        insert_statement = self.stack[-1][\"selectable\"]\n        cols = insert_statement.table.c\n        set_kw = dict(kw)\n        set_kw.update(use_schema=False)\n        for c in cols:\n            col_key = c.key\n\n            if col_key in set_parameters:\n                value = set_parameters.pop(col_key)\n            elif c in set_parameters:\n                value = set_parameters.pop(c)\n            else:\n                continue\n\n            assert",
             "    def visit_on_conflict_do_nothing(self, on_conflict, **kw):\n        target_text = self._on_conflict_target(on_conflict)\n\n        if target_text:\n            return \"ON CONFLICT %s DO NOTHING\" % target_text\n        else:\n            return \"ON CONFLICT DO NOTHING\"\n\n    def visit_on_conflict_do_update(self, on_conflict, **kw):\n        clause = on_conflict\n\n        target_text = self._on_conflict_target(on_conflict, **kw)\n\n        action_set_ops = []\n\n        set_parameters = dict(clause.update_values_to_set)\n        # create a list of column assignment clauses as tuples\n\n        insert_statement = self.stack[-1][\"selectable\"]\n        cols = insert_statement.table.c\n        set_kw = dict(kw)\n        set_kw.update(use_schema=False)\n        for c in cols:\n            col_key = c.key\n\n            if col_key in set_parameters:\n                value = set_parameters.pop(col_key)\n            elif c in set_parameters:\n                value = set_parameters.pop(c)\n            else:\n                continue\n\n            assert"),
         "C56-R3")
# R4
R.mutant("sqlite-target-where-bound", SL,
         sub("                whereclause_kw.update(\n                    include_table=False,\n                    use_schema=False,\n                    literal_execute=True,\n                )\n",
             "                whereclause_kw.update(\n                    include_table=False,\n                    use_schema=False,\n                )\n"), "C56-R4")
R.mutant("pg-target-columns-qualified", PG,
         sub("            element_kw = dict(kw)\n            element_kw.update(include_table=False, use_schema=False)\n",
             "            element_kw = dict(kw)\n            element_kw.update(use_schema=False)\n"),
         "C56-R4")
R.mutant("sqlite-excluded-alias-renamed", SLD, sub('return alias(self.table, name="excluded").columns', 'return alias(self.table, name="inserted").columns'), "C56-R4")
R.mutant("pg-excluded-alias-renamed", PGD, sub('return alias(self.table, name="excluded").columns', 'return alias(self.table, name="new").columns'), "C56-R4")
# R5
R.mutant("mysql-inserted-alias-not-memoized", MYD,
         sub("    @util.memoized_property\n    def inserted_alias(self) -> NamedFromClause:", "    @property\n    def inserted_alias(self) -> NamedFromClause:"), "C56-R5")
R.mutant("mysql-clause-gets-fresh-alias", MYD,
         sub("        return self.ext(OnDuplicateClause(self.inserted_alias, values))", "        return self.ext(OnDuplicateClause(alias(self.table, name=\"inserted\"), values))"), "C56-R5")
R.mutant("mysql-inserted-namespace-fresh-alias", MYD,
         sub("        return self.inserted_alias.columns\n", "        return alias(self.table, name=\"inserted\").columns\n"), "C56-R5")
# R6
R.mutant("mysql-order-ignored", MY,
         sub("        else:\n            cols = list(statement.table.c)\n\n        clauses = []\n", "        cols = list(statement.table.c)\n\n        clauses = []\n"), "C56-R6")
R.mutant("mysql-order-sorted", MY,
         sub("            cols = [\n                statement.table.c[key]\n                for key in parameter_ordering\n",
             "            cols = [\n                statement.table.c[key]\n                for key in sorted(parameter_ordering)\n"), "C56-R6")
R.mutant("mysql-ordered-keys-after-table-columns", MY,
         sub("            ] + [c for c in statement.table.c if c.key not in ordered_keys]\n", "            ]\n            cols = [c for c in statement.table.c if c.key not in ordered_keys] + cols\n"), "C56-R6")
R.mutant("mysql-ctor-order-from-dict-keys", MYD,
         sub("            self._parameter_ordering = [key for key, value in update]\n            update = dict(update)\n",
             "            update = dict(update)\n            self._parameter_ordering = sorted(update)\n"), "C56-R6")
# benign refactors
R.mutant("benign-pg-rename-locals", PG,
         chain(sub("action_set_ops", "assignments", count=4), sub("set_parameters", "pending", count=8)), None)
R.mutant("benign-sqlite-kw-dict-literal", SL,
         sub("        set_kw = dict(kw)\n        set_kw.update(use_schema=False)\n        for c in cols:\n            col_key = c.key\n\n            if col_key in set_parameters:\n                value = set_parameters.pop(col_key)\n            elif c in set_parameters:\n                value = set_parameters.pop(c)\n            else:\n                continue\n\n            if (",
             "        set_kw = {**kw, \"use_schema\": False}\n        for c in cols:\n            if c.key in set_parameters:\n                value = set_parameters.pop(c.key)\n            elif c in set_parameters:\n                value = set_parameters.pop(c)\n            else:\n                continue\n\n            if ("),
         None)
R.mutant("benign-sqlite-do-update-extracted-helper", SL,
         sub("    def visit_on_conflict_do_update(self, on_conflict, **kw):\n        clause = on_conflict\n",
             "    def visit_on_conflict_do_update(self, on_conflict, **kw):\n        return self._render_do_update(on_conflict, **kw)\n\n"
             "    def _render_do_update(self, on_conflict, **kw):\n        clause = on_conflict\n"), None)
R.mutant("benign-mysql-debug-log-and-rename", MY,
         chain(sub("on_duplicate_update", "update_by_key", count=4),
               sub("            name_text = self.preparer.quote(column.name)\n            clauses.append(\"%s = %s\" % (name_text, value_text))\n",
                   "            target = self.preparer.quote(column.name)\n            clauses.append(f\"{target} = {value_text}\")\n")), None)
R.mutant("benign-mysql-ctor-reordered", MYD,
         sub("            self._parameter_ordering = [key for key, value in update]\n            update = dict(update)\n",
             "            ordering = [k for k, _ in update]\n            update = dict(update)\n            self._parameter_ordering = list(ordering)\n"), None)
R.mutant('benign-rfI_16-sqlite-upsert', SL,
         sub('        return self._generate_generic_binary(binary, " NOT REGEXP ", **kw)\n'
             '\n'
             '    def _on_conflict_target(self, clause, **kw):\n'
             '        if clause.inferred_target_elements is not None:\n'
             '            element_kw = dict(kw)\n'
             '            element_kw.update(\n'
             '                include_table=False, use_schema=False, literal_execute=True\n'
             '            )\n'
             '            target_text = "(%s)" % ", ".join(\n'
             '                (\n'
             '                    self.preparer.quote(c)\n'
             '                    if isinstance(c, str)\n'
             '                    else self.process(c, **element_kw)\n'
             '                )\n'
             '                for c in clause.inferred_target_elements\n'
             '            )\n'
             '            if clause.inferred_target_whereclause is not None:\n'
             '                whereclause_kw = dict(kw)\n'
             '                whereclause_kw.update(\n'
             '                    include_table=False,\n'
             '                    use_schema=False,\n'
             '                    literal_execute=True,\n'
             '                )\n'
             '                target_text += " WHERE %s" % self.process(\n'
             '                    clause.inferred_target_whereclause,\n'
             '                    **whereclause_kw,\n'
             '                )\n'
             '\n'
             '        else:\n'
             '            target_text = ""\n',
        '        return self._generate_generic_binary(binary, " NOT REGEXP ", **kw)\n'
             '\n'
             '    def _on_conflict_target(self, clause, **kw):\n'
             '        if clause.inferred_target_elements is None:\n'
             '            # ON CONFLICT with no conflict target\n'
             '            return ""\n'
             '\n'
             '        element_kw = dict(kw)\n'
             '        element_kw.update(\n'
             '            include_table=False, use_schema=False, literal_execute=True\n'
             '        )\n'
             '        target_elements = []\n'
             '        for c in clause.inferred_target_elements:\n'
             '            if isinstance(c, str):\n'
             '                target_elements.append(self.preparer.quote(c))\n'
             '            else:\n'
             '                target_elements.append(self.process(c, **element_kw))\n'
             '        target_text = "(%s)" % ", ".join(target_elements)\n'
             '\n'
             '        if clause.inferred_target_whereclause is not None:\n'
             '            whereclause_kw = dict(kw)\n'
             '            whereclause_kw.update(\n'
             '                include_table=False,\n'
             '                use_schema=False,\n'
             '                literal_execute=True,\n'
             '            )\n'
             '            target_text += " WHERE %s" % self.process(\n'
             '                clause.inferred_target_whereclause,\n'
             '                **whereclause_kw,\n'
             '            )\n'), None)
R.mutant('benign-rfI_17-pg-quote-alias-fstring', PG, chain(
    sub('        for c in cols:\n'
             '            col_key = c.key\n'
             '\n'
             '            if col_key in set_parameters:\n'
             '                value = set_parameters.pop(col_key)\n'
             '            elif c in set_parameters:\n'
             '                value = set_parameters.pop(c)\n',
        '        quote = self.preparer.quote\n'
             '        for column in cols:\n'
             '            col_key = column.key\n'
             '\n'
             '            # parameters may be keyed by column key or by Column object\n'
             '            if col_key in set_parameters:\n'
             '                value = set_parameters.pop(col_key)\n'
             '            elif column in set_parameters:\n'
             '                value = set_parameters.pop(column)\n'),
    sub('                value = value._with_binary_element_type(c.type)\n'
             '\n'
             '            value_text = self.process(\n'
             '                value.self_group(), is_upsert_set=True, **set_kw\n'
             '            )\n'
             '\n'
             '            key_text = self.preparer.quote(c.name)\n'
             '            action_set_ops.append("%s = %s" % (key_text, value_text))\n',
        '                value = value._with_binary_element_type(column.type)\n'
             '\n'
             '            value_text = self.process(\n'
             '                value.self_group(), is_upsert_set=True, **set_kw\n'
             '            )\n'
             '\n'
             '            key_text = quote(column.name)\n'
             '            action_set_ops.append(f"{key_text} = {value_text}")\n'),
    sub('                )\n'
             '            )\n'
             '            for k, v in set_parameters.items():\n'
             '                key_text = (\n'
             '                    self.preparer.quote(k)\n'
             '                    if isinstance(k, str)\n'
             '                    else self.process(k, use_schema=False)\n'
             '                )\n'
             '                value_text = self.process(\n'
             '                    coercions.expect(roles.ExpressionElementRole, v),\n'
             '                    is_upsert_set=True,\n'
             '                    **set_kw,\n'
             '                )\n'
             '                action_set_ops.append("%s = %s" % (key_text, value_text))\n',
        '                )\n'
             '            )\n'
             '            for k, v in set_parameters.items():\n'
             '                if isinstance(k, str):\n'
             '                    key_text = quote(k)\n'
             '                else:\n'
             '                    key_text = self.process(k, use_schema=False)\n'
             '                value_text = self.process(\n'
             '                    coercions.expect(roles.ExpressionElementRole, v),\n'
             '                    is_upsert_set=True,\n'
             '                    **set_kw,\n'
             '                )\n'
             '                action_set_ops.append(f"{key_text} = {value_text}")\n')), None)
R.mutant('benign-rfI_18-mysql-loop-with-continue', MY, chain(
    sub('        for column in (col for col in cols if col.key in on_duplicate_update):\n',
        '        for column in cols:\n'
             '            if column.key not in on_duplicate_update:\n'
             '                continue\n'
             '\n'),
    sub('        non_matching = set(on_duplicate_update) - {c.key for c in cols}\n',
        '        table_col_keys = {c.key for c in cols}\n'
             '        non_matching = set(on_duplicate_update).difference(table_col_keys)\n'),
    sub('                )\n'
             '            )\n'
             '\n'
             '        if requires_mysql8_alias:\n'
             '            return (\n'
             '                f"AS {_on_dup_alias_name} "\n'
             '                f"ON DUPLICATE KEY UPDATE {\', \'.join(clauses)}"\n'
             '            )\n'
             '        else:\n'
             '            return f"ON DUPLICATE KEY UPDATE {\', \'.join(clauses)}"\n',
        '                )\n'
             '            )\n'
             '\n'
             '        update_text = f"ON DUPLICATE KEY UPDATE {\', \'.join(clauses)}"\n'
             '        if not requires_mysql8_alias:\n'
             '            return update_text\n'
             '\n'
             '        # MySQL 8 style; refer to the inserted row using a row alias\n'
             '        return f"AS {_on_dup_alias_name} {update_text}"\n')), None)
# further benign variants of the same families (rob-I)
R.mutant("benign-sqlite-bound-method-aliases", SL, chain(
    sub("        set_kw = dict(kw)\n        set_kw.update(use_schema=False)\n        for c in cols:\n            col_key = c.key\n\n            if col_key in set_parameters:\n                value = set_parameters.pop(col_key)\n            elif c in set_parameters:\n                value = set_parameters.pop(c)\n            else:\n                continue\n\n            if (\n                isinstance(value, elements.BindParameter)\n                and value.type._isnull\n            ):\n                value = value._with_binary_element_type(c.type)\n\n            value_text = self.process(\n                value.self_group(), is_upsert_set=True, **set_kw\n            )\n\n            key_text = self.preparer.quote(c.name)\n            action_set_ops.append(\"%s = %s\" % (key_text, value_text))\n",
        "        set_kw = {**kw, \"use_schema\": False}\n        quote_name = self.preparer.quote\n        render = self.process\n        for table_col in cols:\n            col_key = table_col.key\n\n            if col_key in set_parameters:\n                value = set_parameters.pop(col_key)\n            elif table_col in set_parameters:\n                value = set_parameters.pop(table_col)\n            else:\n                continue\n\n            if (\n                isinstance(value, elements.BindParameter)\n                and value.type._isnull\n            ):\n                value = value._with_binary_element_type(table_col.type)\n\n            value_text = render(\n                value.self_group(), is_upsert_set=True, **set_kw\n            )\n\n            action_set_ops.append(\n                f\"{quote_name(table_col.name)} = {value_text}\"\n            )\n")), None)
R.mutant("benign-sqlite-target-early-return", SL,
         sub("        if clause.inferred_target_elements is not None:\n            element_kw = dict(kw)\n            element_kw.update(\n                include_table=False, use_schema=False, literal_execute=True\n            )\n            target_text = \"(%s)\" % \", \".join(\n                (\n                    self.preparer.quote(c)\n                    if isinstance(c, str)\n                    else self.process(c, **element_kw)\n                )\n                for c in clause.inferred_target_elements\n            )\n            if clause.inferred_target_whereclause is not None:\n                whereclause_kw = dict(kw)\n                whereclause_kw.update(\n                    include_table=False,\n                    use_schema=False,\n                    literal_execute=True,\n                )\n                target_text += \" WHERE %s\" % self.process(\n                    clause.inferred_target_whereclause,\n                    **whereclause_kw,\n                )\n\n        else:\n            target_text = \"\"\n\n        return target_text\n",
             "        if clause.inferred_target_elements is None:\n            return \"\"\n\n        inline_kw = {\n            **kw,\n            \"include_table\": False,\n            \"use_schema\": False,\n            \"literal_execute\": True,\n        }\n        rendered = []\n        for c in clause.inferred_target_elements:\n            if isinstance(c, str):\n                rendered.append(self.preparer.quote(c))\n            else:\n                rendered.append(self.process(c, **inline_kw))\n        target_text = \"(%s)\" % \", \".join(rendered)\n        if clause.inferred_target_whereclause is None:\n            return target_text\n        where_text = self.process(\n            clause.inferred_target_whereclause, **inline_kw\n        )\n        return f\"{target_text} WHERE {where_text}\"\n"), None)
R.mutant("benign-mysql-kw-dict-display", MY,
         sub("        set_kw = dict(kw)\n        set_kw.update(use_schema=False, is_upsert_set=True)\n\n        # traverses through all table columns to preserve table column order\n",
             "        set_kw = {**kw, \"use_schema\": False, \"is_upsert_set\": True}\n\n        # traverses through all table columns to preserve table column order\n"), None)
# the alias forms must still be judged
R.mutant("sqlite-quote-alias-renders-column-key", SL, chain(
    sub("            key_text = self.preparer.quote(c.name)\n            action_set_ops.append(\"%s = %s\" % (key_text, value_text))\n\n        # check for names that don't match columns\n        if set_parameters:\n            util.warn(\n                \"Additional column names not matching \"\n                \"any column keys in table '%s': %s\"\n                % (\n                    self.current_executable.table.name,\n                    (\", \".join(\"'%s'\" % c for c in set_parameters)),\n                )\n            )\n            for k, v in set_parameters.items():\n                key_text = (\n                    self.preparer.quote(k)\n                    if isinstance(k, str)\n                    else self.process(k, **set_kw)\n                )\n",
        "            quote = self.preparer.quote\n            key_text = quote(c.key)\n            action_set_ops.append(\"%s = %s\" % (key_text, value_text))\n\n        # check for names that don't match columns\n        if set_parameters:\n            util.warn(\n                \"Additional column names not matching \"\n                \"any column keys in table '%s': %s\"\n                % (\n                    self.current_executable.table.name,\n                    (\", \".join(\"'%s'\" % c for c in set_parameters)),\n                )\n            )\n            for k, v in set_parameters.items():\n                key_text = (\n                    self.preparer.quote(k)\n                    if isinstance(k, str)\n                    else self.process(k, **set_kw)\n                )\n")), "C56-R2")
R.mutant("sqlite-process-alias-drops-kw", SL,
         sub("            value_text = self.process(\n                value.self_group(), is_upsert_set=True, **set_kw\n            )\n\n            key_text = self.preparer.quote(c.name)\n            action_set_ops.append(\"%s = %s\" % (key_text, value_text))\n\n        # check for names that don't match columns\n        if set_parameters:\n            util.warn(\n                \"Additional column names not matching \"\n                \"any column keys in table '%s': %s\"\n                % (\n                    self.current_executable.table.name,\n                    (\", \".join(\"'%s'\" % c for c in set_parameters)),\n                )\n            )\n            for k, v in set_parameters.items():\n                key_text = (\n                    self.preparer.quote(k)\n                    if isinstance(k, str)\n                    else self.process(k, **set_kw)\n                )\n",
             "            render = self.process\n            value_text = render(\n                value.self_group(), is_upsert_set=True, use_schema=False\n            )\n\n            key_text = self.preparer.quote(c.name)\n            action_set_ops.append(\"%s = %s\" % (key_text, value_text))\n\n        # check for names that don't match columns\n        if set_parameters:\n            util.warn(\n                \"Additional column names not matching \"\n                \"any column keys in table '%s': %s\"\n                % (\n                    self.current_executable.table.name,\n                    (\", \".join(\"'%s'\" % c for c in set_parameters)),\n                )\n            )\n            for k, v in set_parameters.items():\n                key_text = (\n                    self.preparer.quote(k)\n                    if isinstance(k, str)\n                    else self.process(k, **set_kw)\n                )\n"), "C56-R3")

# ---- str2-x (round-2 seeds): R2 (b) is a PATH clause -- every lookup of the column loop passes the coercion decision
_SL_LOOKUP_COERCE = (
    "            if col_key in set_parameters:\n"
    "                value = set_parameters.pop(col_key)\n"
    "            elif c in set_parameters:\n"
    "                value = set_parameters.pop(c)\n"
    "            else:\n"
    "                continue\n"
    "\n"
    "            if (\n"
    "                isinstance(value, elements.BindParameter)\n"
    "                and value.type._isnull\n"
    "            ):\n"
    "                value = value._with_binary_element_type(c.type)\n"
    "\n"
    "            value_text = self.process(\n"
    "                value.self_group(), is_upsert_set=True, **set_kw\n"
    "            )\n"
    "\n"
    "            key_text = self.preparer.quote(c.name)\n"
    "            action_set_ops.append(\"%s = %s\" % (key_text, value_text))\n"
    "\n"
    "        # check for names that don't match columns\n"
    "        if set_parameters:\n"
    "            util.warn(\n"
    "                \"Additional column names not matching \"\n"
    "                \"any column keys in table '%s': %s\"\n"
    "                % (\n"
    "                    self.current_executable.table.name,\n"
    "                    (\", \".join(\"'%s'\" % c for c in set_parameters)),\n"
    "                )\n"
    "            )\n"
    "            for k, v in set_parameters.items():\n"
    "                key_text = (\n"
    "                    self.preparer.quote(k)\n"
    "                    if isinstance(k, str)\n"
    "                    else self.process(k, **set_kw)\n"
)
_PG_LOOKUP_COERCE = (
    "            if col_key in set_parameters:\n"
    "                value = set_parameters.pop(col_key)\n"
    "            elif c in set_parameters:\n"
    "                value = set_parameters.pop(c)\n"
    "            else:\n"
    "                continue\n"
    "\n"
    "            assert not coercions._is_literal(value)\n"
    "            if (\n"
    "                isinstance(value, elements.BindParameter)\n"
    "                and value.type._isnull\n"
    "            ):\n"
    "                value = value._with_binary_element_type(c.type)\n"
)


def _sl(new_head: str):
    """replace the lookup + coercion part of SQLiteCompiler.visit_on_conflict_do_update (the tail of the constant only
    makes the text unique against the PostgreSQL / other copies)"""
    old_head = _SL_LOOKUP_COERCE.split("            value_text = self.process(\n")[0]
    assert _SL_LOOKUP_COERCE.startswith(old_head)
    return sub(_SL_LOOKUP_COERCE, new_head + _SL_LOOKUP_COERCE[len(old_head):])


R.mutant("seed-sqlite-coercion-only-for-string-keyed-lookup", SL, _sl(
    "            if col_key in set_parameters:\n"
    "                value = set_parameters.pop(col_key)\n"
    "                if (\n"
    "                    isinstance(value, elements.BindParameter)\n"
    "                    and value.type._isnull\n"
    "                ):\n"
    "                    value = value._with_binary_element_type(c.type)\n"
    "            elif c in set_parameters:\n"
    "                value = set_parameters.pop(c)\n"
    "            else:\n"
    "                continue\n"
    "\n"), "C56-R2")
R.mutant("pg-coercion-narrowed-by-named-lookup-condition", PG, sub(
    _PG_LOOKUP_COERCE,
    "            by_key = col_key in set_parameters\n"
    "            if by_key:\n"
    "                value = set_parameters.pop(col_key)\n"
    "            elif c in set_parameters:\n"
    "                value = set_parameters.pop(c)\n"
    "            else:\n"
    "                continue\n"
    "\n"
    "            assert not coercions._is_literal(value)\n"
    "            if (\n"
    "                by_key\n"
    "                and isinstance(value, elements.BindParameter)\n"
    "                and value.type._isnull\n"
    "            ):\n"
    "                value = value._with_binary_element_type(c.type)\n"), "C56-R2")
R.mutant("sqlite-extracted-coercion-helper-called-for-one-lookup-only", SL, chain(
    _sl("            if col_key in set_parameters:\n"
        "                value = self._typed_set_value(\n"
        "                    set_parameters.pop(col_key), c\n"
        "                )\n"
        "            elif c in set_parameters:\n"
        "                value = set_parameters.pop(c)\n"
        "            else:\n"
        "                continue\n"
        "\n"),
    sub("    def visit_on_conflict_do_update(self, on_conflict, **kw):\n        clause = on_conflict\n",
        "    def _typed_set_value(self, value, column):\n"
        "        if isinstance(value, elements.BindParameter) and value.type._isnull:\n"
        "            return value._with_binary_element_type(column.type)\n"
        "        return value\n\n"
        "    def visit_on_conflict_do_update(self, on_conflict, **kw):\n        clause = on_conflict\n")), "C56-R2")
R.mutant("mysql-replacement-only-for-plain-binds", MY, sub(
    "            val = visitors.replacement_traverse(val, {}, replace)\n",
    "            if isinstance(val, elements.BindParameter):\n"
    "                val = visitors.replacement_traverse(val, {}, replace)\n"), "C56-R2")
# behaviour-preserving variants of the same code: all lookups still pass the decision
R.mutant("benign-sqlite-coercion-in-both-lookup-branches", SL, _sl(
    "            if col_key in set_parameters:\n"
    "                value = set_parameters.pop(col_key)\n"
    "                if (\n"
    "                    isinstance(value, elements.BindParameter)\n"
    "                    and value.type._isnull\n"
    "                ):\n"
    "                    value = value._with_binary_element_type(c.type)\n"
    "            elif c in set_parameters:\n"
    "                value = set_parameters.pop(c)\n"
    "                if (\n"
    "                    isinstance(value, elements.BindParameter)\n"
    "                    and value.type._isnull\n"
    "                ):\n"
    "                    value = value._with_binary_element_type(c.type)\n"
    "            else:\n"
    "                continue\n"
    "\n"), None)
R.mutant("benign-sqlite-coercion-extracted-helper-early-return", SL, chain(
    _sl("            if col_key in set_parameters:\n"
        "                value = set_parameters.pop(col_key)\n"
        "            elif c in set_parameters:\n"
        "                value = set_parameters.pop(c)\n"
        "            else:\n"
        "                continue\n"
        "\n"
        "            value = self._typed_set_value(value, c)\n"
        "\n"),
    sub("    def visit_on_conflict_do_update(self, on_conflict, **kw):\n        clause = on_conflict\n",
        "    def _typed_set_value(self, value, column):\n"
        "        if not isinstance(value, elements.BindParameter):\n"
        "            return value\n"
        "        if not value.type._isnull:\n"
        "            return value\n"
        "        return value._with_binary_element_type(column.type)\n\n"
        "    def visit_on_conflict_do_update(self, on_conflict, **kw):\n        clause = on_conflict\n")), None)
R.mutant("benign-pg-coercion-conditional-expression", PG, sub(
    _PG_LOOKUP_COERCE,
    "            if col_key in set_parameters:\n"
    "                value = set_parameters.pop(col_key)\n"
    "            elif c in set_parameters:\n"
    "                value = set_parameters.pop(c)\n"
    "            else:\n"
    "                continue\n"
    "\n"
    "            assert not coercions._is_literal(value)\n"
    "            value = (\n"
    "                value._with_binary_element_type(c.type)\n"
    "                if isinstance(value, elements.BindParameter)\n"
    "                and value.type._isnull\n"
    "                else value\n"
    "            )\n"), None)
R.mutant("benign-pg-coercion-named-condition-inverted-branch", PG, sub(
    _PG_LOOKUP_COERCE,
    "            if col_key in set_parameters:\n"
    "                value = set_parameters.pop(col_key)\n"
    "            elif c in set_parameters:\n"
    "                value = set_parameters.pop(c)\n"
    "            else:\n"
    "                continue\n"
    "\n"
    "            assert not coercions._is_literal(value)\n"
    "            untyped = (\n"
    "                isinstance(value, elements.BindParameter)\n"
    "                and value.type._isnull\n"
    "            )\n"
    "            if not untyped:\n"
    "                pass\n"
    "            else:\n"
    "                column_type = c.type\n"
    "                value = value._with_binary_element_type(column_type)\n"), None)
R.mutant("benign-sqlite-lookup-key-chosen-first-single-pop", SL, _sl(
    "            if col_key in set_parameters:\n"
    "                found = col_key\n"
    "            elif c in set_parameters:\n"
    "                found = c\n"
    "            else:\n"
    "                continue\n"
    "            value = set_parameters.pop(found)\n"
    "\n"
    "            if (\n"
    "                isinstance(value, elements.BindParameter)\n"
    "                and value.type._isnull\n"
    "            ):\n"
    "                value = value._with_binary_element_type(c.type)\n"
    "\n"), None)
R.mutant("benign-mysql-replacement-result-in-new-local", MY, sub(
    "            val = visitors.replacement_traverse(val, {}, replace)\n"
    "            value_text = self.process(val.self_group(), **set_kw)\n",
    "            typed_val = visitors.replacement_traverse(val, {}, replace)\n"
    "            value_text = self.process(typed_val.self_group(), **set_kw)\n"), None)

# ---- str2-x: R7 (per-row parts are flagged)
_SL_WHERE_KW = (
    "            where_kw = dict(kw)\n"
    "            where_kw.update(\n"
    "                include_table=True, use_schema=False, is_upsert_set=True\n"
    "            )\n"
    "            action_text += \" WHERE %s\" % self.process(\n"
    "                clause.update_whereclause, **where_kw\n"
    "            )\n"
    "\n"
    "        return \"ON CONFLICT %s DO UPDATE SET %s\" % (target_text, action_text)\n"
)
R.mutant("seed-sqlite-update-where-not-flagged-per-row", SL,
         sub(_SL_WHERE_KW, _SL_WHERE_KW.replace("            where_kw.update(\n                include_table=True, use_schema=False, is_upsert_set=True\n            )\n",
                                                "            where_kw.update(include_table=True, use_schema=False)\n")), "C56-R7")
R.mutant("pg-update-where-flag-false", PG,
         sub(_SL_WHERE_KW, _SL_WHERE_KW.replace("is_upsert_set=True", "is_upsert_set=False")), "C56-R7")
R.mutant("mysql-set-values-not-flagged-per-row", MY,
         sub("        set_kw.update(use_schema=False, is_upsert_set=True)\n", "        set_kw.update(use_schema=False)\n"), "C56-R7")
R.mutant("sqlite-residual-set-values-not-flagged-per-row", SL,
         sub("                    coercions.expect(roles.ExpressionElementRole, v),\n                    is_upsert_set=True,\n                    **set_kw,\n",
             "                    coercions.expect(roles.ExpressionElementRole, v),\n                    **set_kw,\n"), "C56-R7")
R.mutant("benign-sqlite-update-where-kw-dict-display-fstring", SL,
         sub(_SL_WHERE_KW,
             "            where_kw = {\n"
             "                **kw,\n"
             "                \"include_table\": True,\n"
             "                \"use_schema\": False,\n"
             "                \"is_upsert_set\": True,\n"
             "            }\n"
             "            where_text = self.process(clause.update_whereclause, **where_kw)\n"
             "            action_text = f\"{action_text} WHERE {where_text}\"\n"
             "\n"
             "        return \"ON CONFLICT %s DO UPDATE SET %s\" % (target_text, action_text)\n"), None)
R.mutant("benign-pg-update-where-flag-by-item-store-and-alias", PG,
         sub(_SL_WHERE_KW,
             "            where_kw = dict(kw, include_table=True, use_schema=False)\n"
             "            where_kw[\"is_upsert_set\"] = True\n"
             "            render = self.process\n"
             "            criteria = clause.update_whereclause\n"
             "            action_text += \" WHERE %s\" % render(criteria, **where_kw)\n"
             "\n"
             "        return \"ON CONFLICT %s DO UPDATE SET %s\" % (target_text, action_text)\n"), None)
R.mutant("benign-sqlite-update-where-extracted-helper", SL, chain(
    sub("        if clause.update_whereclause is not None:\n" + _SL_WHERE_KW,
        "        action_text += self._do_update_where(clause, **kw)\n"
        "\n"
        "        return \"ON CONFLICT %s DO UPDATE SET %s\" % (target_text, action_text)\n"),
    sub("    def visit_on_conflict_do_update(self, on_conflict, **kw):\n        clause = on_conflict\n",
        "    def _do_update_where(self, clause, **kw):\n"
        "        if clause.update_whereclause is None:\n"
        "            return \"\"\n"
        "        where_kw = dict(kw)\n"
        "        where_kw.update(\n"
        "            include_table=True, use_schema=False, is_upsert_set=True\n"
        "        )\n"
        "        return \" WHERE %s\" % self.process(\n"
        "            clause.update_whereclause, **where_kw\n"
        "        )\n\n"
        "    def visit_on_conflict_do_update(self, on_conflict, **kw):\n        clause = on_conflict\n")), None)
R.mutant("benign-pg-set-values-flag-moved-into-kw-dict", PG, chain(
    sub("        set_kw = dict(kw)\n        set_kw.update(use_schema=False)\n        for c in cols:\n            col_key = c.key\n\n            if col_key in set_parameters:\n                value = set_parameters.pop(col_key)\n            elif c in set_parameters:\n                value = set_parameters.pop(c)\n            else:\n                continue\n\n            assert",
        "        set_kw = dict(kw)\n        set_kw.update(use_schema=False, is_upsert_set=True)\n        for c in cols:\n            col_key = c.key\n\n            if col_key in set_parameters:\n                value = set_parameters.pop(col_key)\n            elif c in set_parameters:\n                value = set_parameters.pop(c)\n            else:\n                continue\n\n            assert"),
    sub("            value_text = self.process(\n                value.self_group(), is_upsert_set=True, **set_kw\n            )\n\n            key_text = self.preparer.quote(c.name)\n            action_set_ops.append(\"%s = %s\" % (key_text, value_text))\n\n        # check for names that don't match columns\n        if set_parameters:\n            util.warn(\n                \"Additional column names not matching \"\n                \"any column keys in table '%s': %s\"\n                % (\n                    self.current_executable.table.name,\n                    (\", \".join(\"'%s'\" % c for c in set_parameters)),\n                )\n            )\n            for k, v in set_parameters.items():\n                key_text = (\n                    self.preparer.quote(k)\n                    if isinstance(k, str)\n                    else self.process(k, use_schema=False)\n                )\n                value_text = self.process(\n                    coercions.expect(roles.ExpressionElementRole, v),\n                    is_upsert_set=True,\n                    **set_kw,\n",
        "            value_text = self.process(value.self_group(), **set_kw)\n\n            key_text = self.preparer.quote(c.name)\n            action_set_ops.append(\"%s = %s\" % (key_text, value_text))\n\n        # check for names that don't match columns\n        if set_parameters:\n            util.warn(\n                \"Additional column names not matching \"\n                \"any column keys in table '%s': %s\"\n                % (\n                    self.current_executable.table.name,\n                    (\", \".join(\"'%s'\" % c for c in set_parameters)),\n                )\n            )\n            for k, v in set_parameters.items():\n                key_text = (\n                    self.preparer.quote(k)\n                    if isinstance(k, str)\n                    else self.process(k, use_schema=False)\n                )\n                value_text = self.process(\n                    coercions.expect(roles.ExpressionElementRole, v),\n                    **set_kw,\n")), None)
