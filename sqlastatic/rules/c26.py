"""C26 -- The pool recovers from any fault without leaking or reusing dead connections
(exception-path obligations)."""

from __future__ import annotations

import ast

from ..astutil import attr_stores, call_name, calls_in, dotted, name_stores, test_atoms, unparse, walk_local
from ..cfg import no_exc
from ..report import Registry, sub, chain
from ._helpers_rules_c import (
    PathSense, attr_store_sites, both, call_nodes, calls_ending, calm, cut_edges, is_false, is_true,
    kw_or_pos, must_pass, own_calls as _own_calls, quiet, rcfg, test_edges,
)
from ._helpers_rob_a import normal_form, transitive_owners
from .c24 import finalize_fairy_reset
from .c25 import every_exit_hands_back, overflow_pairing

R = Registry(
    "C26",
    title="The pool recovers from any fault without leaking or reusing dead connections",
    decides=(
        "exception-path obligations of the checkout / check-in protocol: a failing get_connection() or "
        "checkout handler invalidates and checks the record in before re-raising; a disconnect on "
        "checkout invalidates the record (and the pool generation) before reconnecting and invalidates the "
        "fairy when attempts run out; get_connection() reuses a connection only after all three staleness "
        "tests and closes before reconnecting; invalidate/__connect/__close null the connection in the "
        "right order; overflow counter and reset-failure pairing (shared with C25-R2, C24-R1); "
        "Pool._invalidate_time has a single writer; the record's generation stamp (starttime) is taken "
        "before the creator is invoked, never re-taken afterwards, has two writers and shares its clock with "
        "the invalidation timestamps (C26-R7); no function of pool/base.py that is on its way to hand a record back can be "
        "left by an exception (a failing / cancelled DBAPI call, dialect call, event listener or stored callback) without "
        "handing it back: once every holder has released, the pool reports zero checked out (C26-R8 = C25-R7).  Logging "
        "calls are assumed not to raise."
    ),
    not_decided=(
        "the ledger of open/closed DBAPI connections over arbitrary fault histories; exceptions raised by "
        "user event listeners inside __close / invalidate; BaseException escaping _close_connection."
    ),
)

POOL = "pool/base.py"
EXC = lambda a, b, lab: lab == "exc"  # noqa: E731


def _nf(ctx, key, *keep, alias="dotted"):
    """The anchored function in refactoring-robust normal form (extracted helpers inlined, single-assignment
    locals resolved; see _helpers_rob_a).  `keep`: the callee names the rule recognises by name."""
    return normal_form(ctx, ctx.func(key), keep=keep, alias=alias)


def _owners(ctx, seen, table, attr):
    """T-OWN: a writer that is not listed but is a private helper all of whose callers are listed writers acts
    for them.  Answers {owner: helper} for the listed owners reached that way and the set of such helpers."""
    via, helpers = {}, set()
    for owner in seen:
        if owner in table:
            continue
        acts_for = transitive_owners(ctx.index, owner, table)
        if acts_for:
            helpers.add(owner)
            for o in acts_for:
                via.setdefault(o, owner)
    return via, helpers


def _handler_of(pm_local, node, handlers):
    """innermost handler (ast.ExceptHandler) lexically containing node."""
    best = None
    for h in handlers:
        for x in ast.walk(h):
            if x is node:
                if best is None or any(y is h for y in ast.walk(best)):
                    best = h
    return best


@R.rule("C26-R1", floor=3, template="T-PATH",
        desc="_ConnectionRecord.checkout: an exceptional exit of get_connection() passes "
             "_checkin_failed(err, _fairy_was_created=False); _checkin_failed invalidates then checks in")
def r1(ctx):
    f = _nf(ctx, f"{POOL}::_ConnectionRecord.checkout", "get_connection", "_checkin_failed")
    g = rcfg(ctx, f, strict_exc=True)
    getc = calls_ending(g, "get_connection")
    ctx.require(getc, "no get_connection() call in _ConnectionRecord.checkout")
    cf = calls_ending(g, "_checkin_failed")
    w = g.must_pass(getc, [g.raise_exit], cf, edge_ok=both(quiet(g), calm(g)), start_edge_ok=EXC) if cf else ["no _checkin_failed call"]
    ctx.check(w is None, f.key + ":get-connection-failure",
              "an exception (incl. BaseException) from get_connection() leaves checkout() without "
              "_checkin_failed(): the record taken from the pool is never returned",
              "get_connection failure -> _checkin_failed -> re-raise", f.loc, w if cf else None)
    flags = []
    for n in cf:
        for c in calls_in(g.nodes[n].stmt):
            if (call_name(c) or "").endswith("_checkin_failed"):
                flags.append(kw_or_pos(c, "_fairy_was_created", 1))
    ctx.check(bool(flags) and all(v is not None and is_false(v) for v in flags), f.key + ":unconditional-checkin",
              "_checkin_failed is not told that no fairy exists yet (_fairy_was_created=False): checkin() would "
              "treat the record as already checked in and refuse to return it",
              "_fairy_was_created=False", f.loc)
    f2 = _nf(ctx, f"{POOL}::_ConnectionRecord._checkin_failed", "invalidate", "checkin")
    g2 = ctx.cfg(f2)
    inv = call_nodes(g2, lambda nm, c: nm == "self.invalidate")
    chk = call_nodes(g2, lambda nm, c: nm == "self.checkin")
    w = must_pass(g2, [g2.entry], [g2.exit], chk, edge_ok=no_exc) if chk else ["no self.checkin()"]
    w2 = None
    for n in chk:
        w2 = w2 or g2.always_preceded(n, inv)
    fw = None
    for n in chk:
        for c in calls_in(g2.nodes[n].stmt):
            if call_name(c) == "self.checkin":
                v = kw_or_pos(c, "_fairy_was_created", 0)
                fw = v is not None and isinstance(v, ast.Name) and v.id in f2.params
    ctx.check(w is None and w2 is None and bool(fw), f2.key,
              "_checkin_failed does not invalidate the record and then check it in (forwarding _fairy_was_created)",
              "invalidate(e) -> checkin(_fairy_was_created)", f2.loc, (w if chk else None) or w2)


@R.rule("C26-R2", floor=5, template="T-PATH",
        desc="_ConnectionFairy._checkout: re-raising handlers call _checkin_failed first; after a "
             "DisconnectionError the record (and the pool when invalidate_pool) is invalidated before "
             "get_connection() is retried; exhausted attempts invalidate the fairy before raising")
def r2(ctx):
    f = _nf(ctx, f"{POOL}::_ConnectionFairy._checkout", "_checkin_failed", "get_connection", "invalidate", "_invalidate",
            "checkout")
    g = rcfg(ctx, f, strict_exc=True)
    view = g.fn
    handlers = [n for n in ast.walk(view) if isinstance(n, ast.ExceptHandler)]
    hnode = {id(n.stmt): n.id for n in g.nodes if n.kind == "handler"}
    cf = calls_ending(g, "_checkin_failed")
    raises = [n for n in g.nodes if n.kind == "stmt" and isinstance(n.stmt, ast.Raise)]
    # (a) re-raising arms
    rec_names = {n for n, v, _ in name_stores(f.node) if v is not None and (dotted(v) or "").endswith("._connection_record")}
    detached = test_edges(g, lambda t, p: p is True and t.endswith(" is None")
                          and (t[:-8] in rec_names or t[:-8].endswith("._connection_record")))
    n_arms = 0
    for h in handlers:
        mine = [r.id for r in raises if _handler_of(None, r.stmt, handlers) is h]
        hn = hnode.get(id(h))
        if hn is None:
            continue
        reach = g.reachable([hn], edge_ok=no_exc)
        mine = [r for r in mine if r in reach]
        if not mine:
            continue
        n_arms += 1
        tname = (dotted(h.type) if h.type is not None else "bare") or "?"
        w = g.must_pass([hn], mine, cf, edge_ok=both(no_exc, cut_edges(detached)))
        key = f"{f.key}:reraise[{tname.split('.')[-1]} as {h.name}]"
        ctx.check(w is None, key,
                  "this handler re-raises without _checkin_failed(): the checked-out record is neither "
                  "invalidated nor returned to the pool",
                  "handler -> _checkin_failed -> re-raise", f"{f.module.path}:{h.lineno}", w)
        # everything that escapes the handler escapes through its re-raise (no early exceptional exit
        # other than from the check-in itself)
    ctx.require(n_arms >= 2, f"only {n_arms} re-raising handler(s) in _checkout")
    # (b) disconnect arm
    disc = [h for h in handlers if h.type is not None and (dotted(h.type) or "").split(".")[-1] == "DisconnectionError"]
    ctx.require(len(disc) == 1, "no unique `except DisconnectionError` handler in _checkout")
    h = disc[0]
    hn = hnode[id(h)]
    retry = [n for n in calls_ending(g, "get_connection") if any(x is g.nodes[n].stmt for x in ast.walk(h))]
    ctx.require(retry, "the DisconnectionError handler does not retry get_connection()")
    rec_inv = call_nodes(g, lambda nm, c: nm.endswith("._connection_record.invalidate"))
    w = g.must_pass([hn], retry, rec_inv, edge_ok=no_exc) if rec_inv else ["no record.invalidate()"]
    ctx.check(w is None, f.key + ":disconnect-invalidates-record",
              "after a DisconnectionError get_connection() is retried on a record that was not invalidated "
              "(the dead DBAPI connection would be handed out again)",
              "DisconnectionError -> record.invalidate(e) -> get_connection()", f"{f.module.path}:{h.lineno}", w if rec_inv else None)
    ename = h.name
    pool_edges = test_edges(g, lambda t, p: t == f"{ename}.invalidate_pool" and p is True)
    pool_inv = call_nodes(g, lambda nm, c: nm == f"{f.params[1]}._invalidate")
    ok = bool(pool_edges) and bool(pool_inv)
    w = None
    if ok:
        w = g.must_pass([b for _, _, b in pool_edges], retry, pool_inv, edge_ok=no_exc)
    ctx.check(ok and w is None, f.key + ":disconnect-invalidates-pool",
              "under e.invalidate_pool the pool generation is not invalidated before reconnecting "
              "(other connections from before the outage stay in the pool)",
              "invalidate_pool -> pool._invalidate() -> get_connection()", f"{f.module.path}:{h.lineno}", w)
    # (c) attempts exhausted
    final = [r.id for r in raises if _handler_of(None, r.stmt, handlers) is None
             and not any(isinstance(a, (ast.While, ast.For)) and any(x is r.stmt for x in ast.walk(a)) for a in ast.walk(view) if a is not view)]
    ctx.require(final, "no terminal raise after the retry loop in _checkout")
    fin_inv = call_nodes(g, lambda nm, c: nm == "fairy.invalidate" or nm == f"{_fairy_name(f)}.invalidate")
    loops = [n.id for n in g.nodes if n.kind == "test" and isinstance(n.stmt, ast.While)]
    ctx.require(loops, "no retry loop in _checkout")
    w = g.must_pass(loops, final, fin_inv, edge_ok=no_exc)
    ctx.check(bool(fin_inv) and w is None, f.key + ":exhausted",
              "when reconnection attempts are exhausted the fairy is not invalidated before raising "
              "(the record stays checked out with a dead connection)",
              "attempts exhausted -> fairy.invalidate() -> raise", f.loc, w)


def _fairy_name(f):
    return "fairy" if "fairy" in f.params else f.params[-1]


def _attrs(node):
    return {x.attr for x in ast.walk(node) if isinstance(x, ast.Attribute)}


def _newer_than_start(test, attr):
    """Does `test` contain a comparison `<attr> > starttime` (either spelling)?"""
    for c in ast.walk(test):
        if isinstance(c, ast.Compare) and len(c.ops) == 1:
            l, r = c.left, c.comparators[0]
            if isinstance(c.ops[0], ast.Lt):
                l, r = r, l
            elif not isinstance(c.ops[0], ast.Gt):
                continue
            if attr in _attrs(l) | ({l.attr} if isinstance(l, ast.Attribute) else set()) and \
                    "starttime" in (_attrs(r) | ({r.attr} if isinstance(r, ast.Attribute) else set())) and \
                    "starttime" not in _attrs(l) and attr not in _attrs(r):
                return c
    return None


@R.rule("C26-R3", floor=6, template="T-GUARD",
        desc="get_connection: the path that reuses dbapi_connection has failed all three staleness tests; "
             "a stale connection is closed (terminate) before __connect(); "
             "_is_hard_or_soft_invalidated agrees on the invalidation tests")
def r3(ctx):
    f = _nf(ctx, f"{POOL}::_ConnectionRecord.get_connection", "__connect", "__close", alias="all")
    g = ctx.cfg(f)
    ps = PathSense(g)
    connect = call_nodes(g, lambda nm, c: nm.endswith("__connect"))
    ctx.require(connect, "no __connect() call in get_connection")
    tests = [n for n in g.nodes if n.kind == "test"]
    preds = {
        "recycle-age": lambda t: "_recycle" in _attrs(t) and "starttime" in _attrs(t),
        "pool-invalidated": lambda t: _newer_than_start(t, "_invalidate_time") is not None,
        "soft-invalidated": lambda t: _newer_than_start(t, "_soft_invalidate_time") is not None,
    }
    stale_edges = []
    for name, p in preds.items():
        ts = [n for n in tests if p(n.stmt.test)]
        key = f"{f.key}:{name}"
        if not ts:
            ctx.violation(key, f"get_connection has no `{name}` staleness test: a stale connection is reused", f.loc)
            continue
        false_edges = [(n.id, lab, b) for n in ts for b, lab in g.succ[n.id] if lab == "false"]
        stale_edges += [(n.id, lab, b) for n in ts for b, lab in g.succ[n.id] if lab == "true"]
        w = ps.witness([g.entry], [g.exit], avoid=connect, edge_ok=both(no_exc, cut_edges(false_edges)))
        ctx.check(w is None, key,
                  f"the existing connection can be returned without the `{name}` test having failed",
                  "reuse path passes the false edge of this test", f.loc, w)
    # stale -> reconnect, closing first
    w = ps.witness([b for _, _, b in stale_edges], [g.exit], avoid=connect, edge_ok=no_exc)
    ctx.check(w is None, f.key + ":stale-reconnects", "a connection found stale is returned without __connect()",
              "every stale outcome reaches __connect()", f.loc, w)
    closes = call_nodes(g, lambda nm, c: nm.endswith("__close") and is_true(kw_or_pos(c, "terminate") or ast.Constant(False)))
    gone = test_edges(g, lambda t, p: t == "self.dbapi_connection is None" and p is True)
    # paths that saw dbapi_connection is None need no close: search only paths avoiding that outcome
    w = ps.witness([g.entry], connect, avoid=closes, edge_ok=cut_edges(gone))
    ctx.check(bool(closes) and w is None, f.key + ":close-before-connect",
              "__connect() can replace a live DBAPI connection that was not closed with terminate=True (leak)",
              "__close(terminate=True) precedes __connect() unless there is no connection", f.loc, w)
    # sibling agreement
    f2 = _nf(ctx, f"{POOL}::_ConnectionRecord._is_hard_or_soft_invalidated", alias="all")
    rets = [n for n in walk_local(f2.node) if isinstance(n, ast.Return) and n.value is not None]
    ctx.require(len(rets) == 1, "_is_hard_or_soft_invalidated is not a single return expression")
    e = rets[0].value
    want = []
    for attr in ("_invalidate_time", "_soft_invalidate_time"):
        mine = None
        for n in tests:
            mine = mine or _newer_than_start(n.stmt.test, attr)
        want.append((attr, mine))
    missing = []
    disj = e.values if isinstance(e, ast.BoolOp) and isinstance(e.op, ast.Or) else [e]
    for attr, mine in want:
        if mine is None:
            continue
        if not any(_newer_than_start(d, attr) is not None and unparse(_newer_than_start(d, attr)) == unparse(mine) for d in disj):
            missing.append(attr)
    none_ok = any(test_atoms(d, True) == [("self.dbapi_connection is None", True)] for d in disj)
    ctx.check(not missing and none_ok, f2.key,
              f"_is_hard_or_soft_invalidated disagrees with get_connection (missing: {missing or 'dbapi_connection is None'})",
              "same invalidation comparisons as get_connection", f2.loc)


@R.rule("C26-R4", floor=4, template="T-PATH",
        desc="invalidate(hard): __close(terminate=True) then dbapi_connection = None; __connect nulls the "
             "connection before calling the creator; __close clears finalisers and nulls the connection; "
             "_close_connection swallows every Exception of the DBAPI close")
def r4(ctx):
    f = _nf(ctx, f"{POOL}::_ConnectionRecord.invalidate", "__close")
    g = ctx.cfg(f)
    closes = call_nodes(g, lambda nm, c: nm.endswith("__close") and is_true(kw_or_pos(c, "terminate") or ast.Constant(False)))
    nulls = [n for d, t, st in attr_stores(f.node) if d == "self.dbapi_connection" and isinstance(st, ast.Assign)
             and isinstance(st.value, ast.Constant) and st.value.value is None for n in g.nodes_for(st)]
    soft = test_edges(g, lambda t, p: t == "soft" and p is True)
    already = test_edges(g, lambda t, p: t == "self.dbapi_connection is None" and p is True)
    ps = PathSense(g)
    # (__close itself nulls the connection, checked below; a direct null store must come after it)
    w = ps.witness([g.entry], [g.exit], avoid=closes, edge_ok=both(no_exc, cut_edges(already)), init_facts=[("soft", False)])
    w2 = None
    for n in nulls:
        w2 = w2 or g.always_preceded(n, closes)
    ctx.check(bool(closes) and w is None and w2 is None, f.key,
              "a hard invalidate can return (or drop its reference to the connection) without __close(terminate=True)",
              "__close(terminate=True) [-> dbapi_connection = None]", f.loc, w or w2)
    # __connect
    fc = _nf(ctx, f"{POOL}::_ConnectionRecord.__connect", "_invoke_creator")
    gc_ = rcfg(ctx, fc)
    creator = calls_ending(gc_, "_invoke_creator")
    ctx.require(creator, "no _invoke_creator() call in __connect")
    nulls = [n for d, t, st in attr_stores(fc.node) if d == "self.dbapi_connection" and isinstance(st, ast.Assign)
             and isinstance(st.value, ast.Constant) and st.value.value is None for n in gc_.nodes_for(st)]
    w = None
    for n in creator:
        w = w or gc_.always_preceded(n, nulls)
    ctx.check(bool(nulls) and w is None, fc.key,
              "the creator can run while dbapi_connection still refers to the previous connection: a failed "
              "connect would leave the dead connection in the record",
              "dbapi_connection = None precedes the creator call", fc.loc, w)
    # __close
    fx = _nf(ctx, f"{POOL}::_ConnectionRecord.__close", "_close_connection")
    gx = ctx.cfg(fx)
    clr = call_nodes(gx, lambda nm, c: nm.endswith("finalize_callback.clear"))
    nulls = [n for d, t, st in attr_stores(fx.node) if d == "self.dbapi_connection" and isinstance(st, ast.Assign)
             and isinstance(st.value, ast.Constant) and st.value.value is None for n in gx.nodes_for(st)]
    closing = calls_ending(gx, "_close_connection")
    w = must_pass(gx, [gx.entry], [gx.exit], nulls, edge_ok=no_exc) if nulls else ["dbapi_connection is never nulled"]
    w1 = must_pass(gx, [gx.entry], [gx.exit], closing, edge_ok=no_exc) if closing else ["_close_connection never called"]
    w2 = must_pass(gx, [gx.entry], [gx.exit], clr, edge_ok=no_exc) if clr else ["finalize_callback never cleared"]
    ctx.check(w is None and w1 is None and w2 is None, fx.key,
              "__close can complete without closing the DBAPI connection, nulling it and clearing the finalisers",
              "clear finalisers, _close_connection, dbapi_connection = None on every normal path", fx.loc, w or w1 or w2)
    # Pool._close_connection
    fp = _nf(ctx, f"{POOL}::Pool._close_connection")
    gp = rcfg(ctx, fp, strict_exc=True)
    dbapi_close = calls_ending(gp, "do_close", "do_terminate")
    ctx.require(dbapi_close, "no do_close/do_terminate in Pool._close_connection")
    only_base = test_edges(gp, lambda t, p: t.replace(" ", "").startswith("isinstance(") and t.replace(" ", "").endswith(",Exception)") and p is False)
    w = None
    for n in dbapi_close:
        w = w or gp.must_pass([n], [gp.raise_exit], [], edge_ok=both(calm(gp), cut_edges(only_base)), start_edge_ok=EXC)
    ctx.check(w is None, fp.key,
              "an Exception raised by the DBAPI close/terminate escapes _close_connection (the caller would not "
              "null the connection nor continue its cleanup)",
              "Exception from close is logged and swallowed; only non-Exception BaseException propagates", fp.loc, w)


@R.rule("C26-R5", floor=6, template="T-PATH",
        desc="= C25-R2 (overflow counter released on failing create / overflowing return) and C24-R1 "
             "(reset failure => invalidate before check-in)")
def r5(ctx):
    overflow_pairing(ctx)
    finalize_fairy_reset(ctx)


@R.rule("C26-R8", floor=8, template="T-PATH",
        desc="= C25-R7: every exceptional exit of a function of pool/base.py that holds a record (given to it, or taken with "
             "_do_get()) and hands it back on its way (checkin, _checkin_failed, checkout, _finalize_fairy, "
             "_ConnectionFairy._checkout / detach / close / invalidate, Pool._return_conn) passes a hand-back of that record; "
             "faults = any BaseException out of a DBAPI / dialect call, an event listener or a stored callback")
def r8(ctx):
    every_exit_hands_back(ctx)


INVALIDATE_TIME_WRITERS = {
    f"{POOL}::Pool.__init__": "initial value 0: nothing invalidated yet",
    f"{POOL}::Pool._invalidate": "the only place that starts a new pool generation",
}


@R.rule("C26-R6", floor=2, template="T-OWN",
        desc="Pool._invalidate_time is written only by Pool._invalidate (and initialised in __init__)")
def r6(ctx):
    sites = attr_store_sites(ctx.index, "_invalidate_time")
    ctx.require(sites, "no store to _invalidate_time")
    seen = {}
    for owner, d, st, m in sites:
        seen.setdefault(owner, (d, st, m))
    via, helpers = _owners(ctx, seen, INVALIDATE_TIME_WRITERS, "_invalidate_time")
    for o, h in sorted(via.items()):
        if o not in seen:
            seen[o] = seen[h]
    for owner, (d, st, m) in sorted(seen.items()):
        if owner in helpers:
            continue
        ctx.check(owner in INVALIDATE_TIME_WRITERS, f"{owner}:_invalidate_time",
                  f"`{unparse(st).splitlines()[0]}` writes the pool invalidation timestamp outside Pool._invalidate "
                  f"(connections could be recycled or kept against the generation rule)",
                  INVALIDATE_TIME_WRITERS.get(owner, ""), f"{m.path}:{st.lineno}", nontrivial=False)
    ctx.require(f"{POOL}::Pool._invalidate" in seen, "Pool._invalidate no longer writes _invalidate_time")


STARTTIME_WRITERS = {
    f"{POOL}::_ConnectionRecord.__init__": "initial value 0: older than any invalidation (no connection yet)",
    f"{POOL}::_ConnectionRecord.__connect": "generation stamp of the DBAPI connection being created",
}


def _clock_calls(node):
    """callee names of argument-less calls into the `time` module inside `node` (the clock that is read)."""
    return {call_name(c) for c in calls_in(node)
            if not c.args and not c.keywords and (call_name(c) or "").split(".")[0] in ("time", "_time")}


@R.rule("C26-R7", floor=7, template="T-PATH/T-OWN",
        desc="generation stamp: _ConnectionRecord.starttime is written only by __init__ (0) and __connect; nothing that "
             "can (transitively) write it runs between the observation of a fault and the read of rec.starttime by "
             "Pool._invalidate; in "
             "__connect the clock is read into starttime BEFORE the creator is invoked and not again afterwards (a "
             "connect that overlaps a pool invalidation must count as older than it); starttime, "
             "Pool._invalidate_time and _soft_invalidate_time are read from the same clock")
def r7(ctx):
    ix = ctx.index
    sites = [x for x in attr_store_sites(ix, "starttime")]
    ctx.require(sites, "no store to `starttime`")
    seen = {}
    for owner, d, st, m in sites:
        seen.setdefault(owner, (d, st, m))
    via, helpers = _owners(ctx, seen, STARTTIME_WRITERS, "starttime")
    for o, h in sorted(via.items()):
        if o not in seen:
            seen[o] = seen[h]
    for owner, (d, st, m) in sorted(seen.items()):
        if owner in helpers:
            continue
        ctx.check(owner in STARTTIME_WRITERS, f"{owner}:starttime",
                  f"`{unparse(st).splitlines()[0]}` re-stamps a connection record outside __connect: the record's age no "
                  "longer says when its DBAPI connection was begun, so `_invalidate_time > starttime` / pool_recycle "
                  "can keep a connection that predates a pool invalidation",
                  STARTTIME_WRITERS.get(owner, ""), f"{m.path}:{st.lineno}", nontrivial=False)
    fc = _nf(ctx, f"{POOL}::_ConnectionRecord.__connect", "_invoke_creator", alias=None)
    ctx.require(fc.key in seen, "_ConnectionRecord.__connect no longer stamps starttime")
    g = rcfg(ctx, fc)
    creator = calls_ending(g, "_invoke_creator")
    ctx.require(creator, "no _invoke_creator() call in __connect")
    # the stamp is taken where the clock is READ: `self.starttime = time.time()`, or `now = time.time()` for
    # `self.starttime = now` (the store of a value read earlier is as old as the read)
    stamps = []
    for d, t, st in attr_stores(fc.node):
        if d != "self.starttime":
            continue
        if _clock_calls(st):
            stamps += g.nodes_for(st)
        elif isinstance(getattr(st, "value", None), ast.Name):
            defs = [s2 for nm, v, s2 in name_stores(fc.node) if nm == st.value.id]
            if len(defs) == 1 and _clock_calls(defs[0]):
                stamps += g.nodes_for(defs[0])
    ctx.require(stamps, "__connect does not read a clock into self.starttime")
    w = None
    for n in creator:
        w = w or g.always_preceded(n, stamps)
    ctx.check(w is None, fc.key + ":stamp-before-creator",
              "the creator (DBAPI connect) can run before starttime is stamped: a pool-wide invalidation that happens "
              "while the connect is in flight gets an _invalidate_time older than the stamp, so the connection that "
              "predates the invalidation is never recycled and is handed out again",
              "self.starttime = <clock> dominates pool._invoke_creator(self)", fc.loc, w)
    after = g.reachable([b for n in creator for b, lab in g.succ[n] if lab != "exc"], edge_ok=no_exc)
    late = [n for n in stamps if n in after]
    ctx.check(not late, fc.key + ":no-restamp-after-creator",
              "starttime is stamped (again) after the creator returned: a connect that overlapped a pool invalidation "
              "looks younger than the invalidation and survives it",
              "no clock read into starttime after the creator call", fc.loc,
              g.describe_path(late) if late else None)
    # same clock on both sides of every comparison
    clocks = {}
    for owner, d, st, m in sites + attr_store_sites(ix, "_invalidate_time") + attr_store_sites(ix, "_soft_invalidate_time"):
        cs = _clock_calls(st)
        if not cs and isinstance(getattr(st, "value", None), ast.Name):
            fn_ = m.parents().get(st)
            while fn_ is not None and not isinstance(fn_, (ast.FunctionDef, ast.AsyncFunctionDef)):
                fn_ = m.parents().get(fn_)
            defs = [s2 for nm, v, s2 in name_stores(fn_) if nm == st.value.id] if fn_ is not None else []
            if len(defs) == 1:
                cs = _clock_calls(defs[0])
        if cs:
            clocks.setdefault(frozenset(cs), []).append(f"{owner} ({d})")
    fget = ctx.func(f"{POOL}::_ConnectionRecord.get_connection")
    for t in ast.walk(fget.node):
        if isinstance(t, ast.BinOp) and "starttime" in _attrs(t) and _clock_calls(t):
            clocks.setdefault(frozenset(_clock_calls(t)), []).append(f"{fget.key} (age)")
    ctx.require(clocks, "no clock reads found for starttime / _invalidate_time / _soft_invalidate_time")
    ctx.check(len(clocks) == 1, f"{POOL}::generation-clock",
              "the timestamps compared by get_connection() come from different clocks: "
              + "; ".join(f"{'/'.join(sorted(k))}: {', '.join(v)}" for k, v in sorted(clocks.items(), key=lambda kv: sorted(kv[0]))),
              "one clock: " + "/".join(sorted(next(iter(clocks)))) + f" at {sum(len(v) for v in clocks.values())} sites", fc.loc)
    _generation_read_before_restamp(ctx)


# Pool._invalidate() decides whether to start a new pool generation by comparing its timestamp with the starttime
# of the record whose connection failed (`self._invalidate_time < rec.starttime`).  That comparison is only
# meaningful for the stamp the record had WHEN THE FAULT WAS OBSERVED: between the observation (the entry of the
# handler / function that calls pool._invalidate) and the read of rec.starttime inside Pool._invalidate nothing may
# run that can re-stamp a record.  What can re-stamp: every function of pool/base.py that stores `.starttime` or
# calls (by method name / constructor, transitively) one that does.  (Together with the who-may-write table above:
# today only __connect / __init__ and what leads to them -- get_connection(), checkout() ...; a `starttime = 0` in
# invalidate() makes invalidate() a re-stamper and `record.invalidate(e)` in front of `pool._invalidate(fairy, e)` in
# _ConnectionFairy._checkout a violation of the order as well.)
def _restampers(ctx):
    m = ctx.index.module(POOL)
    funcs = [f for f in ctx.index.all_functions(m) if not f.type_only and not f.is_overload]
    hot = {f.key for f in funcs if any(d.endswith(".starttime") for d, t, st in attr_stores(f.node))}
    ctx.require(hot, "no function of pool/base.py stores `.starttime`")

    def hot_names():
        names = {f.name for f in funcs if f.key in hot and f.name != "__init__"}
        names |= {f.cls.name for f in funcs if f.key in hot and f.name == "__init__" and f.cls is not None}
        return names
    changed = True
    while changed:
        changed = False
        names = hot_names()
        for f in funcs:
            if f.key in hot:
                continue
            for c in calls_in(f.node):
                if _restamping_call(c, names):
                    hot.add(f.key)
                    changed = True
                    break
    return hot_names()


def _restamping_call(c, names):
    nm = call_name(c) or ""
    recv, _, last = nm.rpartition(".")
    if recv.endswith("dispatch") or recv.endswith("logger") or recv.split(".")[0] in ("util", "log", "event"):
        return False
    return last in names


def _generation_read_before_restamp(ctx):
    names = _restampers(ctx)
    m = ctx.index.module(POOL)
    n = 0
    for f0 in ctx.index.all_functions(m):
        if f0.type_only or f0.is_overload:
            continue
        is_pool_invalidate = f0.key == f"{POOL}::Pool._invalidate"
        if not is_pool_invalidate and not any((call_name(c) or "").endswith("._invalidate") for c in calls_in(f0.node)):
            continue
        f = _nf(ctx, f0.key, "_invalidate", *sorted(names))
        g = ctx.cfg(f)
        if is_pool_invalidate:
            # the read itself: the test that compares rec.starttime
            reads = [x.id for x in g.nodes if x.kind == "test" and "starttime" in _attrs(x.stmt.test)]
            ctx.require(reads, "Pool._invalidate no longer compares the record's starttime")
            starts = [g.entry]
        else:
            reads = call_nodes(g, lambda nm, c: nm.endswith("._invalidate") and nm.rsplit(".", 2)[-2] in ("pool", "_pool", "self"))
            if not reads:
                continue
            # the fault was observed where the innermost handler that leads to the call begins (else: function entry)
            handlers = [x.id for x in g.nodes if x.kind == "handler" and set(reads) & g.reachable([x.id], edge_ok=no_exc)]
            inner = [h for h in handlers if not any(h2 != h and h2 in g.reachable([h], edge_ok=no_exc) for h2 in handlers)]
            starts = inner or [g.entry]
        region = g.reachable(starts, edge_ok=no_exc)
        bad, w = [], None
        for x in g.nodes:
            if x.id not in region or x.id in reads:
                continue
            cs = [c for c in _own_calls(x) if _restamping_call(c, names)]
            if cs and set(reads) & g.reachable([x.id], edge_ok=no_exc, include_starts=False):
                bad.append(f"line {cs[0].lineno}: `{unparse(cs[0].func)}(...)`")
                w = w or g.witness(starts, reads, edge_ok=no_exc)
        n += 1
        ctx.check(not bad, f.key + ":generation-read-before-restamp",
                  "between the observation of the fault and the comparison `_invalidate_time < rec.starttime` of "
                  "Pool._invalidate a call runs that can re-stamp / reset the record's starttime -- "
                  + "; ".join(sorted(set(bad))) + ": the pool generation is judged against the new stamp, so the pool "
                  "invalidation timestamp may never be set and idle connections that predate the fault are handed out again",
                  "nothing that can write a record's starttime runs before the pool-level invalidation reads it", f.loc,
                  g.describe_path(w) if w else None)
    ctx.require(n >= 2, "expected Pool._invalidate and at least one caller of it in pool/base.py")


# ---------------------------------------------------------------------- self-test battery
R.mutant("checkout-no-checkin-failed", POOL,
         sub("        except BaseException as err:\n            with util.safe_reraise():\n                rec._checkin_failed(err, _fairy_was_created=False)\n",
             "        except BaseException as err:\n            with util.safe_reraise():\n                pool.logger.debug(\"failed %s\", err)\n"), "C26-R1")
R.mutant("checkout-handler-except-exception", POOL,
         sub("        except BaseException as err:\n            with util.safe_reraise():\n                rec._checkin_failed(err, _fairy_was_created=False)\n",
             "        except Exception as err:\n            with util.safe_reraise():\n                rec._checkin_failed(err, _fairy_was_created=False)\n"), "C26-R1")
R.mutant("checkout-fairy-was-created-true", POOL,
         sub("rec._checkin_failed(err, _fairy_was_created=False)", "rec._checkin_failed(err, _fairy_was_created=True)"), "C26-R1")
R.mutant("checkin-failed-no-invalidate", POOL,
         sub("        self.invalidate(e=err)\n        self.checkin(\n", "        self.checkin(\n"), "C26-R1")
R.mutant("fairy-checkout-outer-no-checkin-failed", POOL,
         sub("                    if rec is not None:\n                        rec._checkin_failed(\n                            be_outer,\n                            _fairy_was_created=True,\n                        )\n",
             "                    if rec is not None:\n                        rec.invalidate(be_outer)\n"), "C26-R2")
R.mutant("fairy-checkout-inner-no-checkin-failed", POOL,
         sub("                        fairy._connection_record._checkin_failed(\n                            err,\n                            _fairy_was_created=True,\n                        )\n",
             "                        fairy._connection_record.invalidate(err)\n"), "C26-R2")
R.mutant("disconnect-no-record-invalidate", POOL,
         sub("                        fairy.dbapi_connection,\n                        e,\n                    )\n                    fairy._connection_record.invalidate(e)\n",
             "                        fairy.dbapi_connection,\n                        e,\n                    )\n"), "C26-R2")
R.mutant("disconnect-no-pool-invalidate", POOL,
         sub("                    pool._invalidate(fairy, e, _checkin=False)\n", ""), "C26-R2")
R.mutant("exhausted-no-invalidate", POOL,
         sub("        pool.logger.info(\"Reconnection attempts exhausted on checkout\")\n        fairy.invalidate()\n",
             "        pool.logger.info(\"Reconnection attempts exhausted on checkout\")\n"), "C26-R2")
R.mutant("get-connection-no-pool-invalidation-test", POOL,
         sub("        elif self.__pool._invalidate_time > self.starttime:\n            self.__pool.logger.info(\n                \"Connection %r invalidated due to pool invalidation; \"\n                + \"recycling\",\n                self.dbapi_connection,\n            )\n            recycle = True\n", ""), "C26-R3")
R.mutant("get-connection-soft-comparison-flipped", POOL,
         sub("        elif self._soft_invalidate_time > self.starttime:\n            self.__pool.logger.info(", "        elif self._soft_invalidate_time < self.starttime:\n            self.__pool.logger.info("), "C26-R3")
R.mutant("get-connection-recycle-flag-not-set", POOL,
         sub("                \"Connection %r exceeded timeout; recycling\",\n                self.dbapi_connection,\n            )\n            recycle = True\n",
             "                \"Connection %r exceeded timeout; recycling\",\n                self.dbapi_connection,\n            )\n"), "C26-R3")
R.mutant("get-connection-no-close-before-connect", POOL,
         sub("        if recycle:\n            self.__close(terminate=True)\n            self.info.clear()\n", "        if recycle:\n            self.info.clear()\n"), "C26-R3")
R.mutant("is-invalidated-ignores-soft", POOL,
         sub("            or self.__pool._invalidate_time > self.starttime\n            or (self._soft_invalidate_time > self.starttime)\n", "            or self.__pool._invalidate_time > self.starttime\n"), "C26-R3")
R.mutant("invalidate-no-null", POOL,
         sub("            self.__close(terminate=True)\n            self.dbapi_connection = None\n\n    def get_connection", "            self.__close(terminate=True)\n\n    def get_connection"), None)  # __close nulls it as well: redundant store, behaviour preserved
R.mutant("invalidate-null-before-close", POOL,
         sub("            self.__close(terminate=True)\n            self.dbapi_connection = None\n\n    def get_connection", "            self.dbapi_connection = None\n\n    def get_connection"), "C26-R4")
R.mutant("connect-no-null-first", POOL,
         sub("        # creator fails, this attribute stays None\n        self.dbapi_connection = None\n", "        # creator fails, this attribute stays None\n"), "C26-R4")
R.mutant("close-no-null", POOL,
         sub("            self.dbapi_connection, terminate=terminate\n        )\n        self.dbapi_connection = None\n", "            self.dbapi_connection, terminate=terminate\n        )\n"), "C26-R4")
R.mutant("close-connection-reraises-all", POOL,
         sub("            if not isinstance(e, Exception):\n                raise\n\n    def _create_connection", "            raise\n\n    def _create_connection"), "C26-R4")
R.mutant("close-connection-narrow-handler", POOL,
         sub("        except BaseException as e:\n            self.logger.error(\n                f\"Exception {'terminating' if terminate else 'closing'} \"",
             "        except OSError as e:\n            self.logger.error(\n                f\"Exception {'terminating' if terminate else 'closing'} \""), "C26-R4")
R.mutant("r5-do-get-no-dec", "pool/impl.py",
         sub("            except:\n                with util.safe_reraise():\n                    self._dec_overflow()\n                raise\n", "            except:\n                raise\n"), "C26-R5")
R.mutant("r5-finalize-no-invalidate", POOL,
         sub("            if connection_record:\n                connection_record.invalidate(e=e)\n            if not isinstance(e, Exception):\n",
             "            if not isinstance(e, Exception):\n"), "C26-R5")
R.mutant("invalidate-time-written-by-dispose", "pool/impl.py",
         sub("        self._overflow = 0 - self.size()\n", "        self._overflow = 0 - self.size()\n        self._invalidate_time = 0\n"), "C26-R6")
R.mutant("invalidate-time-written-by-record", POOL,
         sub("        if soft:\n            self._soft_invalidate_time = time.time()\n", "        if soft:\n            self._soft_invalidate_time = self.__pool._invalidate_time = time.time()\n"), "C26-R6")
# benign refactors
R.mutant("benign-rename-err", POOL,
         sub("        except BaseException as err:\n            with util.safe_reraise():\n                rec._checkin_failed(err, _fairy_was_created=False)\n",
             "        except BaseException as failure:\n            with util.safe_reraise():\n                rec._checkin_failed(failure, _fairy_was_created=False)\n"), None)
R.mutant("benign-get-connection-reorder-tests", POOL,
         chain(sub("        elif self.__pool._invalidate_time > self.starttime:\n            self.__pool.logger.info(\n                \"Connection %r invalidated due to pool invalidation; \"",
                   "        elif self._soft_invalidate_time > self.starttime:\n            self.__pool.logger.info(\n                \"Connection %r invalidated due to pool invalidation; \""),
               sub("        elif self._soft_invalidate_time > self.starttime:\n            self.__pool.logger.info(\n                \"Connection %r invalidated due to local soft invalidation; \"",
                   "        elif self.__pool._invalidate_time > self.starttime:\n            self.__pool.logger.info(\n                \"Connection %r invalidated due to local soft invalidation; \"")), None)
R.mutant("benign-checkout-extra-logging", POOL,
         sub("            fairy._connection_record.fresh = False\n            try:\n", "            fairy._connection_record.fresh = False\n            pool.logger.debug(\"checkout attempt %d\", attempts)\n            try:\n"), None)

# ---- added by str-j (adversarial seeds C26_1, C26_2)
# seed C26_1: `try: record.close() finally: self._dec_overflow()` flattened
R.mutant("r5-return-conn-dec-overflow-not-in-finally", "pool/impl.py",
         sub("            try:\n                record.close()\n            finally:\n                self._dec_overflow()\n",
             "            record.close()\n            self._dec_overflow()\n"), "C26-R5")
R.mutant("benign-r5-return-conn-dec-overflow-except-reraise", "pool/impl.py",
         sub("            try:\n                record.close()\n            finally:\n                self._dec_overflow()\n",
             "            try:\n                record.close()\n            except BaseException:\n                self._dec_overflow()\n                raise\n            else:\n                self._dec_overflow()\n"), None)
# seed C26_2: the generation stamp is taken after the creator returned
_STAMP = "            self.starttime = time.time()\n            self.dbapi_connection = connection = pool._invoke_creator(self)\n"
R.mutant("connect-stamps-starttime-after-creator", POOL,
         sub(_STAMP, "            self.dbapi_connection = connection = pool._invoke_creator(self)\n            self.starttime = time.time()\n"), "C26-R7")
R.mutant("connect-restamps-starttime-when-fresh", POOL,
         sub("            pool.logger.debug(\"Created new connection %r\", connection)\n            self.fresh = True\n",
             "            pool.logger.debug(\"Created new connection %r\", connection)\n            self.fresh = True\n            self.starttime = time.time()\n"), "C26-R7")
R.mutant("get-connection-restamps-after-connect", POOL,
         sub("            self.info.clear()\n\n            self.__connect()\n", "            self.info.clear()\n\n            self.__connect()\n            self.starttime = time.time()\n"), "C26-R7")
R.mutant("starttime-from-monotonic-clock", POOL,
         sub(_STAMP, "            self.starttime = time.monotonic()\n            self.dbapi_connection = connection = pool._invoke_creator(self)\n"), "C26-R7")
R.mutant("benign-connect-stamp-before-try", POOL,
         sub("        self.dbapi_connection = None\n        try:\n            self.starttime = time.time()\n",
             "        self.dbapi_connection = None\n        self.starttime = now = time.time()\n        try:\n            pool.logger.debug(\"connecting at %s\", now)\n"), None)

# ---------------------------------------------------------------------- rob-A: behaviour-preserving refactorings
# (family of the stored benign/rfA_10 + variants; the rules analyse the normal form, see _helpers_rob_a)
R.mutant("benign-rob-get-connection-pool-alias-flag-renamed", POOL,
         chain(sub("    def get_connection(self) -> DBAPIConnection:\n        recycle = False\n", "    def get_connection(self) -> DBAPIConnection:\n        pool = self.__pool\n        needs_recycle = False\n"),
               sub("            self.__pool._recycle > -1\n            and time.time() - self.starttime > self.__pool._recycle\n",
                   "            pool._recycle > -1\n            and time.time() - self.starttime > pool._recycle\n"),
               sub("        elif self.__pool._invalidate_time > self.starttime:\n            self.__pool.logger.info(\n                \"Connection %r invalidated due to pool",
                   "        elif pool._invalidate_time > self.starttime:\n            pool.logger.info(\n                \"Connection %r invalidated due to pool"),
               sub("            recycle = True\n", "            needs_recycle = True\n", count=3),
               sub("        if recycle:\n", "        if needs_recycle:\n")), None)
R.mutant("benign-rob-get-connection-reconnect-helper", POOL,
         chain(sub("        if recycle:\n            self.__close(terminate=True)\n            self.info.clear()\n\n            self.__connect()\n",
                   "        if recycle:\n            self._replace_connection()\n"),
               sub("    def get_connection(self) -> DBAPIConnection:\n",
                   "    def _replace_connection(self) -> None:\n        self.__close(terminate=True)\n        self.info.clear()\n        self.__connect()\n\n"
                   "    def get_connection(self) -> DBAPIConnection:\n")), None)
R.mutant("rob-get-connection-reconnect-helper-does-not-close", POOL,
         chain(sub("        if recycle:\n            self.__close(terminate=True)\n            self.info.clear()\n\n            self.__connect()\n",
                   "        if recycle:\n            self._replace_connection()\n"),
               sub("    def get_connection(self) -> DBAPIConnection:\n",
                   "    def _replace_connection(self) -> None:\n        self.info.clear()\n        self.__connect()\n\n"
                   "    def get_connection(self) -> DBAPIConnection:\n")), "C26-R3")
R.mutant("benign-rob-is-invalidated-early-returns", POOL,
         sub("        return (\n            self.dbapi_connection is None\n            or self.__pool._invalidate_time > self.starttime\n            or (self._soft_invalidate_time > self.starttime)\n        )\n",
             "        pool = self.__pool\n        return (\n            self.dbapi_connection is None\n            or pool._invalidate_time > self.starttime\n            or self._soft_invalidate_time > self.starttime\n        )\n"), None)
R.mutant("benign-rob-invalidate-soft-early-return", POOL,
         sub("        if soft:\n            self._soft_invalidate_time = time.time()\n        else:\n            self.__close(terminate=True)\n            self.dbapi_connection = None\n",
             "        if soft:\n            self._soft_invalidate_time = time.time()\n            return\n        self.__close(terminate=True)\n        self.dbapi_connection = None\n"), None)
R.mutant("benign-rob-checkout-handler-plain-reraise", POOL,
         sub("        except BaseException as err:\n            with util.safe_reraise():\n                rec._checkin_failed(err, _fairy_was_created=False)\n\n            # not reached, for code linters only\n            raise\n",
             "        except BaseException as err:\n            rec._checkin_failed(err, _fairy_was_created=False)\n            raise\n"), None)
R.mutant("benign-rob-checkin-failed-through-helper", POOL,
         chain(sub("                rec._checkin_failed(err, _fairy_was_created=False)\n", "                cls._give_back(rec, err)\n"),
               sub("    @classmethod\n    def checkout(cls, pool: Pool) -> _ConnectionFairy:\n",
                   "    @staticmethod\n    def _give_back(record: _ConnectionRecord, error: BaseException) -> None:\n"
                   "        record._checkin_failed(error, _fairy_was_created=False)\n\n"
                   "    @classmethod\n    def checkout(cls, pool: Pool) -> _ConnectionFairy:\n")), None)
R.mutant("benign-rob-fairy-checkout-record-alias", POOL,
         sub("                    fairy._connection_record.invalidate(e)\n                    pool._invalidate(fairy, e, _checkin=False)\n",
             "                    record = fairy._connection_record\n                    record.invalidate(e)\n                    pool._invalidate(fairy, e, _checkin=False)\n"), None)
R.mutant("benign-rob-close-connection-inverted-test", POOL,
         sub("            if not isinstance(e, Exception):\n                raise\n\n    def _create_connection",
             "            if isinstance(e, Exception):\n                pass\n            else:\n                raise\n\n    def _create_connection"), None)
R.mutant("benign-rob-connect-stamp-helper", POOL,
         chain(sub("            self.starttime = time.time()\n            self.dbapi_connection = connection = pool._invoke_creator(self)\n",
                   "            self._stamp()\n            self.dbapi_connection = connection = pool._invoke_creator(self)\n"),
               sub("    def __connect(self) -> None:\n", "    def _stamp(self) -> None:\n        self.starttime = time.time()\n\n    def __connect(self) -> None:\n")), None)
R.mutant("rob-stamp-helper-called-from-checkin", POOL,
         chain(sub("            self.starttime = time.time()\n            self.dbapi_connection = connection = pool._invoke_creator(self)\n",
                   "            self._stamp()\n            self.dbapi_connection = connection = pool._invoke_creator(self)\n"),
               sub("    def __connect(self) -> None:\n", "    def _stamp(self) -> None:\n        self.starttime = time.time()\n\n    def __connect(self) -> None:\n"),
               sub("        self.fairy_ref = None\n        connection = self.dbapi_connection\n", "        self.fairy_ref = None\n        self._stamp()\n        connection = self.dbapi_connection\n")), "C26-R7")
R.mutant("benign-rob-connect-stamp-through-local", POOL,
         sub(_STAMP, "            now = time.time()\n            self.starttime = now\n            pool.logger.debug(\"connecting at %s\", now)\n"
                     "            self.dbapi_connection = connection = pool._invoke_creator(self)\n"), None)
R.mutant("rob-connect-stamp-local-read-after-creator", POOL,
         sub(_STAMP, "            self.dbapi_connection = connection = pool._invoke_creator(self)\n            now = time.time()\n            self.starttime = now\n"), "C26-R7")

# ---------------------------------------------------------------------- str2-j: round-2 seeds (C26_3, C26_4)
# seed 3: the handler that gives the overflow slot back narrowed to `except Exception` (same edit as seed C29_1;
# C25-R2 carries the twin of this input)
R.mutant("seed3-do-get-undo-handler-except-exception", "pool/impl.py",
         sub("            except:\n                with util.safe_reraise():\n                    self._dec_overflow()\n                raise\n",
             "            except Exception:\n                with util.safe_reraise():\n                    self._dec_overflow()\n                raise\n"), "C26-R5")
R.mutant("benign-do-get-undo-handler-baseexception", "pool/impl.py",
         sub("            except:\n                with util.safe_reraise():\n                    self._dec_overflow()\n                raise\n",
             "            except BaseException:\n                self._dec_overflow()\n                raise\n"), None)
# seed 4: a hard invalidate resets the generation stamp; Pool._invalidate, called right after it on the pre-ping path,
# compares against the reset stamp and never starts a new pool generation
R.mutant("seed4-invalidate-resets-starttime", POOL,
         sub("            self.__close(terminate=True)\n            self.dbapi_connection = None\n\n    def get_connection",
             "            self.__close(terminate=True)\n            self.dbapi_connection = None\n            self.starttime = 0\n\n    def get_connection"), "C26-R7")
R.mutant("close-resets-starttime", POOL,
         sub("            self.dbapi_connection, terminate=terminate\n        )\n        self.dbapi_connection = None\n",
             "            self.dbapi_connection, terminate=terminate\n        )\n        self.dbapi_connection = None\n        self.starttime = 0\n"), "C26-R7")
_DISC = "                    fairy._connection_record.invalidate(e)\n                    pool._invalidate(fairy, e, _checkin=False)\n"
# pool generation first, then the record: the order the engine-level path uses; same behaviour
R.mutant("benign-checkout-pool-invalidate-first", POOL,
         sub(_DISC, "                    pool._invalidate(fairy, e, _checkin=False)\n                    fairy._connection_record.invalidate(e)\n"), None)
R.mutant("benign-checkout-invalidate-generation-helper", POOL,
         chain(sub(_DISC, "                    cls._invalidate_generation(pool, fairy, e)\n"),
               sub("    def _checkout_existing(self) -> _ConnectionFairy:\n",
                   "    @staticmethod\n    def _invalidate_generation(pool: Pool, fairy: _ConnectionFairy, err: BaseException) -> None:\n"
                   "        fairy._connection_record.invalidate(err)\n        pool._invalidate(fairy, err, _checkin=False)\n\n"
                   "    def _checkout_existing(self) -> _ConnectionFairy:\n")), None)
# the retry (which re-stamps the record through __connect) moved in front of the pool-level invalidation
R.mutant("checkout-reconnects-before-pool-invalidate", POOL,
         chain(sub(_DISC, "                    fairy._connection_record.invalidate(e)\n"
                          "                    fairy.dbapi_connection = fairy._connection_record.get_connection()\n"
                          "                    pool._invalidate(fairy, e, _checkin=False)\n")), "C26-R7")

# ---------------------------------------------------------------------- C26-R8 (= C25-R7: no slot is lost on an exceptional exit)
# The rule body and its full battery live in c25.py (`every_exit_hands_back`, AFTER_FIX = the inputs on the fixed
# shape of checkin / _finalize_fairy).  Here: fault-path inputs on the other family members.
R.mutant("r8-fairy-checkout-exhausted-only-soft-invalidates", POOL,
         sub("        fairy.invalidate()\n        raise exc.InvalidRequestError", "        fairy.invalidate(soft=True)\n        raise exc.InvalidRequestError"),
         "C26-R8")
R.mutant("r8-checkin-failed-terminates-by-hand-before-checkin", POOL,
         sub("        self.invalidate(e=err)\n        self.checkin(\n",
             "        if self.dbapi_connection is not None:\n            self.__pool._dialect.do_terminate(self.dbapi_connection)\n"
             "            self.dbapi_connection = None\n        self.checkin(\n"), "C26-R8")
R.mutant("r8-detach-event-dispatched-before-the-record-is-returned", POOL,
         sub("            rec.dbapi_connection = None\n            # TODO: should this be _return_conn?\n",
             "            rec.dbapi_connection = None\n            if self._pool.dispatch.detach:\n"
             "                self._pool.dispatch.detach(self.dbapi_connection, rec)\n            # TODO: should this be _return_conn?\n"),
         "C26-R8")
R.mutant("r8-fairy-checkout-reconnect-handler-narrowed-to-exception", POOL,
         sub("                except BaseException as err:\n                    with util.safe_reraise():\n"
             "                        fairy._connection_record._checkin_failed(",
             "                except Exception as err:\n                    with util.safe_reraise():\n"
             "                        fairy._connection_record._checkin_failed("), "C26-R8")
R.mutant("benign-r8-fairy-checkout-exhausted-hard-invalidate-by-keyword", POOL,
         sub("        fairy.invalidate()\n        raise exc.InvalidRequestError", "        fairy.invalidate(soft=False)\n        raise exc.InvalidRequestError"), None)
R.mutant("benign-r8-checkin-failed-logs-first", POOL,
         sub("        self.invalidate(e=err)\n        self.checkin(\n",
             "        self.__pool.logger.debug(\"checkin after failure: %r\", err)\n        self.invalidate(e=err)\n        self.checkin(\n"), None)
R.mutant("benign-r8-detach-pool-alias-and-local-record", POOL,
         sub("            self._pool._do_return_conn(self._connection_record)\n", "            pool = self._pool\n            pool._do_return_conn(rec)\n"), None)
