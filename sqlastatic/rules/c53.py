"""C53 -- Horizontal sharding routes reads and writes per the shard choosers (routing glue only).

The shard ids themselves are whatever the user's chooser callables return at run time; nothing here decides
that.  What IS visible in the shape of ext/horizontal_shard.py is the glue around those callables: every id
the execute chooser yields is executed and its partial result kept; the id a statement is executed on is the
identity token its rows are loaded under; an explicitly known shard bypasses the chooser; a flushed object is
written through the connection of the shard recorded on it.  Each of these is a necessary condition of C53
(the breaking input is named in each rule's message).
"""

from __future__ import annotations

import ast
from typing import Dict, List, Optional, Set, Tuple

from ..astutil import (
    attr_stores, call_name, calls_in, const_str, dotted, guard_atoms, lexical_guards, name_stores,
    nested_functions, subscript_stores, unparse, walk_local,
)
from ..cfg import no_exc
from ..report import Registry, chain, sub
from ._helpers_rob_i import nf
from ._helpers_str2_w import KeyFlow, describe_key
from ._helpers_rules_c import PathSense, both, call_nodes, cut_edges, kw_or_pos, loc_of, must_pass, own_calls, test_edges

R = Registry(
    "C53",
    title="Horizontal sharding routes reads and writes per the shard choosers",
    decides=(
        "the routing glue of ext/horizontal_shard.py, not the routing: (R1) the do_orm_execute hook executes the "
        "statement once for every shard id the execute chooser yields, keeps every partial result and merges all "
        "of them; (R2) the per-shard execution passes one and the same id as the bind argument that "
        "ShardedSession.get_bind indexes the shard table with and as the `identity_token` execution option, which "
        "the ORM select and bulk UPDATE/DELETE option readers consume; (R3) an explicitly known shard (set_shard_id "
        "option, identity token of a refresh / lazy load, Query.set_shard, bind_arguments) is read by the hook and, "
        "when present, bypasses the chooser and executes on that shard; (R4) flush routing: a persistent object keeps "
        "the token of its identity key, a pending object its assigned token, otherwise the shard chooser's result "
        "is recorded as the object's identity token and returned; connection_callable / get_bind pass that id on "
        "and return the shard table's entry for it; (R5) ShardedSession.__init__ registers the fan-out hook on "
        "every path; (R6) _identity_lookup searches only the known token, else every token the identity chooser "
        "yields, returning the first hit; a call that gives no token cannot return before the identity chooser was "
        "asked; (R7) every identity lookup in orm/ + ext/ made on behalf of a known identity carries its token: a "
        "token-accepting lookup that is given component [1] of an identity key is given component [2] of the same "
        "key, and a function that was itself given an identity_token hands that token to every token-accepting "
        "lookup it calls."
    ),
    not_decided=(
        "which shard ids the user-supplied choosers return; the rows in each shard database; Result.merge() "
        "itself; ordering of merged rows; two-phase / transaction routing inside SessionTransaction; "
        "precedence among several explicit shard sources given at once."
    ),
)

HS = "ext/horizontal_shard.py"
SESSION = f"{HS}::ShardedSession"


# ---------------------------------------------------------------------- shared discovery
def _last(nm: Optional[str]) -> str:
    return (nm or "").rsplit(".", 1)[-1]


def _normal_succ(g, n: int) -> List[int]:
    return [b for b, lab in g.succ[n] if lab != "exc"]


def _hook_registrations(ctx):
    """[(call, identifier, target expr)] for `<event>.listen(self, "<identifier>", fn, ...)` in ShardedSession.__init__."""
    init = ctx.func(f"{SESSION}.__init__")
    out = []
    for c in calls_in(init.node):
        if _last(call_name(c)) != "listen" or len(c.args) < 3:
            continue
        if not (isinstance(c.args[0], ast.Name) and c.args[0].id == "self"):
            continue
        ident = const_str(c.args[1])
        if ident is None:
            continue
        out.append((c, ident, c.args[2]))
    return init, out


def _execute_dispatch_names(ctx) -> Set[str]:
    """Event names whose listeners may take over statement execution: `self.dispatch.<name>` read by
    Session._execute_internal."""
    f = ctx.func("orm/session.py::Session._execute_internal")
    out = set()
    for n in walk_local(f.node):
        if isinstance(n, ast.Attribute) and dotted(n.value) == "self.dispatch":
            out.add(n.attr)
    ctx.require(out, "Session._execute_internal no longer reads self.dispatch.<event>")
    return out


def _fanout_function(ctx):
    """The module-level function registered as the statement-execution hook; when no registration exists (that is
    C53-R5's finding) the module-level function that iterates the execute chooser."""
    init, regs = _hook_registrations(ctx)
    names = _execute_dispatch_names(ctx)
    cands = [(c, i, t) for c, i, t in regs if i in names]
    if cands:
        t = cands[0][2]
        ctx.require(isinstance(t, ast.Name), f"hook target `{unparse(t)}` is not a plain function name")
        r = ctx.index.resolve(init.module, t.id)
        ctx.require(getattr(r, "node", None) is not None and isinstance(r.node, (ast.FunctionDef, ast.AsyncFunctionDef)),
                    f"hook target `{t.id}` does not resolve to a function")
    else:
        fs = [fi for fi in ctx.index.all_functions(init.module) if fi.cls is None
              and any(_last(call_name(c)) == "execute_chooser" for c in calls_in(fi.node))]
        ctx.require(len(fs) == 1, "no statement-execution listener is registered and no single module-level function iterates "
                                  "the execute chooser; cannot locate the fan-out hook")
        r = fs[0]
    ctx.functions_analysed.add(r.key)
    return r


def _shard_bind_param(ctx) -> str:
    """Keyword of ShardedSession.get_bind whose value indexes the shard table."""
    gb = ctx.func(f"{SESSION}.get_bind")
    names = set()
    for n in walk_local(gb.node):
        if isinstance(n, ast.Subscript) and isinstance(n.ctx, ast.Load) and (dotted(n.value) or "").endswith("__shards") \
                and isinstance(n.slice, ast.Name):
            names.add(n.slice.id)
        if isinstance(n, ast.Call) and isinstance(n.func, ast.Attribute) and n.func.attr in ("get", "__getitem__") \
                and (dotted(n.func.value) or "").endswith("__shards") and n.args and isinstance(n.args[0], ast.Name):
            names.add(n.args[0].id)
    names &= set(gb.params)
    ctx.require(len(names) == 1, f"cannot tell which get_bind parameter indexes the shard table: {sorted(names)}")
    return names.pop()


def _iter_call_name(fn, loop_stmt) -> Optional[str]:
    """Callee of the call a `for` statement iterates over, also when the iterable was first put into a local
    (`ids = session.execute_chooser(ctx)` / `for shard_id in ids:`)."""
    it = _through_local(fn, loop_stmt.iter)
    return call_name(it) if isinstance(it, ast.Call) else None


class _Fan:
    """Facts about the fan-out hook: chooser loop, per-shard executor, accumulator."""

    def __init__(self, ctx):
        self.ctx = ctx
        self.F = F = _fanout_function(ctx)
        self.g = g = ctx.cfg(F)
        loops = [n for n in g.nodes if n.kind == "for" and _last(_iter_call_name(F.node, n.stmt)) == "execute_chooser"]
        # the same fan-out spelt as a comprehension: `partial = [iter_for_shard(s) for s in session.execute_chooser(ctx)]`
        comps = []
        if not loops:
            for n in g.nodes:
                if n.kind != "stmt" or n.copy or not isinstance(n.stmt, ast.stmt):
                    continue
                for x in walk_local(n.stmt):
                    if isinstance(x, (ast.ListComp, ast.GeneratorExp, ast.SetComp)) and x.generators \
                            and _last(_iter_call_name(F.node, x.generators[0])) == "execute_chooser":
                        comps.append((n, x))
        ctx.require(len(loops) + len(comps) == 1,
                    f"{F.key}: expected one `for <id> in <session>.execute_chooser(...)` loop (or comprehension), found {len(loops) + len(comps)}")
        self.comp = None
        if loops:
            self.loop = loops[0]
            tgt = self.loop.stmt.target
        else:
            self.loop, self.comp = comps[0]
            tgt = self.comp.generators[0].target
        ctx.require(isinstance(tgt, ast.Name), "chooser loop target is not a plain name")
        self.loopvar = tgt.id
        # per-shard executors: nested (or module-level) functions that call <ctx>.invoke_statement
        nested = nested_functions(F.node)
        self.executors: Dict[str, ast.AST] = {}
        for nm, fn in nested.items():
            if any(_last(call_name(c)) == "invoke_statement" for c in calls_in(fn)):
                self.executors[nm] = fn
        if not self.executors:
            for fi in ctx.index.all_functions(F.module):
                if fi.cls is None and fi.node is not F.node and any(_last(call_name(c)) == "invoke_statement" for c in calls_in(fi.node)):
                    self.executors[fi.name] = fi.node
        ctx.require(self.executors, f"{F.key}: no helper that calls invoke_statement() found (per-shard execution idiom not understood)")

    def exec_call_of(self, call: ast.Call, var: str) -> bool:
        nm = call_name(call)
        if nm not in self.executors:
            return False
        return any(isinstance(a, ast.Name) and a.id == var for a in list(call.args) + [k.value for k in call.keywords])

    def exec_nodes(self, var: str) -> List[int]:
        return call_nodes(self.g, lambda nm, c: self.exec_call_of(c, var))

    def shard_param(self, fn: ast.AST, call: Optional[ast.Call] = None) -> str:
        params = [a.arg for a in fn.args.posonlyargs + fn.args.args]
        self.ctx.require(params, f"per-shard executor {fn.name} takes no parameter")
        return params[0]


# ---------------------------------------------------------------------- C53-R1
def _cov(expr: ast.AST, acc: str, fn, depth=0):
    """(constant indexes, lowest open slice start, whole list used, acc mentioned) for `expr`, following local names
    that were bound from the accumulator (`x = acc[0]`, `first, *rest = acc`)."""
    pm = {}
    for p in ast.walk(expr):
        for ch in ast.iter_child_nodes(p):
            pm[ch] = p
    consts: Set[int] = set()
    open_from: Optional[int] = None
    whole = False
    seen = False

    def merge(c2, o2, w2, s2):
        nonlocal open_from, whole, seen
        consts.update(c2)
        if o2 is not None:
            open_from = o2 if open_from is None else min(open_from, o2)
        whole = whole or w2
        seen = seen or s2
    for n in ast.walk(expr):
        if not (isinstance(n, ast.Name) and isinstance(n.ctx, ast.Load)):
            continue
        if n.id != acc:
            if depth >= 3 or fn is None:
                continue
            for st in ast.walk(fn):
                if not isinstance(st, ast.Assign) or len(st.targets) != 1:
                    continue
                tg = st.targets[0]
                if isinstance(tg, ast.Name) and tg.id == n.id:
                    merge(*_cov(st.value, acc, fn, depth + 1))
                elif isinstance(tg, (ast.Tuple, ast.List)) and isinstance(st.value, ast.Name) and st.value.id == acc:
                    star = [i for i, e in enumerate(tg.elts) if isinstance(e, ast.Starred)]
                    for i, e in enumerate(tg.elts):
                        if isinstance(e, ast.Name) and e.id == n.id and (not star or i < star[0]):
                            merge({i}, None, False, True)
                        elif isinstance(e, ast.Starred) and isinstance(e.value, ast.Name) and e.value.id == n.id and i == len(tg.elts) - 1:
                            merge(set(), i, False, True)
            continue
        seen = True
        par = pm.get(n)
        if isinstance(par, ast.Subscript) and par.value is n:
            sl = par.slice
            if isinstance(sl, ast.Constant) and isinstance(sl.value, int) and sl.value >= 0:
                consts.add(sl.value)
            elif isinstance(sl, ast.Slice) and sl.upper is None and sl.step is None:
                lo = 0 if sl.lower is None else (sl.lower.value if isinstance(sl.lower, ast.Constant) and isinstance(sl.lower.value, int) else None)
                if lo is not None and lo >= 0:
                    open_from = lo if open_from is None else min(open_from, lo)
            # anything else (negative index, bounded slice) covers nothing we can count on
        else:
            whole = True
    return consts, open_from, whole, seen


def _coverage(expr: ast.AST, acc: str, fn=None) -> Tuple[bool, str]:
    """Does `expr` use every element of the list `acc`?  Understands acc (whole), *acc, acc[i], acc[i:] and locals
    bound from those."""
    consts, open_from, whole, seen = _cov(expr, acc, fn)
    if not seen:
        return False, "does not use the accumulated results at all"
    if whole:
        return True, "whole list"
    if open_from is None:
        return False, f"uses only element(s) {sorted(consts)} of the accumulated results"
    missing = [i for i in range(open_from) if i not in consts]
    if missing:
        return False, f"skips element(s) {missing} of the accumulated results"
    return True, f"elements {sorted(consts)} + [{open_from}:]"


def _r1_comprehension(ctx, fan):
    """C53-R1 when the fan-out is a comprehension over the execute chooser (same four instances, same keys)."""
    F, g, node, comp = fan.F, fan.g, fan.loop, fan.comp
    gen = comp.generators[0]
    elt_is_exec = isinstance(comp.elt, ast.Call) and fan.exec_call_of(comp.elt, fan.loopvar)
    elt_has_exec = any(isinstance(x, ast.Call) and fan.exec_call_of(x, fan.loopvar) for x in ast.walk(comp.elt))
    ctx.require(elt_has_exec, f"{F.key}: no per-shard execution `{'/'.join(fan.executors)}({fan.loopvar})` in the comprehension over the chooser")
    unfiltered = len(comp.generators) == 1 and not gen.ifs
    ctx.check(unfiltered, F.key + ":every-chosen-shard-executed",
              "the comprehension over the execute chooser's shard ids filters some of them out: the statement is not executed on those shards "
              "(rows of that shard are missing from the union; e.g. execute_chooser -> ['a', 'b'], rows only in 'b')",
              f"each id -> {'/'.join(fan.executors)}({fan.loopvar})", loc_of(F, node.stmt))
    ctx.check(elt_is_exec and isinstance(comp, ast.ListComp), F.key + ":every-partial-result-kept",
              "the per-shard result is not what the comprehension collects (or it is collected into a set / consumed lazily): a shard's result can be dropped",
              "the list comprehension's element is the per-shard result", loc_of(F, node.stmt))
    ctx.ok(F.key + ":no-early-exit-from-chooser-loop", "a comprehension cannot be left before the chooser is exhausted")
    st = node.stmt
    acc = None
    if isinstance(st, ast.Assign) and len(st.targets) == 1 and isinstance(st.targets[0], ast.Name) and st.value is comp:
        acc = st.targets[0].id
    elif isinstance(st, ast.AnnAssign) and isinstance(st.target, ast.Name) and st.value is comp:
        acc = st.target.id
    ctx.require(acc is not None, f"{F.key}: the comprehension over the chooser is not assigned to a local list (idiom not understood)")
    after = [b for b, lab in g.succ[node.id] if lab != "exc"]
    rets = [n for n in g.reachable(after, edge_ok=no_exc) if isinstance(g.nodes[n].stmt, ast.Return) and g.nodes[n].kind == "stmt"]
    ctx.require(rets, "no return statement after the chooser comprehension")
    bad, okd = [], []
    for n in rets:
        v = g.nodes[n].stmt.value
        if v is None:
            bad.append((n, "returns nothing"))
            continue
        okc, why = _coverage(v, acc, F.node)
        (okd if okc else bad).append((n, why))
    ctx.check(not bad, F.key + ":merged-result-covers-all-partials",
              "the result returned after the fan-out " + "; ".join(w_ for _, w_ in bad)
              + f" (`{unparse(g.nodes[bad[0][0]].stmt)[:100] if bad else ''}`): rows of some executed shard never reach the caller",
              "return uses " + ", ".join(w_ for _, w_ in okd), loc_of(F, g.nodes[(bad or okd)[0][0]].stmt))


@R.rule("C53-R1", floor=4, template="T-PATH",
        desc="fan-out: every shard id yielded by execute_chooser is executed, every partial result is kept, the loop "
             "has no early exit, and the returned result is built from all partial results")
def r1(ctx):
    fan = _Fan(ctx)
    F, g, loop = fan.F, fan.g, fan.loop
    if fan.comp is not None:
        return _r1_comprehension(ctx, fan)
    body = [b for b, lab in g.succ[loop.id] if lab == "true"]
    after = [b for b, lab in g.succ[loop.id] if lab == "false"]
    ctx.require(body and after, "chooser loop has no body / no continuation in the CFG")
    ex = fan.exec_nodes(fan.loopvar)
    ctx.require(ex, f"{F.key}: no per-shard execution `{'/'.join(fan.executors)}({fan.loopvar})` inside the chooser loop")
    in_loop = g.reachable(body, avoid=[loop.id], edge_ok=no_exc)
    ex = [n for n in ex if n in in_loop]
    ctx.require(ex, "per-shard execution is outside the chooser loop")
    # (1) every iteration executes
    w = must_pass(g, body, [loop.id, g.exit], ex, edge_ok=no_exc)
    ctx.check(w is None, F.key + ":every-chosen-shard-executed",
              f"an iteration over the execute chooser's shard ids can finish without executing the statement on that shard "
              f"(rows of that shard are missing from the union; e.g. execute_chooser -> ['a', 'b'], rows only in 'b')",
              f"each id -> {'/'.join(fan.executors)}({fan.loopvar})", loc_of(F, loop.stmt), w)
    # (2) every result is kept
    results = set()
    for n in ex:
        st = g.nodes[n].stmt
        if isinstance(st, (ast.Assign, ast.AnnAssign)):
            tg = st.targets[0] if isinstance(st, ast.Assign) else st.target
            if isinstance(tg, ast.Name):
                results.add(tg.id)

    def keeps(nm, c):
        if _last(nm) not in ("append", "extend", "add") or not isinstance(c.func, ast.Attribute) or not isinstance(c.func.value, ast.Name):
            return False
        for a in c.args:
            for x in ast.walk(a):
                if isinstance(x, ast.Name) and x.id in results:
                    return True
                if isinstance(x, ast.Call) and fan.exec_call_of(x, fan.loopvar):
                    return True
        return False
    keep = [n for n in call_nodes(g, keeps) if n in in_loop]
    ctx.require(keep, f"{F.key}: partial results are not accumulated with <list>.append(...) (idiom not understood)")
    accs = set()
    for n in keep:
        for c in own_calls(g.nodes[n]):
            nm = call_name(c) or ""
            if keeps(nm, c):
                accs.add(c.func.value.id)
    ctx.require(len(accs) == 1, f"partial results go to several accumulators: {sorted(accs)}")
    acc = accs.pop()
    pending = [n for n in ex if n not in keep]
    w = must_pass(g, [b for n in pending for b in _normal_succ(g, n)], [loop.id, g.exit], keep, edge_ok=no_exc) if pending else None
    ctx.check(w is None, F.key + ":every-partial-result-kept",
              "a shard's result can be dropped instead of being added to the partial results "
              "(rows of that shard are missing from the union)",
              f"each result -> {acc}.append(...)", loc_of(F, loop.stmt), w)
    # (3) no early exit from the loop
    w = g.witness(body, after + [g.exit], avoid=[loop.id], edge_ok=no_exc)
    ctx.check(w is None, F.key + ":no-early-exit-from-chooser-loop",
              "the loop over the execute chooser's shard ids can be left before all ids were executed (break / return "
              "inside the loop): the remaining shards are never queried",
              "loop left only when the chooser is exhausted", loc_of(F, loop.stmt), g.describe_path(w) if w else None)
    # (4) the return value after the loop uses all partial results
    rets = [n for n in g.reachable(after, edge_ok=no_exc) if isinstance(g.nodes[n].stmt, ast.Return) and g.nodes[n].kind == "stmt"]
    ctx.require(rets, "no return statement after the chooser loop")
    bad = []
    okd = []
    for n in rets:
        v = g.nodes[n].stmt.value
        if v is None:
            bad.append((n, "returns nothing"))
            continue
        okc, why = _coverage(v, acc, F.node)
        (okd if okc else bad).append((n, why))
    ctx.check(not bad, F.key + ":merged-result-covers-all-partials",
              "the result returned after the fan-out " + "; ".join(w_ for _, w_ in bad)
              + f" (`{unparse(g.nodes[bad[0][0]].stmt)[:100] if bad else ''}`): rows of some executed shard never reach the caller",
              "return uses " + ", ".join(w_ for _, w_ in okd), loc_of(F, g.nodes[(bad or okd)[0][0]].stmt))


# ---------------------------------------------------------------------- C53-R2
def _option_key_sets(ctx, options_attr: str):
    """Key sets passed to `<X>.<options_attr>.from_execution_options(key, {..}, ..)` anywhere in orm/."""
    out = []
    for m in ctx.index.all_modules():
        if not m.relpath.startswith("orm/") or "from_execution_options" not in m.source:
            continue
        for fi in ctx.index.all_functions(m):
            for c in calls_in(fi.node):
                nm = call_name(c) or ""
                if not nm.endswith(f"{options_attr}.from_execution_options") or len(c.args) < 2:
                    continue
                s = c.args[1]
                if isinstance(s, ast.Set) and all(const_str(e) is not None for e in s.elts):
                    out.append((fi, c, {const_str(e) for e in s.elts}))
                else:
                    ctx.error(f"{fi.key}: option key set `{unparse(s)[:60]}` is not a literal set of strings")
    return out


@R.rule("C53-R2", floor=4, template="T-FLOW",
        desc="per-shard execution: the shard id is stored under the bind-argument key ShardedSession.get_bind indexes the "
             "shard table with, the same id is set as the identity_token execution option before invoke_statement, and "
             "the ORM select / bulk UPDATE-DELETE option readers consume that option")
def r2(ctx):
    fan = _Fan(ctx)
    F = fan.F
    bind_key = _shard_bind_param(ctx)
    for nm, fn in sorted(fan.executors.items()):
        p = fan.shard_param(fn)
        g = ctx.cfg(fn)
        key = f"{F.key}.{nm}" if fn is not F.node else F.key
        inv = call_nodes(g, lambda n_, c: _last(n_) == "invoke_statement")
        ctx.require(inv, f"{key}: invoke_statement() call not in CFG")
        # (a) bind argument
        good_b, why = True, ""
        for n in inv:
            for c in own_calls(g.nodes[n]):
                if _last(call_name(c)) != "invoke_statement":
                    continue
                b = kw_or_pos(c, "bind_arguments")
                if b is None:
                    good_b, why = False, "invoke_statement() is called without bind_arguments: the statement runs on whatever get_bind() picks"
                    continue
                keys = _dict_keys_with_value(fn, b, p)
                if keys is None:
                    ctx.error(f"{key}: bind_arguments value `{unparse(b)[:60]}` is not a local dict (idiom not understood)")
                if bind_key not in keys:
                    good_b = False
                    why = (f"the shard id `{p}` is not stored under bind_arguments[{bind_key!r}] (found keys {sorted(keys)}): "
                           f"ShardedSession.get_bind() indexes the shard table with its `{bind_key}` argument, so the statement "
                           f"would run on the shard chooser's shard instead of the one being iterated")
        ctx.check(good_b, key + ":executes-on-the-iterated-shard", why,
                  f"bind_arguments[{bind_key!r}] = {p} -> get_bind({bind_key}=...) -> shard table", loc_of(F, fn))
        # (b) identity token option
        def is_token(n_, c):
            if _last(n_) != "update_execution_options":
                return False
            v = kw_or_pos(c, "identity_token")
            return isinstance(v, ast.Name) and v.id == p
        tok = call_nodes(g, is_token)
        any_tok = call_nodes(g, lambda n_, c: _last(n_) == "update_execution_options" and kw_or_pos(c, "identity_token") is not None)
        w = None
        if tok:
            for n in inv:
                w = g.always_preceded(n, tok, edge_ok=no_exc)
                if w:
                    break
        msg = ("rows loaded by the per-shard execution are not given the executed shard's id as identity token "
               + ("(identity_token option is set from something else than the shard id)" if any_tok and not tok else
                  "(no update_execution_options(identity_token=<shard id>) before invoke_statement)")
               + ": two rows with the same primary key in different shards collapse into one identity, and a later "
                 "refresh / lazy load of the object goes to the wrong shard")
        ctx.check(bool(tok) and w is None, key + ":identity-token-is-the-executed-shard", msg,
                  f"update_execution_options(identity_token={p}) dominates invoke_statement", loc_of(F, fn), w)
    # (c) readers of the option
    for attr, what in (("default_load_options", "ORM SELECT"), ("default_update_options", "ORM bulk UPDATE/DELETE")):
        sites = _option_key_sets(ctx, attr)
        ctx.require(sites, f"no <X>.{attr}.from_execution_options(...) call found")
        holders = [(fi, s) for fi, c, s in sites if "identity_token" in s]
        fi0 = sites[0][0]
        ctx.check(bool(holders), f"{fi0.module.relpath}::{attr}:identity_token-option-consumed",
                  f"no {attr}.from_execution_options() call accepts the `identity_token` execution option any more: the "
                  f"token set by the sharding hook is ignored for {what}, objects get identity token None",
                  "consumed in " + ", ".join(sorted(fi.qualname for fi, _ in holders)), fi0.loc)


def _dict_keys_with_value(fn, expr, p: str) -> Optional[Set[str]]:
    """String keys under which the local dict `expr` holds the name `p` (None if expr is not understood)."""
    def from_ctor(e) -> Optional[Set[str]]:
        ks: Set[str] = set()
        if isinstance(e, ast.Dict):
            for k, v in zip(e.keys, e.values):
                if k is not None and const_str(k) is not None and isinstance(v, ast.Name) and v.id == p:
                    ks.add(const_str(k))
            return ks
        if isinstance(e, ast.Call) and _last(call_name(e)) in ("dict", "copy", "union", "immutabledict"):
            for k in e.keywords:
                if k.arg and isinstance(k.value, ast.Name) and k.value.id == p:
                    ks.add(k.arg)
            return ks
        return None
    if isinstance(expr, ast.Name):
        defs = [v for nm, v, _ in name_stores(fn) if nm == expr.id and v is not None]
        if not defs:
            return None
        keys: Set[str] = set()
        for d in defs:
            k = from_ctor(d)
            if k is None:
                return None
            keys |= k
        for base, s, st in subscript_stores(fn):
            if base == expr.id and isinstance(st, ast.Assign) and isinstance(st.value, ast.Name) and st.value.id == p:
                k = const_str(s.slice)
                if k is not None:
                    keys.add(k)
        for c in calls_in(fn):
            if call_name(c) == f"{expr.id}.update":
                for k in c.keywords:
                    if k.arg and isinstance(k.value, ast.Name) and k.value.id == p:
                        keys.add(k.arg)
        return keys
    return from_ctor(expr)


# ---------------------------------------------------------------------- C53-R3
def _set_shard_key(ctx) -> str:
    f = ctx.func(f"{HS}::ShardedQuery.set_shard")
    keys = set()
    for c in calls_in(f.node):
        if _last(call_name(c)) == "execution_options":
            for k in c.keywords:
                if k.arg:
                    keys.add(k.arg)
    ctx.require(len(keys) == 1, f"ShardedQuery.set_shard no longer sets exactly one execution option: {sorted(keys)}")
    return keys.pop()


def _option_classes(ctx):
    """{class name: attributes assigned from constructor parameters} for ORMOption subclasses of the module."""
    m = ctx.index.module(HS)
    out = {}
    for c in m.classes.values():
        if not any(_last(b) == "ORMOption" for b in c.base_exprs):
            continue
        init = c.methods.get("__init__")
        attrs = set()
        if init is not None:
            for tgt, node, st in attr_stores(init.node):
                if tgt.startswith("self.") and isinstance(st, ast.Assign) and isinstance(st.value, ast.Name) and st.value.id in init.params:
                    attrs.add(tgt[5:])
        out[c.name] = attrs
    return out


def _reads_key(e: ast.AST, container_suffix: str, key: str) -> bool:
    for x in ast.walk(e):
        if isinstance(x, ast.Subscript) and (dotted(x.value) or "").endswith(container_suffix) and const_str(x.slice) == key:
            return True
        if isinstance(x, ast.Call) and _last(call_name(x)) == "get" and isinstance(x.func, ast.Attribute) \
                and (dotted(x.func.value) or "").endswith(container_suffix) and x.args and const_str(x.args[0]) == key:
            return True
    return False


@R.rule("C53-R3", floor=5, template="T-GUARD",
        desc="an explicitly known shard (set_shard_id option, identity token, Query.set_shard option, bind argument) is read "
             "by the hook; once read and not None the chooser is not consulted and the statement executes on that shard")
def r3(ctx):
    fan = _Fan(ctx)
    F, g, loop = fan.F, fan.g, fan.loop
    pm = F.module.parents()
    # S: the local that receives the explicitly requested shard (anchor: the identity token of the active options)
    cand = sorted({nm for nm, v, st in name_stores(F.node) if v is not None and not isinstance(st, (ast.For, ast.AsyncFor))
                   and any(isinstance(x, ast.Attribute) and x.attr == "_identity_token" for x in ast.walk(v))})
    if not cand:
        cand = sorted({t[: -len(" is None")] for t, pol in guard_atoms(g.edge_guards(loop.id)) if pol and t.endswith(" is None")
                       and t[: -len(" is None")].isidentifier()})
    ctx.require(len(cand) == 1, f"{F.key}: cannot tell which local holds the explicitly requested shard ({cand})")
    S = cand[0]
    assigns = []    # (value expression, statement whose guards qualify it, scope of that statement, statement of F that binds S)
    for nm, v, st in name_stores(F.node):
        if nm != S or v is None or isinstance(st, (ast.For, ast.AsyncFor)):
            continue
        helper = _module_helper(ctx, F, v)
        if helper is None:
            assigns.append((v, st, F.node, st))
            continue
        # `S = _explicit_shard(...)`: an extracted helper decides; every value it returns is a value S receives here
        ctx.functions_analysed.add(helper.key)
        for r in [x for x in walk_local(helper.node) if isinstance(x, ast.Return) and x.value is not None]:
            rv = _through_local(helper.node, r.value)
            if isinstance(rv, ast.Constant) and rv.value is None:
                continue
            assigns.append((rv, r, helper.node, st))
    ps = PathSense(g)
    opt_classes = _option_classes(ctx)
    ctx.require(opt_classes, "no ORMOption subclass (set_shard_id) in ext/horizontal_shard.py")
    exec_key = _set_shard_key(ctx)
    bind_key = _shard_bind_param(ctx)

    def isinstance_guarded(st, v, scope) -> bool:
        if not (isinstance(v, ast.Attribute) and isinstance(v.value, ast.Name)):
            return False
        for t, pol in lexical_guards(pm, st, stop=scope):
            if pol and isinstance(t, ast.Call) and call_name(t) == "isinstance" and len(t.args) == 2 \
                    and isinstance(t.args[0], ast.Name) and t.args[0].id == v.value.id:
                cls = _last(dotted(t.args[1]))
                if cls in opt_classes and v.attr in opt_classes[cls]:
                    return True
        return False

    sources = [
        ("set_shard_id-option", lambda v, st, sc: isinstance_guarded(st, v, sc),
         "select(X).options(set_shard_id('a')) with an execute chooser returning every shard"),
        ("identity-token", lambda v, st, sc: any(isinstance(x, ast.Attribute) and x.attr == "_identity_token" for x in ast.walk(v)),
         "session.refresh(obj) / a lazy load for an object loaded from shard 'a' while the same primary key also exists in shard 'b'"),
        ("query-set_shard", lambda v, st, sc: _reads_key(v, "execution_options", exec_key),
         "session.query(X).set_shard('a')"),
        ("bind-argument", lambda v, st, sc: _reads_key(v, "bind_arguments", bind_key),
         f"session.execute(stmt, bind_arguments={{'{bind_key}': 'a'}})"),
    ]
    for name, pred, inp in sources:
        hits = [(v, bind_st) for v, st, sc, bind_st in assigns if pred(v, st, sc)]
        key = f"{F.key}:explicit-shard[{name}]"
        if not hits:
            ctx.violation(key, f"the hook no longer reads the explicit shard source `{name}`: {inp} is fanned out to the "
                               f"execute chooser's shards instead of the requested one", F.loc)
            continue
        w = None
        for v, st in hits:
            starts = [b for n in g.nodes_for(st) for b in _normal_succ(g, n)]
            w = ps.witness(starts, [loop.id], edge_ok=no_exc, init_facts=[(f"{S} is None", False), (S, True)])
            if w:
                break
        ctx.check(w is None, key,
                  f"after `{S}` was taken from the explicit source `{name}` (not None) the execute chooser can still be consulted: {inp} "
                  f"would query other shards",
                  f"{S} = <{name}>; not None -> chooser bypassed", loc_of(F, hits[0][1]), w)
    # known shard -> executed on it
    known = test_edges(g, lambda t, p: t == f"{S} is None" and p is False)
    ctx.require(known, f"no branch in {F.key} is taken only when `{S} is not None`")
    ex = fan.exec_nodes(S)
    # restrict to executions that are not inside the chooser loop (same variable name may be reused as loop target)
    body = [b for b, lab in g.succ[loop.id] if lab == "true"]
    in_loop = g.reachable(body, avoid=[loop.id], edge_ok=no_exc)
    ex = [n for n in ex if n not in in_loop]
    w = must_pass(g, [b for _, _, b in known], [g.exit], ex, edge_ok=both(no_exc, lambda a, b, lab: b != loop.id)) if ex else ["no execution"]
    ctx.check(bool(ex) and w is None, F.key + ":known-shard-is-executed",
              f"with an explicitly known shard the hook can return without executing the statement on `{S}`",
              f"{S} is not None -> {'/'.join(fan.executors)}({S})", F.loc, w)


# ---------------------------------------------------------------------- C53-R4
def _token_index(ctx) -> int:
    f = ctx.func("orm/mapper.py::Mapper._identity_key_from_state")
    idx = set()
    for r in [n for n in walk_local(f.node) if isinstance(n, ast.Return)]:
        ctx.require(isinstance(r.value, ast.Tuple), "Mapper._identity_key_from_state no longer returns a tuple literal")
        for i, e in enumerate(r.value.elts):
            if _last(dotted(e)) == "identity_token":
                idx.add(i)
    ctx.require(len(idx) == 1, f"cannot locate identity_token in the identity key tuple: {sorted(idx)}")
    return idx.pop()


def _returns_in(g, nodes) -> List[int]:
    return [n for n in nodes if g.nodes[n].kind == "stmt" and isinstance(g.nodes[n].stmt, ast.Return)]


@R.rule("C53-R4", floor=6, template="T-PATH",
        desc="flush routing: persistent objects keep the token of their identity key, pending objects their assigned token, "
             "otherwise shard_chooser's result is recorded on the object and returned; connection_callable / get_bind route "
             "by that id through the shard table")
def r4(ctx):
    # `identity_key = state.key` / `assigned = state.identity_token` snapshots are resolved (no helper inlining: the rule's
    # vocabulary are the self.* calls themselves)
    ca = nf(ctx, ctx.func(f"{SESSION}._choose_shard_and_assign"), inline=False, alias="dotted")
    g = ctx.cfg(ca)
    ctx.require(len([p for p in ca.params if p != "self"]) >= 2, "_choose_shard_and_assign lost its (mapper, instance) parameters")
    inst = [p for p in ca.params if p != "self"][1]
    states = {nm for nm, v, _ in name_stores(ca.node) if isinstance(v, ast.Call) and _last(call_name(v)) in ("inspect", "instance_state")
              and any(isinstance(a, ast.Name) and a.id == inst for a in v.args)}
    ctx.require(len(states) == 1, f"cannot find `state = inspect({inst})` in _choose_shard_and_assign ({sorted(states)})")
    st = states.pop()
    chooser = call_nodes(g, lambda nm, c: nm == "self.shard_chooser")
    ctx.require(chooser, "no self.shard_chooser(...) call in _choose_shard_and_assign")
    tix = _token_index(ctx)

    def branch(atom_txt):
        return test_edges(g, lambda t, p: t == atom_txt and p is True)

    # (a) persistent
    e_key = branch(f"{st}.key") + test_edges(g, lambda t, p: t == f"{st}.key is None" and p is False)
    reads = {x.attr for x in walk_local(ca.node) if isinstance(x, ast.Attribute) and isinstance(x.value, ast.Name) and x.value.id == st}
    if not e_key and not ({"key", "identity_key"} & reads):
        ctx.violation(ca.key + ":persistent-object-keeps-its-shard",
                      f"_choose_shard_and_assign never looks at `{st}.key`: an object that already has an identity key is re-routed by the "
                      "shard chooser (an UPDATE/DELETE for an object loaded from shard 'a' whose chooser attributes changed goes to another "
                      "shard; the row in 'a' stays)", ca.loc)
        e_key = None
    else:
        ctx.require(e_key, f"no `if {st}.key` branch (idiom not understood)")
    if e_key is not None:
        after = g.reachable([b for _, _, b in e_key], edge_ok=no_exc)
        rets = _returns_in(g, after)
        w = g.witness([b for _, _, b in e_key], chooser, edge_ok=no_exc)
        good = bool(rets) and w is None
        detail = ""
        for n in rets:
            v = g.nodes[n].stmt.value
            v = _through_local(ca.node, v)
            if not (isinstance(v, ast.Subscript) and dotted(v.value) == f"{st}.key" and isinstance(v.slice, ast.Constant) and v.slice.value in (tix, tix - 3)):
                good = False
                detail = f"returns `{unparse(g.nodes[n].stmt.value)}` which is not element {tix} (the identity token) of {st}.key; "
        ctx.check(good, ca.key + ":persistent-object-keeps-its-shard",
                  detail + "an object that already has an identity key is not routed to the shard recorded in that key "
                  "(an UPDATE/DELETE for an object loaded from shard 'a' whose chooser attributes changed goes to another shard; the row in 'a' stays)",
                  f"{st}.key -> {st}.key[{tix}]", ca.loc, g.describe_path(w) if w else None)
    # (b) pending with token
    e_tok = branch(f"{st}.identity_token") + test_edges(g, lambda t, p: t == f"{st}.identity_token is None" and p is False)
    tok_reads = [x for x in walk_local(ca.node) if isinstance(x, ast.Attribute) and isinstance(x.ctx, ast.Load)
                 and dotted(x) == f"{st}.identity_token"]
    if not e_tok and not tok_reads:
        ctx.violation(ca.key + ":assigned-token-is-reused",
                      f"_choose_shard_and_assign never reads `{st}.identity_token`: a pending object whose shard was already chosen is "
                      "chosen again on every call (get_bind() during flush and the later INSERT may disagree about the shard)", ca.loc)
        e_tok = None
    else:
        ctx.require(e_tok, f"no `{st}.identity_token` branch (idiom not understood)")
    if e_tok is not None:
        after = g.reachable([b for _, _, b in e_tok], edge_ok=no_exc)
        rets = _returns_in(g, after)
        w = g.witness([b for _, _, b in e_tok], chooser, edge_ok=no_exc)
        good = bool(rets) and w is None and all(dotted(_through_local(ca.node, g.nodes[n].stmt.value)) == f"{st}.identity_token" for n in rets)
        ctx.check(good, ca.key + ":assigned-token-is-reused",
                  "an object whose identity token was already assigned is routed by something else than that token "
                  "(get_bind() during flush and the later INSERT may disagree about the shard)",
                  f"{st}.identity_token -> returned", ca.loc, g.describe_path(w) if w else None)
    # (c) chooser result recorded and returned
    res = set()
    for n in chooser:
        s_ = g.nodes[n].stmt
        if isinstance(s_, ast.Assign) and isinstance(s_.targets[0], ast.Name):
            res.add(s_.targets[0].id)
    ctx.require(len(res) == 1, "shard_chooser(...) result is not assigned to one local name")
    r_ = res.pop()
    stores = []
    for tgt, node, s_ in attr_stores(ca.node):
        if tgt == f"{st}.identity_token" and isinstance(s_, ast.Assign) and isinstance(s_.value, ast.Name) and s_.value.id == r_:
            stores.extend(g.nodes_for(s_))
    no_inst = test_edges(g, lambda t, p: t == f"{inst} is None" and p is True)
    starts = [b for n in chooser for b in _normal_succ(g, n)]
    w = must_pass(g, starts, [g.exit], stores, edge_ok=both(no_exc, cut_edges(no_inst))) if stores else ["no store"]
    rets = _returns_in(g, g.reachable(starts, edge_ok=no_exc))
    ret_ok = bool(rets) and all(isinstance(g.nodes[n].stmt.value, ast.Name) and g.nodes[n].stmt.value.id == r_ for n in rets)
    ctx.check(bool(stores) and w is None and ret_ok, ca.key + ":chosen-shard-recorded-and-returned",
              ("the shard chooser's result is not returned; " if not ret_ok else "")
              + f"the shard chosen for a new object is not recorded as `{st}.identity_token`: two new objects with the same "
                "primary key flushed to different shards get the same identity key, and the object is re-chosen on its next flush",
              f"{r_} = shard_chooser(..); {st}.identity_token = {r_}; return {r_}", ca.loc, w if isinstance(w, list) else None)
    # (d) connection_callable / get_bind
    bind_key = _shard_bind_param(ctx)
    for fname, sinks in (("connection_callable", ("connection", "get_bind")), ("get_bind", ())):
        f = nf(ctx, ctx.func(f"{SESSION}.{fname}"), inline=False, alias="dotted")
        gf = ctx.cfg(f)
        ctx.require(bind_key in f.params, f"{f.key} has no `{bind_key}` parameter")
        chosen = []
        for nm, v, s_ in name_stores(f.node):
            if nm == bind_key and isinstance(v, ast.Call) and call_name(v) == "self._choose_shard_and_assign":
                chosen.extend(gf.nodes_for(s_))
        missing = test_edges(gf, lambda t, p: t == f"{bind_key} is None" and p is True)
        ctx.require(missing, f"no `{bind_key} is None` branch in {f.key}")
        if fname == "connection_callable":
            sink_nodes = call_nodes(gf, lambda nm, c: _last(nm) in sinks and nm != "self.connection")
            ctx.require(sink_nodes, f"{f.key}: no .connection(...) / self.get_bind(...) call")
            bad = []
            for n in sink_nodes:
                for c in own_calls(gf.nodes[n]):
                    if _last(call_name(c)) in sinks:
                        v = kw_or_pos(c, bind_key)
                        if not (isinstance(v, ast.Name) and v.id == bind_key):
                            bad.append(unparse(c)[:80])
            w = None
            for n in sink_nodes:
                w = gf.witness([b for _, _, b in missing if b not in chosen], [n], avoid=chosen, edge_ok=no_exc)
                if w:
                    break
            ctx.check(not bad and w is None and bool(chosen), f.key + ":flush-connection-of-the-chosen-shard",
                      ("call(s) " + "; ".join(bad) + f" do not pass {bind_key}=<the chosen shard>; " if bad else "")
                      + "the connection used to flush an object is not obtained for the shard chosen by _choose_shard_and_assign "
                        "(the INSERT goes to a different shard than the one recorded as the object's identity token)",
                      f"{bind_key} = _choose_shard_and_assign(...) -> connection({bind_key}=..) / get_bind({bind_key}=..)", f.loc,
                      gf.describe_path(w) if w else None)
        else:
            rets = _returns_in(gf, gf.reachable([gf.entry], edge_ok=no_exc))
            ctx.require(rets, "get_bind has no return")
            good = all(isinstance(gf.nodes[n].stmt.value, ast.Subscript) and (dotted(gf.nodes[n].stmt.value.value) or "").endswith("__shards")
                       and isinstance(gf.nodes[n].stmt.value.slice, ast.Name) and gf.nodes[n].stmt.value.slice.id == bind_key for n in rets)
            w = None
            for n in rets:
                w = gf.witness([b for _, _, b in missing if b not in chosen], [n], avoid=chosen, edge_ok=no_exc)
                if w:
                    break
            ctx.check(good and w is None and bool(chosen), f.key + ":bind-is-the-shard-table-entry",
                      f"get_bind() does not return the shard table's entry for `{bind_key}` (given, or chosen by _choose_shard_and_assign): "
                      "statements are sent to an engine other than the selected shard's",
                      f"return self.__shards[{bind_key}]", f.loc, gf.describe_path(w) if w else None)
    bs = ctx.func(f"{SESSION}.bind_shard")
    ps_ = [p for p in bs.params if p != "self"]
    ctx.require(len(ps_) >= 2, "bind_shard lost its (shard_id, bind) parameters")
    good = False
    for base, s, s_ in subscript_stores(bs.node):
        if base.endswith("__shards") and isinstance(s.slice, ast.Name) and s.slice.id == ps_[0] \
                and isinstance(s_, ast.Assign) and isinstance(s_.value, ast.Name) and s_.value.id == ps_[1]:
            good = True
    ctx.check(good, bs.key + ":shard-table-entry-stored",
              f"bind_shard({ps_[0]}, {ps_[1]}) does not store `{ps_[1]}` under `{ps_[0]}` in the shard table get_bind() reads",
              f"self.__shards[{ps_[0]}] = {ps_[1]}", bs.loc)


def _module_helper(ctx, F, v):
    """FuncInfo of the same-module function (or method of F's class called on self) that the call expression `v` runs; None
    for anything else (calls on other objects are collaborations, not extracted helpers)."""
    if not isinstance(v, ast.Call):
        return None
    fn = v.func
    r = None
    if isinstance(fn, ast.Name):
        r = ctx.index.resolve(F.module, fn.id)
    elif isinstance(fn, ast.Attribute) and isinstance(fn.value, ast.Name) and fn.value.id in ("self", "cls") and F.cls is not None:
        r = ctx.index.resolve_method(F.cls, fn.attr)
    if r is None or getattr(r, "module", None) is not F.module or not isinstance(getattr(r, "node", None), (ast.FunctionDef, ast.AsyncFunctionDef)):
        return None
    return r


def _through_local(fn, e, depth=0):
    """Expression with a returned local replaced by its single definition (`token = state.key[2]; return token`)."""
    if isinstance(e, ast.Name) and depth < 3:
        defs = [v for nm, v, _ in name_stores(fn) if nm == e.id and v is not None]
        if len(defs) == 1:
            return _through_local(fn, defs[0], depth + 1)
    return e


# ---------------------------------------------------------------------- C53-R5
@R.rule("C53-R5", floor=2, template="T-OWN",
        desc="ShardedSession.__init__ registers the fan-out function for the statement-execution event on every "
             "normal path, and that function is the one that iterates the execute chooser")
def r5(ctx):
    init, regs = _hook_registrations(ctx)
    names = _execute_dispatch_names(ctx)
    g = ctx.cfg(init)
    mine = [c for c, i, t in regs if i in names]
    nodes = [n.id for n in g.nodes if any(c in mine for c in own_calls(n))]
    w = must_pass(g, [g.entry], [g.exit], nodes, edge_ok=no_exc) if nodes else ["no registration of a listener for " + "/".join(sorted(names))]
    ctx.check(bool(nodes) and w is None, init.key + ":execute-hook-registered",
              "a ShardedSession can be constructed without the statement-execution hook: session.execute(select(X)) then runs on the single "
              "shard get_bind() picks, rows of all other shards are missing",
              "event.listen(self, <execute event>, <hook>) on every path", init.loc, w)
    ok_target = False
    detail = "no hook"
    if mine:
        fan = _Fan(ctx)
        detail = fan.F.qualname
        ok_target = bool(fan.exec_nodes(fan.loopvar))
    ctx.check(ok_target, init.key + ":execute-hook-is-the-fan-out",
              "the registered execution hook does not execute the statement per chosen shard",
              f"hook = {detail}", init.loc)


# ---------------------------------------------------------------------- C53-R6
@R.rule("C53-R6", floor=4, template="T-PATH",
        desc="_identity_lookup: a known identity token is the only one searched; otherwise each token yielded by the identity "
             "chooser is looked up under that token and the first hit is returned; when the caller gives no token no path "
             "returns before the identity chooser was asked")
def r6(ctx):
    # a snapshot of the parameter (`token = identity_token`) is resolved before the branch atoms are read
    f = nf(ctx, ctx.func(f"{SESSION}._identity_lookup"), inline=False, alias="dotted")
    g = ctx.cfg(f)
    ctx.require("identity_token" in f.params, "_identity_lookup lost its identity_token parameter")
    chooser_loops = [n for n in g.nodes if n.kind == "for" and _iter_call_name(f.node, n.stmt) == "self.identity_chooser"]
    ctx.require(len(chooser_loops) == 1, "expected one `for <token> in self.identity_chooser(...)` loop in _identity_lookup")
    loop = chooser_loops[0]
    ctx.require(isinstance(loop.stmt.target, ast.Name), "identity chooser loop target is not a name")
    lv = loop.stmt.target.id

    def lookups(tokname):
        def pred(nm, c):
            if _last(nm) != "_identity_lookup" or not nm.startswith("super()"):
                return False
            v = kw_or_pos(c, "identity_token")
            return isinstance(v, ast.Name) and v.id == tokname
        return call_nodes(g, pred)
    all_lookups = call_nodes(g, lambda nm, c: _last(nm) == "_identity_lookup" and nm.startswith("super()"))
    # (a) known token
    known = test_edges(g, lambda t, p: t == "identity_token is None" and p is False)
    ctx.require(known, "no `identity_token is not None` branch in _identity_lookup")
    # path-sensitive from the entry under the fact "a token was given" (the fact dies when the parameter is rebound): no such
    # path reaches the chooser loop or another lookup, every such path to a return passes the lookup under that token
    ps = PathSense(g)
    given = [("identity_token is None", False)]
    w1 = ps.witness([g.entry], [loop.id], edge_ok=no_exc, init_facts=given)
    lk = lookups("identity_token")
    w2 = ps.witness([g.entry], [g.exit], avoid=lk, edge_ok=no_exc, init_facts=given) if lk else ["no lookup under the given token"]
    others = [n for n in all_lookups if n not in lk and ps.witness([g.entry], [n], edge_ok=no_exc, init_facts=given)]
    ctx.check(w1 is None and w2 is None and not others, f.key + ":known-token-only",
              "with a known identity token the identity map is not searched under exactly that token "
              "(session.get(X, pk, identity_token='a') can return the object with the same primary key from shard 'b')",
              "identity_token given -> super()._identity_lookup(identity_token=identity_token)", f.loc, w1 or w2)
    # (b) each candidate token
    body = [b for b, lab in g.succ[loop.id] if lab == "true"]
    in_loop = g.reachable(body, avoid=[loop.id], edge_ok=no_exc)
    lk = [n for n in lookups(lv) if n in in_loop]
    wrong = [n for n in all_lookups if n in in_loop and n not in lk]
    w = must_pass(g, body, [loop.id, g.exit], lk, edge_ok=no_exc) if lk else ["no lookup under the loop's token"]
    ctx.check(bool(lk) and not wrong and w is None, f.key + ":each-candidate-token-searched",
              f"a token yielded by the identity chooser is not looked up with identity_token={lv} "
              "(session.get() misses an object already loaded from that shard and loads a second copy, or finds another shard's object)",
              f"for {lv} in identity_chooser(..): super()._identity_lookup(identity_token={lv})", f.loc, w if isinstance(w, list) else None)
    # (c) first hit returned
    res = set()
    for n in (lk or [x for x in all_lookups if x in in_loop]):
        s_ = g.nodes[n].stmt
        if isinstance(s_, (ast.Assign, ast.AnnAssign)):
            tg = s_.targets[0] if isinstance(s_, ast.Assign) else s_.target
            if isinstance(tg, ast.Name):
                res.add(tg.id)
    ctx.require(len(res) == 1, "the per-token lookup result is not assigned to one local name")
    r_ = res.pop()
    hit = test_edges(g, lambda t, p: t == f"{r_} is None" and p is False)
    hit = [(a, lab, b) for a, lab, b in hit if a in in_loop]
    good = bool(hit)
    w = None
    if hit:
        starts = [b for _, _, b in hit]
        rets = [n for n in _returns_in(g, g.reachable(starts, edge_ok=no_exc, avoid=[loop.id]))]
        w = g.witness(starts, [loop.id], edge_ok=no_exc)
        good = bool(rets) and w is None and all(isinstance(g.nodes[n].stmt.value, ast.Name) and g.nodes[n].stmt.value.id == r_ for n in rets)
    ctx.check(good, f.key + ":first-hit-returned",
              f"an object found under one of the identity chooser's tokens (`{r_}` is not None) is not returned",
              f"{r_} is not None -> return {r_}", f.loc, g.describe_path(w) if w else None)
    # (d) no token given -> the identity chooser decides: path-sensitive (the fact `identity_token is None` holds at entry and
    # is dropped when the parameter is rebound), so a token invented on the way (parent's shard, a default shard ...) that
    # then takes the known-token branch is a path to `return` that never asked the chooser
    asks = [n.id for n in g.nodes if any(call_name(c) == "self.identity_chooser" for c in own_calls(n))]
    ctx.require(asks, "no self.identity_chooser(...) call in _identity_lookup")
    w = PathSense(g).witness([g.entry], [g.exit], avoid=asks, edge_ok=no_exc,
                             init_facts=[("identity_token is None", True), ("identity_token", False)])
    ctx.check(w is None, f.key + ":unknown-token-asks-chooser",
              "called without an identity token, _identity_lookup can return without consulting the identity chooser (a token is "
              "taken from somewhere else and searched as if the caller had given it): a many-to-one lazy load whose target lives "
              "in the shard the chooser names finds the object with the same primary key of another shard in the identity map",
              "identity_token is None at entry -> every return is preceded by self.identity_chooser(...)", f.loc, w)


# ---------------------------------------------------------------------- C53-R7
TOKEN = "identity_token"
# receivers on which an ambiguous method name (one that builtin containers also have: `get`) is a Session-like lookup
SESSION_LIKE_RECEIVERS = ("session", "sess", "_proxied", "sync_session")
R7_SCOPE = ("orm/", "ext/")


def _token_acceptors(ctx) -> Dict[str, list]:
    """{function name: [FuncInfo]}: functions of orm/ + ext/ that have a parameter named identity_token"""
    out: Dict[str, list] = {}
    for m in ctx.index.all_modules():
        if not m.relpath.startswith(R7_SCOPE) or TOKEN not in m.source:
            continue
        for f in ctx.index.all_functions(m):
            if TOKEN in f.params and not f.type_only and not f.is_overload:
                out.setdefault(f.name, []).append(f)
    return out


def _callee_last(c: ast.Call) -> Optional[str]:
    return c.func.attr if isinstance(c.func, ast.Attribute) else (c.func.id if isinstance(c.func, ast.Name) else None)


def _accepts_token(ctx, c: ast.Call, acc, F) -> bool:
    nm = _callee_last(c)
    if nm not in acc:
        return False
    if any(hasattr(t, nm) for t in (dict, list, set, str)):
        recv = dotted(c.func.value) if isinstance(c.func, ast.Attribute) else None
        if recv in ("self", "super()") and F.cls is not None:
            bases = [b for b in F.cls.bases if b is not None] if recv == "super()" else [F.cls]
            for b in bases:
                t = ctx.index.resolve_method(b, nm)
                if t is not None:
                    return TOKEN in t.params
            return False
        return recv is not None and recv.rsplit(".", 1)[-1] in SESSION_LIKE_RECEIVERS
    return True


def _token_argument(c: ast.Call, acc):
    """(expression passed as identity token | None, True when the call forwards **kw that may carry it)"""
    for k in c.keywords:
        if k.arg == TOKEN:
            return k.value, False
    star = any(k.arg is None for k in c.keywords) or any(isinstance(a, ast.Starred) for a in c.args)
    sigs = {tuple(p for p in f.params if p not in ("self", "cls")) for f in acc.get(_callee_last(c), [])}
    if len(sigs) == 1:
        sig = next(iter(sigs))
        i = sig.index(TOKEN)
        kwonly = set()
        for f in acc[_callee_last(c)]:
            kwonly |= {a.arg for a in f.node.args.kwonlyargs}
        if TOKEN not in kwonly and i < len(c.args) and not any(isinstance(a, ast.Starred) for a in c.args[: i + 1]):
            return c.args[i], False
    return None, star


@R.rule("C53-R7", floor=18, template="T-FLOW/T-SIBLING",
        desc="identity lookups made on behalf of a known identity carry its token (all call sites of token-accepting lookups in "
             "orm/ + ext/): a lookup that is given component [1] of an identity key gets component [2] of the same key as its "
             "identity_token; a function that was given an identity_token hands it to every token-accepting lookup it calls "
             "(except where that parameter is known to be None)")
def r7(ctx):
    acc = _token_acceptors(ctx)
    ctx.require(len(acc) >= 6, f"only {sorted(acc)} accept an identity_token")
    n_key = n_fwd = 0
    for m in ctx.index.all_modules():
        if not m.relpath.startswith(R7_SCOPE):
            continue
        if not any(nm + "(" in m.source for nm in acc):
            continue
        for f0 in sorted(ctx.index.all_functions(m), key=lambda x: x.key):
            if f0.type_only or f0.is_overload:
                continue
            if not any(_accepts_token(ctx, c, acc, f0) for c in calls_in(f0.node)):
                continue
            # helper-inlined, alias-resolved form: `pk, tok = self._split(key)` / `k = state.key` are read where they are used
            F = nf(ctx, f0, keep=set(acc), inline=True, alias="dotted")      # the lookups themselves are never inlined
            sites = [c for c in calls_in(F.node) if _accepts_token(ctx, c, acc, f0)]
            if not sites:
                continue
            g = ctx.cfg(F)
            kf = KeyFlow(g, F.node, ctx, F)
            seen_keys: Dict[str, int] = {}
            for c in sorted(sites, key=lambda x: (x.lineno, x.col_offset)):
                at = kf.node_of(c)
                if at is None:
                    continue        # inside a nested function / lambda: not on this CFG
                tok, star = _token_argument(c, acc)
                others = [a for a in c.args if a is not tok] + [k.value for k in c.keywords if k.arg not in (TOKEN, None)]
                pk_keys = []
                for a in others:
                    for K, i in kf.comps(a, at):
                        if i == 1 and K not in pk_keys:
                            pk_keys.append(K)
                callee = _callee_last(c)
                if pk_keys:
                    # (i) the primary key comes out of an identity key: the token must come out of the same key
                    base = f"{f0.key}:{callee}:token-of-the-same-key"
                    seen_keys[base] = seen_keys.get(base, 0) + 1
                    key = base + (f"#{seen_keys[base]}" if seen_keys[base] > 1 else "")
                    n_key += 1
                    ctx.functions_analysed.add(f0.key)
                    got = kf.comps(tok, at) if tok is not None else set()
                    missing = [K for K in pk_keys if (K, 2) not in got]
                    if tok is None and star:
                        ctx.error(f"{f0.key}: `{unparse(c.func)}` receives the primary key of an identity key and **kw; cannot see the token")
                    what = ("no identity_token at all" if tok is None else
                            f"`{unparse(tok)}`, which is not component [2] of that key"
                            + (" (it is component " + ", ".join(sorted({str(i) for _, i in got})) + " of a key)" if got else ""))
                    ctx.check(not missing, key,
                              f"`{unparse(c.func)}(...)` looks up the primary key taken from identity key `{describe_key(missing[0]) if missing else ''}` "
                              f"(component [1]) but is given {what}: with a ShardedSession the lookup is made under (class, pk, None) -- the "
                              "identity chooser / another shard's object with the same primary key answers, e.g. session.merge() of a detached "
                              "object from shard 'b' returns and overwrites the object of shard 'a', and the UPDATE goes to shard 'a'",
                              f"pk = K[1], identity_token = K[2] of the same key ({describe_key(pk_keys[0])})", f"{f0.module.path}:{c.lineno}")
                    continue
                if TOKEN in f0.params:
                    # (ii) the function was itself given a token: it is handed on
                    base = f"{f0.key}:{callee}:own-token-forwarded"
                    seen_keys[base] = seen_keys.get(base, 0) + 1
                    key = base + (f"#{seen_keys[base]}" if seen_keys[base] > 1 else "")
                    n_fwd += 1
                    ctx.functions_analysed.add(f0.key)
                    atoms = set(guard_atoms(g.edge_guards(at)))
                    if (f"{TOKEN} is None", True) in atoms:
                        ctx.ok(key, f"runs only when no token was given (`{TOKEN} is None`)")
                        continue
                    if tok is None and star:
                        ctx.ok(key, "token travels in the forwarded **kw")
                        continue
                    origins = kf.ident(tok, at) if tok is not None else frozenset()
                    ctx.check(("param", TOKEN) in origins, key,
                              f"`{f0.qualname}` was given an identity_token but calls `{unparse(c.func)}(...)` "
                              + ("without one" if tok is None else f"with `{unparse(tok)}`, which does not come from that parameter")
                              + ": the lookup / load further down uses (class, pk, None) -- session.get(X, pk, identity_token='b') can return "
                                "the object of shard 'a' that has the same primary key, or load the row from the wrong shard",
                              f"identity_token={unparse(tok) if tok is not None else ''} <- parameter", f"{f0.module.path}:{c.lineno}")
    ctx.require(n_key >= 2, f"only {n_key} lookup(s) in orm/ + ext/ receive component [1] of an identity key (Session._merge / loading._load_on_ident expected)")
    ctx.require(n_fwd >= 12, f"only {n_fwd} token-forwarding call(s) found in orm/ + ext/")


# ---------------------------------------------------------------------- self-test battery
_LOOP = (
    "        for shard_id in session.execute_chooser(orm_context):\n"
    "            result_ = iter_for_shard(shard_id)\n"
    "            partial.append(result_)\n"
)
# R1
R.mutant("fanout-skip-empty-partials", HS,
         sub(_LOOP, "        for shard_id in session.execute_chooser(orm_context):\n"
                    "            result_ = iter_for_shard(shard_id)\n"
                    "            if partial and not result_.returns_rows:\n"
                    "                continue\n"
                    "            partial.append(result_)\n"), "C53-R1")
R.mutant("fanout-merge-skips-second", HS, sub("return partial[0].merge(*partial[1:])", "return partial[0].merge(*partial[2:])"), "C53-R1")
R.mutant("fanout-returns-first-only", HS, sub("return partial[0].merge(*partial[1:])", "return partial[0]"), "C53-R1")
R.mutant("fanout-break-after-first", HS,
         sub(_LOOP, _LOOP + "            if len(partial) >= 1:\n                break\n"), "C53-R1")
R.mutant("fanout-execute-only-when-bound", HS,
         sub(_LOOP, "        for shard_id in session.execute_chooser(orm_context):\n"
                    "            if shard_id not in orm_context.bind_arguments:\n"
                    "                continue\n"
                    "            result_ = iter_for_shard(shard_id)\n"
                    "            partial.append(result_)\n"), "C53-R1")
# R2
R.mutant("per-shard-no-identity-token", HS,
         sub("        orm_context.update_execution_options(identity_token=shard_id)\n", ""), "C53-R2")
R.mutant("per-shard-token-from-options", HS,
         sub("orm_context.update_execution_options(identity_token=shard_id)",
             "orm_context.update_execution_options(identity_token=orm_context.identity_token)"), "C53-R2")
R.mutant("per-shard-wrong-bind-key", HS, sub('bind_arguments["shard_id"] = shard_id', 'bind_arguments["shard"] = shard_id'), "C53-R2")
R.mutant("per-shard-token-after-invoke", HS,
         sub("        orm_context.update_execution_options(identity_token=shard_id)\n"
             "        return orm_context.invoke_statement(bind_arguments=bind_arguments)\n",
             "        res = orm_context.invoke_statement(bind_arguments=bind_arguments)\n"
             "        orm_context.update_execution_options(identity_token=shard_id)\n"
             "        return res\n"), "C53-R2")
R.mutant("load-options-drop-identity-token-key", "orm/context.py",
         sub('                "yield_per",\n                "identity_token",\n', '                "yield_per",\n'), "C53-R2")
R.mutant("update-options-drop-identity-token-key", "orm/bulk_persistence.py",
         sub('                "populate_existing",\n                "identity_token",\n                "is_delete_using",\n',
             '                "populate_existing",\n                "is_delete_using",\n'), "C53-R2")
# R3
R.mutant("hook-ignores-identity-token", HS,
         sub("        if active_options and active_options._identity_token is not None:\n"
             "            shard_id = active_options._identity_token\n"
             "        elif \"_sa_shard_id\" in orm_context.execution_options:\n",
             "        if \"_sa_shard_id\" in orm_context.execution_options:\n"), "C53-R3")
R.mutant("hook-set-shard-key-mismatch", HS,
         sub("return self.execution_options(_sa_shard_id=shard_id)", "return self.execution_options(_sa_shard=shard_id)"), "C53-R3")
R.mutant("hook-known-shard-still-fans-out", HS,
         sub("    if shard_id is not None:\n        return iter_for_shard(shard_id)\n    else:\n",
             "    if shard_id is not None and not orm_context.is_select:\n        return iter_for_shard(shard_id)\n    else:\n"), "C53-R3")
R.mutant("hook-option-reset-before-test", HS,
         sub("            shard_id = orm_opt.shard_id\n            break\n",
             "            shard_id = orm_opt.shard_id\n            if not orm_opt.propagate_to_loaders:\n                shard_id = None\n            break\n"),
         "C53-R3")
R.mutant("hook-ignores-bind-argument", HS,
         sub("        elif \"shard_id\" in orm_context.bind_arguments:\n            shard_id = orm_context.bind_arguments[\"shard_id\"]\n", ""),
         "C53-R3")
# R4
R.mutant("choose-ignores-identity-key", HS,
         sub("            if state.key:\n                token = state.key[2]\n                assert token is not None\n                return token\n            elif state.identity_token is not None:\n",
             "            if state.identity_token is not None:\n"), "C53-R4")
R.mutant("choose-wrong-key-element", HS, sub("token = state.key[2]", "token = state.key[1]"), "C53-R4")
R.mutant("choose-token-not-recorded", HS,
         sub("        if instance is not None:\n            state.identity_token = shard_id\n        return shard_id\n", "        return shard_id\n"), "C53-R4")
R.mutant("choose-rechoose-pending", HS,
         sub("            elif state.identity_token is not None:\n                return state.identity_token\n", ""), "C53-R4")
R.mutant("connection-callable-drops-shard", HS,
         sub("            return trans.connection(mapper, shard_id=shard_id)", "            return trans.connection(mapper)"), "C53-R4")
R.mutant("get-bind-default-shard", HS,
         sub("        return self.__shards[shard_id]\n", "        return self.__shards.get(shard_id) or next(iter(self.__shards.values()))\n"), "C53-R4")
R.mutant("bind-shard-swapped", HS, sub("        self.__shards[shard_id] = bind\n", "        self.__shards[bind] = shard_id\n"), "C53-R4")
# R5
R.mutant("hook-not-registered", HS,
         sub("        event.listen(\n            self, \"do_orm_execute\", execute_and_instances, retval=True\n        )\n", ""), "C53-R5")
R.mutant("hook-registered-only-with-shards", HS,
         sub("        event.listen(\n            self, \"do_orm_execute\", execute_and_instances, retval=True\n        )\n",
             "        if shards:\n            event.listen(\n                self, \"do_orm_execute\", execute_and_instances, retval=True\n            )\n"), "C53-R5")
R.mutant("hook-wrong-event", HS,
         sub("self, \"do_orm_execute\", execute_and_instances, retval=True", "self, \"after_begin\", execute_and_instances, retval=True"), "C53-R5")
# R6
R.mutant("identity-lookup-known-token-ignored", HS,
         sub("                primary_key_identity,\n                identity_token=identity_token,\n                **kw,\n",
             "                primary_key_identity,\n                **kw,\n"), "C53-R6")
R.mutant("identity-lookup-loop-token-not-passed", HS,
         sub("                    identity_token=shard_id,\n                    lazy_loaded_from=lazy_loaded_from,\n",
             "                    lazy_loaded_from=lazy_loaded_from,\n"), "C53-R6")
R.mutant("identity-lookup-hit-not-returned", HS,
         sub("                if obj2 is not None:\n                    return obj2\n", "                if obj2 is not None:\n                    break\n"), "C53-R6")
R.mutant("identity-lookup-returns-first-candidate", HS,
         sub("                if obj2 is not None:\n                    return obj2\n", "                return obj2\n"), "C53-R6")
# benign refactors
R.mutant("benign-rename-partial", HS, sub("partial", "results", count=4), None)
R.mutant("benign-fanout-logging-and-direct-append", HS,
         sub(_LOOP, "        for sid in session.execute_chooser(orm_context):\n"
                    "            util.warn_limited(\"shard %s\", (sid,)) if False else None\n"
                    "            partial.append(iter_for_shard(sid))\n"), None)
R.mutant("benign-per-shard-reordered", HS,
         sub("        bind_arguments = dict(orm_context.bind_arguments)\n        bind_arguments[\"shard_id\"] = shard_id\n\n"
             "        orm_context.update_execution_options(identity_token=shard_id)\n",
             "        orm_context.update_execution_options(identity_token=shard_id)\n"
             "        bind_arguments = dict(orm_context.bind_arguments, shard_id=shard_id)\n"), None)
R.mutant("benign-merge-whole-list", HS,
         sub("return partial[0].merge(*partial[1:])", "first, *rest = partial\n        return first.merge(*rest)"), None)
R.mutant("benign-choose-inline-token", HS,
         sub("                token = state.key[2]\n                assert token is not None\n                return token\n",
             "                assert state.key[2] is not None\n                return state.key[2]\n"), None)
R.mutant("benign-get-bind-guard-clause", HS,
         sub("        if shard_id is None:\n            shard_id = self._choose_shard_and_assign(\n                mapper, instance=instance, clause=clause\n            )\n            assert shard_id is not None\n        return self.__shards[shard_id]\n",
             "        if shard_id is not None:\n            return self.__shards[shard_id]\n        shard_id = self._choose_shard_and_assign(\n            mapper, instance=instance, clause=clause\n        )\n        assert shard_id is not None\n        return self.__shards[shard_id]\n"), None)
R.mutant('benign-rfI_13-identity-lookup-inverted-and-hoisted', HS,
         sub('\n'
             '        """\n'
             '\n'
             '        if identity_token is not None:\n'
             '            obj = super()._identity_lookup(\n'
             '                mapper,\n'
             '                primary_key_identity,\n'
             '                identity_token=identity_token,\n'
             '                **kw,\n'
             '            )\n'
             '\n'
             '            return obj\n'
             '        else:\n'
             '            for shard_id in self.identity_chooser(\n'
             '                mapper,\n'
             '                primary_key_identity,\n'
             '                lazy_loaded_from=lazy_loaded_from,\n'
             '                execution_options=execution_options,\n'
             '                bind_arguments=dict(bind_arguments) if bind_arguments else {},\n'
             '            ):\n'
             '                obj2 = super()._identity_lookup(\n'
             '                    mapper,\n'
             '                    primary_key_identity,\n'
             '                    identity_token=shard_id,\n'
             '                    lazy_loaded_from=lazy_loaded_from,\n'
             '                    **kw,\n'
             '                )\n'
             '                if obj2 is not None:\n'
             '                    return obj2\n'
             '\n'
             '            return None\n',
        '\n'
             '        """\n'
             '\n'
             '        if identity_token is None:\n'
             '            # no specific shard requested; ask the identity chooser which\n'
             '            # shards may hold this primary key and search each in turn\n'
             '            if bind_arguments:\n'
             '                chooser_bind_arguments = dict(bind_arguments)\n'
             '            else:\n'
             '                chooser_bind_arguments = {}\n'
             '\n'
             '            candidate_shard_ids = self.identity_chooser(\n'
             '                mapper,\n'
             '                primary_key_identity,\n'
             '                lazy_loaded_from=lazy_loaded_from,\n'
             '                execution_options=execution_options,\n'
             '                bind_arguments=chooser_bind_arguments,\n'
             '            )\n'
             '            for shard_id in candidate_shard_ids:\n'
             '                found = super()._identity_lookup(\n'
             '                    mapper,\n'
             '                    primary_key_identity,\n'
             '                    identity_token=shard_id,\n'
             '                    lazy_loaded_from=lazy_loaded_from,\n'
             '                    **kw,\n'
             '                )\n'
             '                if found is not None:\n'
             '                    return found\n'
             '\n'
             '            return None\n'
             '\n'
             '        return super()._identity_lookup(\n'
             '            mapper,\n'
             '            primary_key_identity,\n'
             '            identity_token=identity_token,\n'
             '            **kw,\n'
             '        )\n'), None)
R.mutant('benign-rfI_14-choose-aliases-and-get-bind-early-return', HS, chain(
    sub('            if state.key:\n'
             '                token = state.key[2]\n'
             '                assert token is not None\n'
             '                return token\n'
             '            elif state.identity_token is not None:\n'
             '                return state.identity_token\n'
             '\n'
             '        assert isinstance(mapper, Mapper)\n'
             '        shard_id = self.shard_chooser(mapper, instance, **kw)\n'
             '        if instance is not None:\n'
             '            state.identity_token = shard_id\n'
             '        return shard_id\n',
        '            identity_key = state.key\n'
             '            if identity_key:\n'
             '                # persistent object; the shard is part of its identity key\n'
             '                token = identity_key[2]\n'
             '                assert token is not None\n'
             '                return token\n'
             '\n'
             '            assigned_token = state.identity_token\n'
             '            if assigned_token is not None:\n'
             '                # shard was already chosen for this pending object\n'
             '                return assigned_token\n'
             '\n'
             '        assert isinstance(mapper, Mapper)\n'
             '        chosen_shard_id = self.shard_chooser(mapper, instance, **kw)\n'
             '        if instance is not None:\n'
             '            state.identity_token = chosen_shard_id\n'
             '        return chosen_shard_id\n'),
    sub('        clause: Optional[ClauseElement] = None,\n'
             '        **kw: Any,\n'
             '    ) -> _SessionBind:\n'
             '        if shard_id is None:\n'
             '            shard_id = self._choose_shard_and_assign(\n'
             '                mapper, instance=instance, clause=clause\n'
             '            )\n'
             '            assert shard_id is not None\n',
        '        clause: Optional[ClauseElement] = None,\n'
             '        **kw: Any,\n'
             '    ) -> _SessionBind:\n'
             '        if shard_id is not None:\n'
             '            return self.__shards[shard_id]\n'
             '\n'
             '        shard_id = self._choose_shard_and_assign(\n'
             '            mapper, instance=instance, clause=clause\n'
             '        )\n'
             '        assert shard_id is not None\n')), None)
R.mutant('benign-rfI_15-explicit-shard-helper-extracted', HS, chain(
    sub('def execute_and_instances(\n',
        'def _explicit_shard_id(\n'
             '    orm_context: ORMExecuteState, active_options: Any\n'
             ') -> Optional[ShardIdentifier]:\n'
             '    """Return the single shard id that the given execution was explicitly\n'
             '    directed towards, or None if the execute chooser should be consulted.\n'
             '\n'
             '    """\n'
             '    for orm_opt in orm_context._non_compile_orm_options:\n'
             '        # TODO: if we had an ORMOption that gets applied at ORM statement\n'
             '        # execution time, that would allow this to be more generalized.\n'
             '        # for now just iterate and look for our options\n'
             '        if isinstance(orm_opt, set_shard_id):\n'
             '            return orm_opt.shard_id\n'
             '\n'
             '    if active_options and active_options._identity_token is not None:\n'
             '        return active_options._identity_token\n'
             '    elif "_sa_shard_id" in orm_context.execution_options:\n'
             '        return orm_context.execution_options["_sa_shard_id"]\n'
             '    elif "shard_id" in orm_context.bind_arguments:\n'
             '        return orm_context.bind_arguments["shard_id"]\n'
             '    else:\n'
             '        return None\n'
             '\n'
             '\n'
             'def execute_and_instances(\n'),
    sub('        orm_context.update_execution_options(identity_token=shard_id)\n'
             '        return orm_context.invoke_statement(bind_arguments=bind_arguments)\n'
             '\n'
             '    for orm_opt in orm_context._non_compile_orm_options:\n'
             '        # TODO: if we had an ORMOption that gets applied at ORM statement\n'
             '        # execution time, that would allow this to be more generalized.\n'
             '        # for now just iterate and look for our options\n'
             '        if isinstance(orm_opt, set_shard_id):\n'
             '            shard_id = orm_opt.shard_id\n'
             '            break\n'
             '    else:\n'
             '        if active_options and active_options._identity_token is not None:\n'
             '            shard_id = active_options._identity_token\n'
             '        elif "_sa_shard_id" in orm_context.execution_options:\n'
             '            shard_id = orm_context.execution_options["_sa_shard_id"]\n'
             '        elif "shard_id" in orm_context.bind_arguments:\n'
             '            shard_id = orm_context.bind_arguments["shard_id"]\n'
             '        else:\n'
             '            shard_id = None\n',
        '        orm_context.update_execution_options(identity_token=shard_id)\n'
             '        return orm_context.invoke_statement(bind_arguments=bind_arguments)\n'
             '\n'
             '    shard_id = _explicit_shard_id(orm_context, active_options)\n')), None)
# further benign variants of the same families (rob-I)
R.mutant("benign-fanout-as-comprehension", HS,
         sub("        partial = []\n" + _LOOP,
             "        shard_ids = session.execute_chooser(orm_context)\n"
             "        partial = [iter_for_shard(sid) for sid in shard_ids]\n"), None)
R.mutant("benign-fanout-chooser-ids-in-local", HS,
         sub(_LOOP, "        chosen = session.execute_chooser(orm_context)\n"
                    "        for shard_id in chosen:\n"
                    "            result_ = iter_for_shard(shard_id)\n"
                    "            partial.append(result_)\n"), None)
R.mutant("benign-per-shard-dict-display", HS,
         sub("        bind_arguments = dict(orm_context.bind_arguments)\n        bind_arguments[\"shard_id\"] = shard_id\n",
             "        bind_arguments = {**orm_context.bind_arguments, \"shard_id\": shard_id}\n"), None)
R.mutant("benign-connection-callable-inverted", HS,
         sub("        if self.in_transaction():\n            trans = self.get_transaction()\n            assert trans is not None\n            return trans.connection(mapper, shard_id=shard_id)\n        else:\n            bind = self.get_bind(\n                mapper=mapper, shard_id=shard_id, instance=instance\n            )\n\n            if isinstance(bind, Engine):\n                return bind.connect(**kw)\n            else:\n                assert isinstance(bind, Connection)\n                return bind\n",
             "        if not self.in_transaction():\n            bind = self.get_bind(\n                mapper=mapper, shard_id=shard_id, instance=instance\n            )\n\n            if not isinstance(bind, Engine):\n                assert isinstance(bind, Connection)\n                return bind\n            return bind.connect(**kw)\n\n        trans = self.get_transaction()\n        assert trans is not None\n        return trans.connection(mapper, shard_id=shard_id)\n"), None)
R.mutant("benign-identity-lookup-miss-continues", HS,
         sub("                if obj2 is not None:\n                    return obj2\n", "                if obj2 is None:\n                    continue\n                return obj2\n"), None)
# the comprehension / helper forms must still be judged
R.mutant("fanout-comprehension-filters-shards", HS,
         sub("        partial = []\n" + _LOOP,
             "        partial = [iter_for_shard(sid) for sid in session.execute_chooser(orm_context) if sid]\n"), "C53-R1")
R.mutant("explicit-shard-helper-ignores-identity-token", HS, chain(
    sub("    for orm_opt in orm_context._non_compile_orm_options:\n        # TODO: if we had an ORMOption that gets applied at ORM statement\n        # execution time, that would allow this to be more generalized.\n        # for now just iterate and look for our options\n        if isinstance(orm_opt, set_shard_id):\n            shard_id = orm_opt.shard_id\n            break\n    else:\n        if active_options and active_options._identity_token is not None:\n            shard_id = active_options._identity_token\n        elif \"_sa_shard_id\" in orm_context.execution_options:\n            shard_id = orm_context.execution_options[\"_sa_shard_id\"]\n        elif \"shard_id\" in orm_context.bind_arguments:\n            shard_id = orm_context.bind_arguments[\"shard_id\"]\n        else:\n            shard_id = None\n",
        "    shard_id = _explicit_shard_id(orm_context)\n"),
    sub("def execute_and_instances(\n",
        "def _explicit_shard_id(orm_context):\n    for orm_opt in orm_context._non_compile_orm_options:\n        if isinstance(orm_opt, set_shard_id):\n            return orm_opt.shard_id\n    if \"_sa_shard_id\" in orm_context.execution_options:\n        return orm_context.execution_options[\"_sa_shard_id\"]\n    elif \"shard_id\" in orm_context.bind_arguments:\n        return orm_context.bind_arguments[\"shard_id\"]\n    return None\n\n\ndef execute_and_instances(\n")), "C53-R3")

# ---- round 2 (str2-w): seeds C53_1 / C53_2 and the families they belong to (C53-R7, C53-R6 :unknown-token-asks-chooser)
SESS = "orm/session.py"
_MERGE_GET = ("                merged = self.get(\n"
              "                    mapper.class_,\n"
              "                    key[1],\n"
              "                    identity_token=key[2],\n"
              "                    options=options,\n"
              "                )\n")
_LOAD_ON_IDENT = ("    if key is not None:\n"
                  "        ident = key[1]\n"
                  "        identity_token = key[2]\n"
                  "    else:\n"
                  "        ident = identity_token = None\n")
# seed C53_1: the merge target is looked up by primary key only
R.mutant("merge-get-drops-key-token", SESS,
         sub(_MERGE_GET, "                merged = self.get(mapper.class_, key[1], options=options)\n"), "C53-R7")
# same family: token taken from a different component / from nowhere at the other key-unpacking site
R.mutant("load-on-ident-token-from-wrong-component", "orm/loading.py",
         sub("        ident = key[1]\n        identity_token = key[2]\n", "        ident = key[1]\n        identity_token = key[0]\n"), "C53-R7")
R.mutant("load-on-ident-token-only-for-refresh", "orm/loading.py",
         sub("        only_load_props=only_load_props,\n        identity_token=identity_token,\n        no_autoflush=no_autoflush,\n",
             "        only_load_props=only_load_props,\n        identity_token=refresh_state.identity_token if refresh_state else None,\n        no_autoflush=no_autoflush,\n"),
         "C53-R7")
# forwarders: a function that was given a token does not hand it on
R.mutant("session-get-impl-lookup-without-token", SESS,
         sub("                primary_key_identity,\n                identity_token=identity_token,\n                execution_options=execution_options,\n",
             "                primary_key_identity,\n                execution_options=execution_options,\n"), "C53-R7")
R.mutant("session-get-one-drops-token", SESS,
         sub("            with_for_update=with_for_update,\n            identity_token=identity_token,\n            execution_options=execution_options,\n"
             "            bind_arguments=bind_arguments,\n        )\n\n        if instance is None:",
             "            with_for_update=with_for_update,\n            execution_options=execution_options,\n"
             "            bind_arguments=bind_arguments,\n        )\n\n        if instance is None:"), "C53-R7")
R.mutant("query-get-impl-passes-none-token", "orm/query.py",
         sub("            identity_token=identity_token,\n", "            identity_token=None,\n"), "C53-R7")
# benign refactors of the same sites
R.mutant("benign-merge-get-components-in-locals", SESS,
         sub(_MERGE_GET, "                merge_pk = key[1]\n"
                         "                merge_token = key[2]\n"
                         "                merged = self.get(\n"
                         "                    mapper.class_,\n"
                         "                    merge_pk,\n"
                         "                    options=options,\n"
                         "                    identity_token=merge_token,\n"
                         "                )\n"), None)
R.mutant("benign-merge-get-key-unpacked", SESS,
         sub(_MERGE_GET, "                _, merge_pk, merge_token = key\n"
                         "                merged = self.get(\n"
                         "                    mapper.class_, merge_pk, identity_token=merge_token, options=options\n"
                         "                )\n"), None)
R.mutant("benign-load-on-ident-unpack-and-inverted", "orm/loading.py",
         sub(_LOAD_ON_IDENT, "    if key is None:\n"
                             "        ident = identity_token = None\n"
                             "    else:\n"
                             "        _cls, ident, identity_token = key\n"), None)
R.mutant("benign-load-on-ident-conditional-expressions", "orm/loading.py",
         sub(_LOAD_ON_IDENT, "    ident = key[1] if key is not None else None\n"
                             "    identity_token = key[2] if key is not None else None\n"), None)
R.mutant("benign-load-on-ident-split-helper", "orm/loading.py", chain(
    sub(_LOAD_ON_IDENT, "    ident, identity_token = _split_identity_key(key)\n"),
    sub("def _load_on_ident(\n", "def _split_identity_key(key):\n"
                                 "    if key is None:\n"
                                 "        return None, None\n"
                                 "    return key[1], key[2]\n\n\n"
                                 "def _load_on_ident(\n")), None)
R.mutant("benign-session-get-token-through-local", SESS,
         sub("        return self._get_impl(\n            entity,\n            ident,\n            loading._load_on_pk_identity,\n"
             "            options=options,\n            populate_existing=populate_existing,\n            with_for_update=with_for_update,\n"
             "            identity_token=identity_token,\n",
             "        token = identity_token\n"
             "        return self._get_impl(\n            entity,\n            ident,\n            loading._load_on_pk_identity,\n"
             "            options=options,\n            populate_existing=populate_existing,\n            with_for_update=with_for_update,\n"
             "            identity_token=token,\n"), None)

_IDL_KNOWN = ("        if identity_token is not None:\n"
              "            obj = super()._identity_lookup(\n"
              "                mapper,\n"
              "                primary_key_identity,\n"
              "                identity_token=identity_token,\n"
              "                **kw,\n"
              "            )\n"
              "\n"
              "            return obj\n"
              "        else:\n")
# seed C53_2: a relationship load borrows the parent's token and never asks the identity chooser
R.mutant("identity-lookup-borrows-parent-token", HS,
         sub(_IDL_KNOWN, "        if identity_token is None and lazy_loaded_from is not None:\n"
                         "            identity_token = lazy_loaded_from.identity_token\n\n" + _IDL_KNOWN), "C53-R6")
# same class: a default shard / the single configured shard is assumed instead of asking the chooser
R.mutant("identity-lookup-defaults-to-first-shard", HS,
         sub(_IDL_KNOWN, "        if identity_token is None and len(self.__shards) == 1:\n"
                         "            identity_token = next(iter(self.__shards))\n\n" + _IDL_KNOWN), "C53-R6")
R.mutant("identity-lookup-token-from-execution-options", HS,
         sub(_IDL_KNOWN, "        identity_token = identity_token or execution_options.get(\"_sa_shard_id\")\n" + _IDL_KNOWN), "C53-R6")
# benign: the parameter is snapshotted / the branches are inverted with an early return / the lookup result is returned directly
R.mutant("benign-identity-lookup-token-alias-early-return", HS,
         sub(_IDL_KNOWN, "        given_token = identity_token\n"
                         "        if given_token is not None:\n"
                         "            return super()._identity_lookup(\n"
                         "                mapper,\n"
                         "                primary_key_identity,\n"
                         "                identity_token=given_token,\n"
                         "                **kw,\n"
                         "            )\n"
                         "        if True:\n"), None)
R.mutant("benign-identity-lookup-none-rebound-to-none", HS,
         sub(_IDL_KNOWN, "        if identity_token is None:\n"
                         "            identity_token = None\n\n" + _IDL_KNOWN), None)
