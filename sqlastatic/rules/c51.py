"""C51 -- Pickling round-trips (getstate/setstate key agreement, reduce/constructor arity, serializer tags)."""

from __future__ import annotations

import ast
import re

from ..astutil import call_name, calls_in, const_str, dotted, guard_atoms, lexical_guards, unparse, walk_local
from ..report import Registry, sub

R = Registry(
    "C51",
    title="Pickling and serializer round-trips preserve state and results",
    decides=(
        "for every class defining both __getstate__ and __setstate__: every key the reader requires "
        "(state['k'] outside a `'k' in state` / state.get('k') guard) is written unconditionally by the writer; "
        "for every literal __reduce__/__reduce_ex__ tuple: the argument count is accepted by the constructor of "
        "the class (and of every subclass inheriting that __reduce__) or by the named reconstructor function; "
        "InstanceState re-creates its weak reference with the _cleanup callback and calls the manager callable "
        "that __getstate__ stores last; every ext.serializer persistent-id tag written is matched by the reader "
        "regex, has a reader branch and the same number of ':' fields."
    ),
    not_decided="equality of the unpickled objects, pickle protocol specifics, user-defined classes.",
)

def _state_param(fn):
    a = fn.args.args
    return a[1].arg if len(a) > 1 else None


def _writer_keys(ctx, f):
    """(unconditional keys, all keys, open?, opaque?) written by a __getstate__"""
    fn = f.node
    pm = f.module.parents()
    rets = [r for r in walk_local(fn) if isinstance(r, ast.Return) and r.value is not None]
    if not rets:
        return set(), set(), False, True
    uncond, allk, is_open = set(), set(), False
    var = None
    for r in rets:
        v = r.value
        if isinstance(v, ast.Dict):
            for k in v.keys:
                if k is None:
                    is_open = True
                elif const_str(k) is not None:
                    uncond.add(const_str(k))
                else:
                    is_open = True
        elif isinstance(v, ast.Name):
            var = v.id
        else:
            return set(), set(), False, True  # e.g. dict(self), set(self): opaque payload
    if var is not None:
        seeded = False
        for n in walk_local(fn):
            tgt, val = None, None
            if isinstance(n, ast.Assign) and len(n.targets) == 1:
                tgt, val = n.targets[0], n.value
            elif isinstance(n, ast.AnnAssign) and n.value is not None:
                tgt, val = n.target, n.value
            if tgt is None:
                continue
            cond = bool(lexical_guards(pm, n, stop=fn))
            if isinstance(tgt, ast.Name) and tgt.id == var:
                seeded = True
                if isinstance(val, ast.Dict):
                    for k in val.keys:
                        if k is not None and const_str(k) is not None:
                            (allk if cond else uncond).add(const_str(k))
                        else:
                            is_open = True
                elif isinstance(val, ast.Call):
                    is_open = True
                else:
                    return set(), set(), False, True
            elif isinstance(tgt, ast.Subscript) and isinstance(tgt.value, ast.Name) and tgt.value.id == var:
                k = const_str(tgt.slice)
                if k is None:
                    is_open = True
                else:
                    (allk if cond else uncond).add(k)
        for c in calls_in(fn):
            if call_name(c) == f"{var}.update":
                # keys added by update(...) are treated as conditional
                for s in ast.walk(c):
                    if isinstance(s, ast.Constant) and isinstance(s.value, str):
                        allk.add(s.value)
        if not seeded:
            return set(), set(), False, True
    allk |= uncond
    return uncond, allk, is_open, False


def _reader_keys(f):
    """(required keys, optional keys, opaque?) read by a __setstate__"""
    fn = f.node
    sp = _state_param(fn)
    if sp is None:
        return set(), set(), True
    pm = f.module.parents()
    required, optional = set(), set()
    stored = set()
    subscripted = False
    for n in ast.walk(fn):
        if isinstance(n, ast.Subscript) and isinstance(n.value, ast.Name) and n.value.id == sp:
            subscripted = True
            k = const_str(n.slice)
            if k is None:
                continue
            if isinstance(n.ctx, ast.Store):
                stored.add(k)
                continue
            atoms = guard_atoms(lexical_guards(pm, n, stop=fn))
            guarded = any(p and (a == f"{k!r} in {sp}" or a.startswith(f"{sp}.get({k!r}")) for a, p in atoms)
            # comprehension filter `for k in (...) if k in state`
            (optional if guarded else required).add(k)
        elif isinstance(n, ast.Call) and call_name(n) == f"{sp}.get" and n.args and const_str(n.args[0]) is not None:
            subscripted = True
            optional.add(const_str(n.args[0]))
        elif isinstance(n, ast.Compare) and len(n.ops) == 1 and isinstance(n.ops[0], ast.In) \
                and isinstance(n.comparators[0], ast.Name) and n.comparators[0].id == sp and const_str(n.left) is not None:
            subscripted = True
            optional.add(const_str(n.left))
    return required, optional, not subscripted


def _attrs_assigned(ctx, cls):
    out = set()
    for k in ctx.index.mro(cls):
        for m in k.methods.values():
            for n in ast.walk(m.node):
                if isinstance(n, ast.Attribute) and isinstance(n.value, ast.Name) and n.value.id == "self" and isinstance(n.ctx, ast.Store):
                    out.add(n.attr)
        out |= set(k.assigns)
        for st in k.node.body:
            if isinstance(st, ast.AnnAssign) and isinstance(st.target, ast.Name):
                out.add(st.target.id)
    return out


@R.rule("C51-R1", floor=22, template="T-TABLE",
        desc="every key that __setstate__ requires is written unconditionally by the __getstate__ of the same class")
def r1(ctx):
    for cls in sorted(ctx.index.all_classes(), key=lambda c: c.key):
        g, s = cls.methods.get("__getstate__"), cls.methods.get("__setstate__")
        if g is None or s is None or g.type_only or s.type_only:
            continue
        ctx.functions_analysed.update((g.key, s.key))
        key = cls.key
        uncond, allk, is_open, opaque_w = _writer_keys(ctx, g)
        required, optional, opaque_r = _reader_keys(s)
        if opaque_w or opaque_r:
            if opaque_w and not opaque_r and required:
                ctx.error(f"{key}: __getstate__ idiom not understood but __setstate__ requires keys {sorted(required)}")
            ctx.ok(key, "opaque payload handed over as a whole", nontrivial=False)
            continue
        missing = required - uncond
        cond_only = missing & allk
        absent = missing - allk
        probs = []
        if cond_only:
            probs.append(f"__setstate__ requires {sorted(cond_only)} but __getstate__ writes them only conditionally (KeyError on unpickle)")
        if absent:
            if is_open:
                attrs = _attrs_assigned(ctx, cls)
                really = {k for k in absent if k not in attrs}
                if really and any(src in unparse(g.node) for src in ("__dict__",)):
                    probs.append(f"__setstate__ requires {sorted(really)} which are neither written by __getstate__ nor instance attributes")
            else:
                probs.append(f"__setstate__ requires {sorted(absent)} which __getstate__ never writes (KeyError on unpickle)")
        unread = sorted(uncond - required - optional)
        if unread and not (is_open or "update(" in unparse(s.node) or "_shallow_from_dict" in unparse(s.node)):
            ctx.note(f"{key}: keys written but never read: {unread}")
        ctx.check(not probs, key, "; ".join(probs),
                  f"required {sorted(required)} ⊆ written {sorted(uncond)}" + (" (+open source)" if is_open else ""), s.loc)


def _ctor_accepts(fn, n, implicit=1):
    a = fn.args
    pos = a.posonlyargs + a.args
    npos = len(pos) - implicit  # minus self/cls for methods
    nreq = npos - len(a.defaults)
    if a.vararg is not None:
        return n >= nreq, f"{fn.name}(>= {nreq} positional)"
    kwreq = [k.arg for k, d in zip(a.kwonlyargs, a.kw_defaults) if d is None]
    if kwreq:
        return False, f"{fn.name} has required keyword-only parameters {kwreq}"
    return nreq <= n <= npos, f"{fn.name}({nreq}..{npos} positional)"


@R.rule("C51-R2", floor=9, template="T-FLOW",
        desc="InstanceState.__setstate__ re-creates the weakref with _cleanup and calls the manager callable that "
             "__getstate__ stores last; ext.serializer: every written tag is matched by the reader regex, has a "
             "reader branch and the same number of fields")
def r2(ctx):
    ST = "orm/state.py::InstanceState"
    g = ctx.func(f"{ST}.__getstate__")
    s = ctx.func(f"{ST}.__setstate__")
    pm = s.module.parents()
    sp = _state_param(s.node)
    # weakref with cleanup
    ok = False
    for c in calls_in(s.node):
        if call_name(c) == "weakref.ref" and len(c.args) == 2 and unparse(c.args[1]) == "self._cleanup":
            par = pm.get(c)
            if isinstance(par, ast.Assign) and unparse(par.targets[0]) == "self.obj":
                ok = True
    ctx.check(ok, f"{s.key}:weakref", "self.obj is not re-created as weakref.ref(inst, self._cleanup): a garbage-collected "
                                      "unpickled object would never leave the identity map", "weakref.ref(inst, self._cleanup)", s.loc)
    # manager callable: written last, read and called
    var = None
    rets = [r for r in walk_local(g.node) if isinstance(r, ast.Return) and isinstance(r.value, ast.Name)]
    ctx.require(rets, f"{g.key}: does not return a named dict")
    var = rets[0].value.id
    stores = [n for n in g.node.body if any(
        (isinstance(x, ast.Subscript) and isinstance(x.value, ast.Name) and x.value.id == var and isinstance(x.ctx, ast.Store))
        or (isinstance(x, ast.Call) and call_name(x) == f"{var}.update") for x in ast.walk(n))]
    last = stores[-1] if stores else None
    wr = last is not None and isinstance(last, ast.Assign) and isinstance(last.targets[0], ast.Subscript) \
        and const_str(last.targets[0].slice) == "manager" and "_serialize" in unparse(last.value)
    called = any(isinstance(c.func, ast.Subscript) and isinstance(c.func.value, ast.Name) and c.func.value.id == sp
                 and const_str(c.func.slice) == "manager" and c.args and unparse(c.args[0]) == "self" for c in calls_in(s.node))
    ctx.check(wr and called, f"{ST}:manager",
              "the serialized-manager callable is not (a) stored under 'manager' as the last write of __getstate__ (pickle listeners "
              "must see the complete dict) and (b) called by __setstate__ with (self, inst, state_dict)",
              "written last; called on unpickle", g.loc)
    # ---- ext.serializer
    SER = "ext/serializer.py"
    w = ctx.func(f"{SER}::Serializer.persistent_id")
    rd = ctx.func(f"{SER}::Deserializer.persistent_load")
    m = ctx.index.module(SER)
    pat = None
    for name, vals in m.assigns.items():
        for v in vals:
            if isinstance(v, ast.Call) and call_name(v) == "re.compile" and v.args:
                try:
                    pat = ast.literal_eval(v.args[0])
                except Exception:
                    pat = None
    ctx.require(isinstance(pat, str), f"{SER}: reader regex literal not found")
    rx = re.compile(pat)

    def template(e):
        if isinstance(e, ast.Constant) and isinstance(e.value, str):
            return e.value
        if isinstance(e, ast.BinOp) and isinstance(e.op, ast.Add):
            return template(e.left) + template(e.right)
        if isinstance(e, ast.JoinedStr):
            return "".join(v.value if isinstance(v, ast.Constant) else "\0" for v in e.values)
        return "\0"
    written = {}
    for n in walk_local(w.node):
        if isinstance(n, ast.Assign) and isinstance(n.targets[0], ast.Name) and not (isinstance(n.value, ast.Constant) and n.value.value is None):
            t = template(n.value)
            if ":" in t and not t.startswith("\0"):
                tag, rest = t.split(":", 1)
                written[tag] = (rest.count(":") + 1) if rest else 0
    ctx.require(len(written) >= 3, f"{w.key}: persistent-id tags not recognised")
    # reader branches
    branches = {}
    for n in ast.walk(rd.node):
        if isinstance(n, ast.If) and isinstance(n.test, ast.Compare) and len(n.test.ops) == 1 and isinstance(n.test.ops[0], ast.Eq) \
                and const_str(n.test.comparators[0]) is not None:
            tag = const_str(n.test.comparators[0])
            nf = 0
            for st in n.body:
                for x in ast.walk(st):
                    if isinstance(x, ast.Assign) and isinstance(x.value, ast.Call) and (call_name(x.value) or "").endswith(".split") \
                            and isinstance(x.targets[0], ast.Tuple):
                        nf = max(nf, len(x.targets[0].elts))
                    elif isinstance(x, ast.Name) and x.id == "args" and nf == 0:
                        nf = 1
            branches[tag] = nf
    for tag, nf in sorted(written.items()):
        key = f"{SER}::tag:{tag}"
        probs = []
        mm = rx.match(tag + ":" + ":".join(["x"] * nf))
        if not mm or mm.group(1) != tag:
            probs.append(f"reader regex does not recognise the tag (matches {mm.group(1) if mm else None!r})")
        if tag not in branches:
            probs.append("Deserializer.persistent_load has no branch for it")
        elif branches[tag] != nf and not (nf == 0):
            probs.append(f"writer emits {nf} ':'-separated field(s), reader unpacks {branches[tag]}")
        ctx.check(not probs, key, "; ".join(probs), f"{nf} field(s)", w.loc)


@R.rule("C51-R3", floor=31, template="T-TABLE",
        desc="the argument tuple of every literal __reduce__/__reduce_ex__ is accepted by the constructor of the class "
             "and of every subclass that inherits the __reduce__, or by the named reconstructor")
def r3(ctx):
    for cls in sorted(ctx.index.all_classes(), key=lambda c: c.key):
        for rn in ("__reduce__", "__reduce_ex__"):
            f = cls.methods.get(rn)
            if f is None or f.type_only:
                continue
            ctx.functions_analysed.add(f.key)
            rets = [r for r in walk_local(f.node) if isinstance(r, ast.Return)]
            if len(rets) != 1 or not isinstance(rets[0].value, ast.Tuple) or len(rets[0].value.elts) < 2 \
                    or not isinstance(rets[0].value.elts[1], ast.Tuple) \
                    or any(isinstance(e, ast.Starred) for e in rets[0].value.elts[1].elts):
                ctx.note(f"{f.key}: non-literal reduce value, not analysed")
                continue
            callee, args = rets[0].value.elts[0], rets[0].value.elts[1]
            n = len(args.elts)
            cs = unparse(callee)
            targets = []  # [(label, function node)]
            if cs in ("self.__class__", "type(self)", cls.name):
                kl = [cls]
                if cs != cls.name:
                    kl += [k for k in ctx.index.subclasses(cls) if ctx.index.resolve_method(k, rn) is f]
                for k in kl:
                    for ctor in ("__new__", "__init__"):
                        cf = ctx.index.resolve_method(k, ctor)
                        if cf is not None:
                            targets.append((f"{k.name}.{ctor}", cf.node))
            else:
                r = ctx.index.resolve(cls.module, cs) if re.fullmatch(r"[\w.]+", cs) else None
                from ..index import ClassInfo, FuncInfo
                if isinstance(r, FuncInfo):
                    node = r.node
                    is_static = any(d in ("staticmethod",) for d in r.decorators)
                    if r.cls is not None and not is_static:
                        targets.append((r.qualname, node))  # classmethod/unbound: first param consumed
                    else:
                        # plain function / staticmethod: no implicit first parameter
                        targets.append((r.qualname + "()", node))
                elif isinstance(r, ClassInfo):
                    for ctor in ("__new__", "__init__"):
                        cf = ctx.index.resolve_method(r, ctor)
                        if cf is not None:
                            targets.append((f"{r.name}.{ctor}", cf.node))
                else:
                    ctx.note(f"{f.key}: reconstructor `{cs}` not resolved, not analysed")
                    continue
            probs = []
            for label, node in targets:
                okk, sig = _ctor_accepts(node, n, 0 if label.endswith("()") else 1)
                if not okk:
                    probs.append(f"{label}: {sig} cannot take the {n} pickled argument(s)")
            ctx.check(not probs, f.key, "; ".join(probs) + " (unpickling raises TypeError)",
                      f"{n} arg(s) accepted by " + (", ".join(l for l, _ in targets) or "builtin constructor"), f.loc)


# ------------------------------------------------------------------------------------ self-test
R.mutant("metadata-getstate-drops-key", "sql/schema.py",
         sub("            \"fk_memos\": self._fk_memos,\n", ""), "C51-R1")
R.mutant("collectionadapter-reads-unwritten", "orm/collections.py",
         sub("        self.invalidated = d[\"invalidated\"]\n", "        self.invalidated = d[\"is_invalidated\"]\n"), "C51-R1")
R.mutant("instancestate-class-conditional", "orm/state.py",
         sub("            \"instance\": self.obj(),\n            \"class_\": self.class_,\n", "            \"instance\": self.obj(),\n"), "C51-R1")
R.mutant("instancestate-no-cleanup", "orm/state.py",
         sub("self.obj = weakref.ref(inst, self._cleanup)", "self.obj = weakref.ref(inst)"), "C51-R2")
R.mutant("instancestate-manager-not-last", "orm/state.py",
         sub("        if self.load_path:\n            state_dict[\"load_path\"] = self.load_path.serialize()\n\n        state_dict[\"manager\"] = self.manager._serialize(self, state_dict)\n",
             "        state_dict[\"manager\"] = self.manager._serialize(self, state_dict)\n        if self.load_path:\n            state_dict[\"load_path\"] = self.load_path.serialize()\n\n"),
         "C51-R2")
R.mutant("serializer-tag-renamed", "ext/serializer.py",
         sub("            id_ = \"session:\"\n", "            id_ = \"sess:\"\n"), "C51-R2")
R.mutant("serializer-column-extra-field", "ext/serializer.py",
         sub("id_ = f\"column:{obj.table.key}:{obj.key}\"", "id_ = f\"column:{obj.table.schema}:{obj.table.key}:{obj.key}\""), "C51-R2")
R.mutant("serializer-regex-drops-engine", "ext/serializer.py",
         sub("    r\"session|attribute|engine):(.*)\"\n", "    r\"session|attribute):(.*)\"\n"), "C51-R2")
R.mutant("quoted-name-reduce-extra-arg", "sql/elements.py",
         sub("        return quoted_name, (str(self), self.quote)\n", "        return quoted_name, (str(self), self.quote, None)\n"), "C51-R3")
R.mutant("label-reduce-missing-arg", "sql/elements.py",
         sub("        return self.__class__, (self.name, self._element, self.type)\n", "        return self.__class__, ()\n"), "C51-R3")
# benign
R.mutant("benign-metadata-extra-key", "sql/schema.py",
         sub("            \"fk_memos\": self._fk_memos,\n", "            \"fk_memos\": self._fk_memos,\n            \"version\": 2,\n"), None)
R.mutant("benign-rename-state-param", "sql/selectable.py",
         sub("    def __setstate__(self, state: Dict[str, FromClause[_KeyColCC_co]]) -> None:\n        self.element = state[\"element\"]\n",
             "    def __setstate__(self, st: Dict[str, FromClause[_KeyColCC_co]]) -> None:\n        self.element = st[\"element\"]\n"),
         None)
R.mutant("benign-reader-optional-key", "orm/collections.py",
         sub("        self.invalidated = d[\"invalidated\"]\n", "        self.invalidated = d.get(\"invalidated\", False)\n"), None)
